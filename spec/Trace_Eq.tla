------------------------------ MODULE Trace_Eq ------------------------------
(* Property C07: grouping and de-duplication use the same equality as '='.  Binding B for the
   recordings of harness/cmd/c07 (and binding A for the cases TLC enumerates in MC_Eq, which are
   executed by the same driver and validated here).

   trace.ndjson lines:
     {"ev":"db","case":c,"fam":..,"coll":"bin|ci|cs|none|opaque","n":N,"vals":[v_1..v_N],"tab":[..],
      "eq":[[cell]]}           -- the value set of the following events: rows 1..N (ids) of the tables of
                                  one comparison family, and the ENGINE's own '=' over every ordered pair
                                  (1 TRUE, 0 FALSE, 2 NULL, 3 not reported); optional "expcls": the
                                  partition MC_Eq expects (binding A)
     {"ev":"matrix","id":..}   -- judge the matrix: (1) equivalence relation on the non-NULLs, NULL cells
                                  exactly for NULL operands; (2) on modelled values it is the
                                  specification's equality (SQLSem!CmpNN under the collation)
     {"ev":"op","id":..,"op":..,"fam":..,"k":kind of record, ...}
                               -- what one hashing operator produced, over ids: (3) it must induce
                                  exactly the partition into the classes of the matrix
   Every line is consumed; a disagreement prints `MM <json>` (with the set of disagreement kinds)
   and validation continues. *)
EXTENDS SQLSem, Json

TraceLog == ndJsonDeserialize("trace.ndjson")

VARIABLES l, cs
vars == <<l, cs>>

Init == l = 1 /\ cs = [n |-> 0]

\* ------------------------------------------------------------------ the value set in force
Pos == 1..cs.n
NullAt(i) == cs.vals[i].t = "n"
NN == {i \in Pos : ~NullAt(i)}
Cell(i, j) == cs.eq[i][j]
EqT(i, j) == Cell(i, j) = 1
Cls(i) == {j \in NN : EqT(i, j)}                \* the '='-class of a non-NULL row
Same(i, j) == IF NullAt(i) \/ NullAt(j) THEN NullAt(i) /\ NullAt(j) ELSE EqT(i, j)   \* grouping equality
NullsIn(D) == {i \in D : NullAt(i)}
ClassesIn(D) == {Cls(i) \cap D : i \in D \cap NN}
Count(s, x) == Cardinality({k \in DOMAIN s : s[k] = x})
Flag(name, X) == IF X = {} THEN {} ELSE {name}
Some(X) == IF X = {} THEN <<>> ELSE CHOOSE x \in X : TRUE

\* ------------------------------------------------------------------ (2) the specification's equality
\* Modelled values: integers, exact fractions (decimals and doubles arrive scaled: n/d), strings over
\* [0-9A-Za-z ] plus e-acute (233 / 201) under "ci" (utf8mb4_0900_ai_ci: accent and case folded,
\* NO PAD) / "cs" (utf8mb4_0900_as_cs: on this alphabet equality is identity) / "bin" (code points).
Modelled(v) == v.t \in {"i", "q", "s"}
Unaccent(cp) == [k \in DOMAIN cp |-> IF cp[k] = 233 THEN 101 ELSE IF cp[k] = 201 THEN 69 ELSE cp[k]]
SpecEq(a, b, coll) ==
  IF a.t = "s" /\ b.t = "s"
  THEN (IF coll = "ci" THEN CmpNN(S(Unaccent(a.v)), S(Unaccent(b.v)), "ci") = 0 ELSE CmpNN(a, b, "bin") = 0)
  ELSE CmpNN(a, b, "none") = 0

MatrixKinds ==
  LET refl == {i \in NN : ~EqT(i, i)}
      sym == {p \in NN \X NN : Cell(p[1], p[2]) # Cell(p[2], p[1])}
      trans == {p \in NN \X NN \X NN : EqT(p[1], p[2]) /\ EqT(p[2], p[3]) /\ ~EqT(p[1], p[3])}
      nulls == {p \in Pos \X Pos : (Cell(p[1], p[2]) = 2) # (NullAt(p[1]) \/ NullAt(p[2]))}
      holes == {p \in Pos \X Pos : Cell(p[1], p[2]) \notin {0, 1, 2}}
      spec == {p \in NN \X NN : /\ Modelled(cs.vals[p[1]]) /\ Modelled(cs.vals[p[2]]) /\ cs.coll # "opaque"
                                /\ EqT(p[1], p[2]) # SpecEq(cs.vals[p[1]], cs.vals[p[2]], cs.coll)}
      enum == IF "expcls" \in DOMAIN cs
              THEN (IF {Range(c) : c \in Range(cs.expcls)} = {Cls(i) : i \in NN} THEN {} ELSE {1}) ELSE {}
  IN [kinds |-> Flag("matrix-not-reflexive", refl) \cup Flag("matrix-not-symmetric", sym)
                \cup Flag("matrix-not-transitive", trans) \cup Flag("matrix-null-cell", nulls)
                \cup Flag("matrix-incomplete", holes) \cup Flag("matrix-vs-spec", spec)
                \cup Flag("classes-vs-enumeration", enum),
      exp |-> [refl |-> Some(refl), sym |-> Some(sym), trans |-> Some(trans), nulls |-> Some(nulls), spec |-> Some(spec)]]

\* ------------------------------------------------------------------ (3) the operators
\* GROUP BY: the groups (id lists) must be exactly the classes of the matrix plus one group of NULLs
GroupKinds(e) ==
  LET D == Range(e.L)
      G == e.groups
      gi == DOMAIN G
      cover == {i \in D : Cardinality({g \in gi : i \in Range(G[g])}) # 1} \cup {i \in UNION {Range(G[g]) : g \in gi} : i \notin D}
      merged == {g \in gi : \E i \in Range(G[g]) : \E j \in Range(G[g]) : ~Same(i, j)}
      split == {p \in gi \X gi : p[1] < p[2] /\ \E i \in Range(G[p[1]]) : \E j \in Range(G[p[2]]) : Same(i, j)}
      agg == {g \in gi : e.cnts[g] # Len(G[g]) \/ \E i \in Range(G[g]) : i < e.mins[g] \/ e.mins[g] \notin Range(G[g])}
  IN [kinds |-> Flag("groups-membership", cover) \cup Flag("groups-merged", merged) \cup Flag("groups-split", split)
                \cup Flag("group-aggregates", agg),
      exp |-> ClassesIn(D) \cup (IF NullsIn(D) = {} THEN {} ELSE {NullsIn(D)})]

\* number of result rows one class contributes; cl / cr = members of the class in the left / right input
Mult(sem, cl, cr) ==
  CASE sem = "union" -> IF cl + cr > 0 THEN 1 ELSE 0
    [] sem = "intersect" -> IF cl > 0 /\ cr > 0 THEN 1 ELSE 0
    [] sem = "except" -> IF cl > 0 /\ cr = 0 THEN 1 ELSE 0
    [] sem = "intersect_all" -> Min2(cl, cr)
    [] sem = "except_all" -> Max2(0, cl - cr)

RECURSIVE SumOver(_, _)
SumOver(S0, f) == IF S0 = {} THEN 0 ELSE LET x == CHOOSE y \in S0 : TRUE IN f[x] + SumOver(S0 \ {x}, f)

\* DISTINCT / UNION / INTERSECT / EXCEPT [ALL]: e.cnt rows, e.nulls of them NULL, e.back = the ids the
\* rows match through '=' (a bag): every row of a class appears once per result row of that class
ValueKinds(e) ==
  LET L == Range(e.L)
      R == Range(e.R)
      D == L \cup R
      m == [i \in D \cap NN |-> Mult(e.sem, Cardinality(Cls(i) \cap L), Cardinality(Cls(i) \cap R))]
      reps == {i \in D \cap NN : \A j \in Cls(i) \cap D : i <= j}
      expRows == SumOver(reps, m)
      expNulls == Mult(e.sem, Cardinality(NullsIn(L)), Cardinality(NullsIn(R)))
      extra == {i \in D \cap NN : Count(e.back, i) > m[i]} \cup {i \in Range(e.back) : i \notin D \cap NN}
      missing == {i \in D \cap NN : Count(e.back, i) < m[i]}
      dedup == e.sem = "union"
  IN [kinds |-> Flag(IF dedup THEN "groups-split" ELSE "rows-extra", extra)
                \cup Flag(IF dedup THEN "groups-missing" ELSE "rows-missing", missing)
                \cup (IF e.nulls # expNulls THEN {"null-rows"} ELSE {})
                \cup (IF extra = {} /\ missing = {} /\ e.cnt - e.nulls # expRows THEN {"row-count"} ELSE {}),
      exp |-> [rows |-> expRows, nulls |-> expNulls, per_id |-> m]]

CountKinds(e) ==
  LET exp == Cardinality(ClassesIn(Range(e.L)))
  IN [kinds |-> IF e.cnt > exp THEN {"count-high"} ELSE IF e.cnt < exp THEN {"count-low"} ELSE {}, exp |-> exp]

\* x IN (list) for row i: TRUE if '=' is TRUE with a member, else NULL if x or a member is NULL, else FALSE
InExp(i, M) == IF NullAt(i) THEN 2
               ELSE IF \E mm \in M \cap NN : EqT(i, mm) THEN 1
               ELSE IF \E mm \in M : NullAt(mm) THEN 2 ELSE 0

InKinds(e) ==       \* select-list form: e.res = <<id, 1|0|2>>
  LET D == Range(e.L)
      M == Range(e.list)
      got == Range(e.res)
      rowsBad == {i \in D : Cardinality({r \in DOMAIN e.res : e.res[r][1] = i}) # 1}
      fneg == {r \in got : r[1] \in D /\ InExp(r[1], M) = 1 /\ r[2] # 1}
      fpos == {r \in got : r[1] \in D /\ InExp(r[1], M) # 1 /\ r[2] = 1}
      nvf == {r \in got : r[1] \in D /\ InExp(r[1], M) # 1 /\ r[2] # 1 /\ r[2] # InExp(r[1], M)}
  IN [kinds |-> Flag("in-rows", rowsBad) \cup Flag("in-false-neg", fneg) \cup Flag("in-false-pos", fpos)
                \cup Flag("in-null-vs-false", nvf),
      exp |-> [i \in D |-> InExp(i, M)]]

InRowsKinds(e) ==   \* WHERE form: e.rows = ids returned
  LET D == Range(e.L)
      M == Range(e.list)
      exp == {i \in D : InExp(i, M) = 1}
      got == Range(e.rows)
  IN [kinds |-> Flag("in-false-neg", exp \ got) \cup Flag("in-false-pos", got \ exp)
                \cup Flag("in-dup", {i \in got : Count(e.rows, i) > 1}),
      exp |-> exp]

NotInRowsKinds(e) ==   \* WHERE NOT (x IN (..)): e.rows = ids returned = the rows where IN is FALSE
  LET D == Range(e.L)
      M == Range(e.list)
      exp == {i \in D : InExp(i, M) = 0}
      got == Range(e.rows)
  IN [kinds |-> Flag("notin-missing", exp \ got) \cup Flag("notin-extra", got \ exp)
                \cup Flag("in-dup", {i \in got : Count(e.rows, i) > 1}),
      exp |-> exp]

PairKinds(e) ==     \* equi-join: e.pairs = <<left id, right id>>
  LET exp == {p \in Range(e.L) \X Range(e.R) : EqT(p[1], p[2])}
      got == Range(e.pairs)
  IN [kinds |-> Flag("pairs-missing", exp \ got) \cup Flag("pairs-extra", got \ exp)
                \cup Flag("pairs-dup", {p \in got : Count(e.pairs, p) > 1}),
      exp |-> exp]

Verdict(e) ==
  IF "err" \in DOMAIN e THEN [kinds |-> {"engine-error"}, exp |-> "a result"]
  ELSE CASE e.k = "matrix" -> MatrixKinds
         [] e.k = "groups" -> GroupKinds(e)
         [] e.k = "values" -> ValueKinds(e)
         [] e.k = "count" -> CountKinds(e)
         [] e.k = "in" -> InKinds(e)
         [] e.k = "inrows" -> InRowsKinds(e)
         [] e.k = "notinrows" -> NotInRowsKinds(e)
         [] e.k = "pairs" -> PairKinds(e)

Judge(e) ==
  LET v == Verdict(e) IN
  IF v.kinds = {} THEN TRUE
  ELSE PrintT("MM " \o ToJson([l |-> l, id |-> e.id, case |-> cs.case, op |-> e.op, fam |-> e.fam, kinds |-> v.kinds, exp |-> v.exp]))

Next ==
  /\ l <= Len(TraceLog)
  /\ l' = l + 1
  /\ LET e == TraceLog[l] IN
     IF e.ev = "db" THEN cs' = e
     ELSE cs' = cs /\ Judge(e)

HW == TLCSet(1, l)
Accepted == TLCGet(1) = Len(TraceLog) + 1
=============================================================================
