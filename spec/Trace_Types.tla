----------------------------- MODULE Trace_Types -----------------------------
(* C09: every value a query returns is a valid value of the column type the engine reports for that
   result column, and a column reported NOT NULL never contains NULL.

   Fits(ty, v) is the typing relation: per reported column type the admissible value CATEGORY (not
   the Go representation) and the admissible range / shape.  The driver only describes: ty =
   [base, p, s, unsigned, nullable] parsed from the reported type string, v = [c (category), neg,
   d (integer digits, most significant first), f (number of fraction digits), n (length in
   characters)].  trace.ndjson:  {"ev":"typed","id","sql","cols":[ty..],"rows":[[v..]..]} *)
EXTENDS Integers, Sequences, FiniteSets, TLC, Json

TraceLog == ndJsonDeserialize("trace.ndjson")
VARIABLE l

\* magnitude comparison of digit sequences without leading zeros
RECURSIVE LexLe(_, _)
LexLe(a, b) == IF a = <<>> THEN TRUE
               ELSE IF Head(a) < Head(b) THEN TRUE
               ELSE IF Head(a) > Head(b) THEN FALSE
               ELSE LexLe(Tail(a), Tail(b))
RECURSIVE Strip(_)
Strip(d) == IF Len(d) > 1 /\ Head(d) = 0 THEN Strip(Tail(d)) ELSE d
MagLe(a, b) == LET x == Strip(a) y == Strip(b) IN
               IF Len(x) # Len(y) THEN Len(x) < Len(y) ELSE LexLe(x, y)
IsZero(d) == Strip(d) = <<0>>

\* integer type bounds as digit sequences: [max signed, max unsigned, |min signed|]
Bounds(base) ==
  CASE base = "tinyint"   -> [smax |-> <<1,2,7>>, umax |-> <<2,5,5>>, smin |-> <<1,2,8>>]
    [] base = "smallint"  -> [smax |-> <<3,2,7,6,7>>, umax |-> <<6,5,5,3,5>>, smin |-> <<3,2,7,6,8>>]
    [] base = "mediumint" -> [smax |-> <<8,3,8,8,6,0,7>>, umax |-> <<1,6,7,7,7,2,1,5>>, smin |-> <<8,3,8,8,6,0,8>>]
    [] base = "int"       -> [smax |-> <<2,1,4,7,4,8,3,6,4,7>>, umax |-> <<4,2,9,4,9,6,7,2,9,5>>, smin |-> <<2,1,4,7,4,8,3,6,4,8>>]
    [] base = "bigint"    -> [smax |-> <<9,2,2,3,3,7,2,0,3,6,8,5,4,7,7,5,8,0,7>>, umax |-> <<1,8,4,4,6,7,4,4,0,7,3,7,0,9,5,5,1,6,1,5>>,
                              smin |-> <<9,2,2,3,3,7,2,0,3,6,8,5,4,7,7,5,8,0,8>>]
IntBases == {"tinyint", "smallint", "mediumint", "int", "bigint"}

IntFits(ty, v) ==
  LET b == Bounds(ty.base) IN
  IF ty.unsigned THEN (~v.neg \/ IsZero(v.d)) /\ MagLe(v.d, b.umax)
  ELSE IF v.neg THEN MagLe(v.d, b.smin) ELSE MagLe(v.d, b.smax)

\* admissible value categories per reported type
CatOK(ty, v) ==
  CASE ty.base \in IntBases -> v.c = "int" \/ (v.c = "bool" /\ ty.base = "tinyint")   \* comparisons are reported as tinyint(1)
    [] ty.base = "boolean" -> v.c \in {"bool", "int"}
    [] ty.base \in {"year", "bit"} -> v.c = "int"
    [] ty.base \in {"double", "float"} -> v.c \in {"float", "dec", "int"}   \* any real number is a valid DOUBLE value
    [] ty.base = "decimal" -> v.c \in {"dec", "int"}
    [] ty.base \in {"char", "varchar", "tinytext", "text", "mediumtext", "longtext"} -> v.c = "str"
    [] ty.base \in {"binary", "varbinary", "tinyblob", "blob", "mediumblob", "longblob"} -> v.c \in {"bytes", "str"}
    [] ty.base \in {"date", "datetime", "timestamp"} -> v.c = "time"
    [] ty.base = "time" -> v.c \in {"duration", "str", "time"}
    [] ty.base \in {"enum", "set"} -> v.c \in {"str", "int"}
    [] ty.base = "json" -> v.c = "json"
    [] ty.base = "null" -> FALSE                                 \* a column typed NULL holds only NULLs
    [] OTHER -> v.c # "unknown"                                  \* types the relation does not model: any known category

\* admissible range / shape, given an admissible category
RangeOK(ty, v) ==
  CASE ty.base \in IntBases -> v.c = "bool" \/ IntFits(ty, v)
    [] ty.base = "year" -> ~v.neg /\ MagLe(v.d, <<2,1,5,5>>)
    [] ty.base = "bit" -> ~v.neg
    [] ty.base = "decimal" -> (v.c = "int" \/ v.f <= ty.s) /\ (Len(Strip(v.d)) <= ty.p - ty.s \/ IsZero(v.d))
    [] ty.base \in {"char", "varchar", "binary", "varbinary"} -> v.n <= ty.p
    [] OTHER -> TRUE

Fits(ty, v) == IF v.c = "null" THEN ty.nullable ELSE CatOK(ty, v) /\ RangeOK(ty, v)
Why(ty, v) == IF v.c = "null" THEN "null-in-notnull" ELSE IF ~CatOK(ty, v) THEN "category" ELSE "range"

Bad(e) == {<<i, j>> \in (DOMAIN e.rows) \X (DOMAIN e.cols) : Len(e.rows[i]) = Len(e.cols) /\ ~Fits(e.cols[j], e.rows[i][j])}
           \cup {<<i, 0>> : i \in {k \in DOMAIN e.rows : Len(e.rows[k]) # Len(e.cols)}}

Init == l = 1
Next ==
  /\ l <= Len(TraceLog)
  /\ l' = l + 1
  /\ LET e == TraceLog[l] IN
     IF e.ev = "typed" /\ Bad(e) # {}
     THEN LET b == CHOOSE x \in Bad(e) : TRUE IN
          PrintT("MM " \o ToJson([l |-> l, id |-> e.id, row |-> b[1], col |-> b[2], n |-> Cardinality(Bad(e)),
                                   why |-> IF b[2] > 0 THEN Why(e.cols[b[2]], e.rows[b[1]][b[2]]) ELSE "arity",
                                   cells |-> {[col |-> x[2], why |-> Why(e.cols[x[2]], e.rows[x[1]][x[2]]),
                                               base |-> e.cols[x[2]].base, c |-> e.rows[x[1]][x[2]].c] : x \in {y \in Bad(e) : y[2] > 0}},
                                   ty |-> IF b[2] > 0 THEN e.cols[b[2]] ELSE [base |-> "arity"],
                                   v |-> IF b[2] > 0 THEN e.rows[b[1]][b[2]] ELSE [c |-> "arity"]]))
     ELSE TRUE

HW == TLCSet(1, l)
Accepted == TLCGet(1) = Len(TraceLog) + 1
=============================================================================
