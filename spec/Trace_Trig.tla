----------------------------- MODULE Trace_Trig -----------------------------
(* C23, binding B: validates the trigger histories recorded by harness/cmd/dml2 -prop c23 against
   SQLTriggers.  trace.ndjson lines:
     {"ev":"schema","h":n,"tabs":{<t>:<table>..},"trigs":[<trigger as created>..]}
     {"ev":"step","id":n,"stmt":<AST>,"reply":{kind,class,..},"post":{<t>:[rows]..},
      "audit":[[seq,tid,o1..ow,n1..nw]..],"cnt":n}   -- the WHOLE audit table ordered by seq; @cnt
   A step is accepted iff, with (db, aud, cnt, kind) = SQLTriggers!TOutcome from the current tables:
     kind   the reply kind (ok / error) is the prescribed one
     base   every table holds the prescribed rows (bags) -- the tables written by cascading trigger bodies
            included, with what their own BEFORE triggers assigned to NEW
     audit  the audit entries added by the statement (those after the entries present before it) are EXACTLY
            the prescribed SEQUENCE: every body once per affected row at every depth of the cascade, in
            trigger order and statement order, OLD / NEW as prescribed, nothing for a failed statement
     cnt    (successful statements) @cnt grew by the number of executed SET @cnt statements
     seq    the sequence numbers of the added entries increase and exceed all earlier ones, and the
            earlier entries are unchanged
   A disagreement prints `MG <json>`; the state is resynchronised to the logged tables.             *)
EXTENDS SQLTriggers, Json

TraceLog == ndJsonDeserialize("trace.ndjson")

VARIABLES l, cx, db, aud, cnt
vars == <<l, cx, db, aud, cnt>>

Init == l = 1 /\ cx = [tabs |-> <<>>, trigs |-> <<>>] /\ db = <<>> /\ aud = <<>> /\ cnt = 0

Judge(e) ==
  LET o == TOutcome(cx, e.stmt, db, cnt)
      n0 == Len(aud)
      n1 == Len(e.audit)
      prefixOK == n1 >= n0 /\ SubSeq(e.audit, 1, n0) = aud
      added == IF n1 > n0 THEN SubSeq(e.audit, n0 + 1, n1) ELSE <<>>
      entries == [i \in DOMAIN added |-> Tail(added[i])]           \* without the sequence number
      lastseq == IF n0 = 0 THEN 0 ELSE aud[n0][1].v
      seqOK == \A i \in DOMAIN added : added[i][1].t = "i" /\ added[i][1].v > (IF i = 1 THEN lastseq ELSE added[i - 1][1].v)
      badtabs == {t \in DOMAIN db : ~BagEqRows(e.post[t], o.db[t], CollsOf(cx.tabs[t]))}
      what == (IF e.reply.kind # o.kind THEN <<"kind">> ELSE <<>>)
              \o (IF badtabs # {} THEN <<"base">> ELSE <<>>)
              \o (IF entries # o.aud THEN <<"audit">> ELSE <<>>)
              \o (IF e.reply.kind = "ok" /\ o.kind = "ok" /\ e.cnt # o.cnt THEN <<"cnt">> ELSE <<>>)
              \o (IF ~prefixOK \/ ~seqOK THEN <<"seq">> ELSE <<>>)
      report == IF what = <<>> THEN TRUE ELSE
                PrintT("MG " \o ToJson([l |-> l, id |-> e.id, what |-> what, badtabs |-> badtabs,
                                         exp |-> [kind |-> o.kind, class |-> o.class, db |-> o.db, aud |-> o.aud, cnt |-> o.cnt], got |-> entries]))
  IN /\ report
     /\ db' = [t \in DOMAIN db |-> e.post[t]]
     /\ aud' = e.audit
     /\ cnt' = e.cnt

Next ==
  /\ l <= Len(TraceLog)
  /\ l' = l + 1
  /\ LET e == TraceLog[l] IN
     IF e.ev = "schema" THEN
        /\ cx' = [tabs |-> e.tabs, trigs |-> e.trigs]
        /\ db' = [t \in DOMAIN e.tabs |-> e.tabs[t].rows]
        /\ aud' = <<>>
        /\ cnt' = 0
     ELSE IF e.ev = "step" THEN Judge(e) /\ UNCHANGED cx
     ELSE UNCHANGED <<cx, db, aud, cnt>>

HW == TLCSet(1, l)
Accepted == TLCGet(1) = Len(TraceLog) + 1
=============================================================================
