----------------------------- MODULE Trace_Trig -----------------------------
(* C23, binding B: validates the trigger histories recorded by harness/cmd/dml2 -prop c23 against
   SQLTriggers.  trace.ndjson lines:
     {"ev":"schema","h":n,"tabs":{"t1":<table>},"trigs":[<trigger as created>..]}
     {"ev":"step","id":n,"stmt":<AST>,"reply":{kind,class,..},"post":{"t1":[rows]},
      "audit":[[seq,tid,o1..ow,n1..nw]..]}        -- the WHOLE audit table ordered by seq
   A step is accepted iff, with (rows, aud, kind) = SQLTriggers!TOutcome from the current base table:
     kind   the reply kind (ok / error) is the prescribed one
     base   the base table holds the prescribed rows (bag)
     audit  the audit entries added by the statement (those after the entries present before it) are
            EXACTLY the prescribed SEQUENCE: every body once per affected row, in trigger order, BEFORE
            bodies before and AFTER bodies after each row's edit, OLD / NEW as prescribed, nothing for a
            failed statement
     seq    the sequence numbers of the added entries increase and exceed all earlier ones, and the
            earlier entries are unchanged
   A disagreement prints `MG <json>`; the state is resynchronised to the logged tables.             *)
EXTENDS SQLTriggers, Json

TraceLog == ndJsonDeserialize("trace.ndjson")

VARIABLES l, tab, trigs, aud
vars == <<l, tab, trigs, aud>>

EmptyTab == [cols |-> <<>>, checks |-> <<>>, pk |-> <<>>, uniq |-> <<>>, rows |-> <<>>]
Init == l = 1 /\ tab = EmptyTab /\ trigs = <<>> /\ aud = <<>>

Judge(e) ==
  LET o == TOutcome(tab, trigs, e.stmt, tab.rows)
      n0 == Len(aud)
      n1 == Len(e.audit)
      prefixOK == n1 >= n0 /\ SubSeq(e.audit, 1, n0) = aud
      added == IF n1 > n0 THEN SubSeq(e.audit, n0 + 1, n1) ELSE <<>>
      entries == [i \in DOMAIN added |-> Tail(added[i])]           \* without the sequence number
      lastseq == IF n0 = 0 THEN 0 ELSE aud[n0][1].v
      seqOK == \A i \in DOMAIN added : added[i][1].t = "i" /\ added[i][1].v > (IF i = 1 THEN lastseq ELSE added[i - 1][1].v)
      what == (IF e.reply.kind # o.kind THEN <<"kind">> ELSE <<>>)
              \o (IF ~BagEqRows(e.post.t1, o.rows, CollsOf(tab)) THEN <<"base">> ELSE <<>>)
              \o (IF entries # o.aud THEN <<"audit">> ELSE <<>>)
              \o (IF ~prefixOK \/ ~seqOK THEN <<"seq">> ELSE <<>>)
      report == IF what = <<>> THEN TRUE ELSE
                PrintT("MG " \o ToJson([l |-> l, id |-> e.id, what |-> what,
                                         exp |-> [kind |-> o.kind, class |-> o.class, rows |-> o.rows, aud |-> o.aud], got |-> entries,
                                         order |-> [tm \in {"before", "after"} |-> [tr \in DOMAIN ExecOrder(trigs, tm, e.stmt.k) |-> ExecOrder(trigs, tm, e.stmt.k)[tr].name]]]))
  IN /\ report
     /\ tab' = [tab EXCEPT !.rows = e.post.t1]
     /\ aud' = e.audit

Next ==
  /\ l <= Len(TraceLog)
  /\ l' = l + 1
  /\ LET e == TraceLog[l] IN
     IF e.ev = "schema" THEN tab' = e.tabs.t1 /\ trigs' = e.trigs /\ aud' = <<>>
     ELSE IF e.ev = "step" THEN Judge(e) /\ UNCHANGED trigs
     ELSE UNCHANGED <<tab, trigs, aud>>

HW == TLCSet(1, l)
Accepted == TLCGet(1) = Len(TraceLog) + 1
=============================================================================
