\* thorough: two columns over {NULL, 0}, canonical expressions, all lists of <= 3 ranges
CONSTANTS
  NV = 1
  K = 2
  MaxLen = 3
  Class = "canon"
  MaxTree = 0
  MinRem = 1
INIT InitEnum
NEXT NextEnum
VIEW ViewEnum
INVARIANTS TypeEnum DenseAgree
ACTION_CONSTRAINT EmitEnum
CHECK_DEADLOCK FALSE
