CONSTANTS
  LoopBound = 3
  StepFuel = 800
INIT Init
NEXT Next
CONSTRAINT HW
POSTCONDITION Accepted
CHECK_DEADLOCK FALSE
