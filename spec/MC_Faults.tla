------------------------------ MODULE MC_Faults ------------------------------
(* C15 at design level: the statements of the bounded MC_Tables grammars executed ROW BY ROW the way
   plan.TableEditorIter / memory.tableEditor run them, with a storage-fault action enabled at every
   row position.

     Begin(stmt)   StatementBegin: the editor snapshots the table (`snap`), the row edits go to the
                   statement's working copy `s` (rows, AUTO_INCREMENT high-water mark, counters)
     Row           the next row of a multi-row INSERT / REPLACE / INSERT IGNORE / ON DUPLICATE KEY
                   UPDATE (SQLTables!InsRow), the next designated row of an UPDATE or DELETE;
                   a constraint violation ends the statement with DiscardChanges (tables := snap)
     Fault         a storage error at the current row position: DiscardChanges (tables := snap)
     SrcFault      the row source of a non-IGNORE INSERT / REPLACE fails at the current row position (a BEFORE
                   trigger's SIGNAL, a run-time error of INSERT .. SELECT): DiscardChanges (tables := snap)
     Complete      no rows left: StatementComplete publishes the working copy
   Mech = "snapshot"    one StatementBegin per statement (plan.TableEditorIter);
   Mech = "checkpoint"  IGNORE statements begin / complete once PER ROW
                        (plan.CheckpointingTableEditorIter): every finished row is published and the
                        snapshot moves, so a storage fault at row j > 1 restores the state after row
                        j - 1, not the state before the statement.
   Properties:
     FailedStmtNoEffectF   a statement that ends with an error (natural or injected, at any row
                           position) leaves the tables and counters as they were at Begin
                           -- holds for "snapshot"; TLC refutes it for "checkpoint" (the recorded
                              finding C15-ignore-fault-keeps-earlier-rows, expected counterexample)
     StepsRefineStatement  a statement that runs to its end without an injected fault ends in one of
                           the outcomes SQLTables!Outcomes allows from the state at Begin (the
                           row-level execution refines the statement-level specification)
   Statements without row steps (TRUNCATE, UPDATE IGNORE, ..) stay atomic as in MC_Tables.          *)
EXTENDS MC_Tables

CONSTANT Mech

VARIABLE run
varsF == <<st, act, step, run>>
ViewF == <<st, run>>

S0(stt, t) == [rows |-> stt.tabs[t].rows, hi |-> stt.autoinc[t], first |-> 0, aff |-> 0, err |-> ""]
St0 == [tabs |-> Tabs0, autoinc |-> [t \in DOMAIN Tabs0 |-> 0], lastid |-> 0]
AnyT == CHOOSE t \in DOMAIN Tabs0 : TRUE
\* what a snapshot holds: the data (the schema does not change inside a row-stepped statement)
Data(stt) == [rows |-> [t \in DOMAIN stt.tabs |-> stt.tabs[t].rows], autoinc |-> stt.autoinc, lastid |-> stt.lastid]
Restore(stt, d) == [tabs |-> [t \in DOMAIN stt.tabs |-> [stt.tabs[t] EXCEPT !.rows = d.rows[t]]], autoinc |-> d.autoinc, lastid |-> d.lastid]
IdleRun == [on |-> FALSE, stmt |-> BaseStmt, begin |-> Data(St0), snap |-> Data(St0), s |-> S0(St0, AnyT), i |-> 0, sel |-> <<>>]

Stepped(stmt) == \/ stmt.k = "insert"
                 \/ stmt.k = "delete"
                 \/ (stmt.k = "update" /\ ~stmt.ignore)
Checkpointed(stmt) == Mech = "checkpoint" /\ stmt.k = "insert" /\ stmt.mode = "ignore"

NSteps(r) == IF r.stmt.k = "insert" THEN Len(r.stmt.rows) ELSE Len(r.sel)

InitF == Init /\ run = IdleRun

Act(stmt, reply, fin) == [stmt |-> stmt, reply |-> reply, nout |-> 0, fin |-> fin]

Begin(stmt) ==
  /\ ~run.on
  /\ Stepped(stmt)
  /\ LET T == st.tabs[stmt.t]
         sel == IF stmt.k = "insert" THEN <<>> ELSE Targets(T, T.rows, stmt.where, stmt.order, stmt.limit)
     IN run' = [on |-> TRUE, stmt |-> stmt, begin |-> Data(st), snap |-> Data(st), s |-> S0(st, stmt.t), i |-> 1,
                \* DELETE designates rows by value (indexes shift while rows disappear), UPDATE by position
                sel |-> IF stmt.k = "delete" THEN [j \in DOMAIN sel |-> T.rows[sel[j]]] ELSE sel]
  /\ st' = st
  /\ act' = Act(stmt, Reply("", "", 0, 0, 0, 0), "begin")
  /\ step' = step + 1

\* the statement ends with an error: DiscardChanges restores the snapshot
Discard(class, fin) ==
  /\ st' = [Restore(st, run.snap) EXCEPT !.lastid = IF run.stmt.k = "insert" /\ AutoCol(st.tabs[run.stmt.t]) # 0 /\ fin = "fail" THEN -1 ELSE run.snap.lastid]
  /\ run' = IdleRun
  /\ act' = Act(run.stmt, Reply("err", class, 0, 0, 0, 0), fin)
  /\ step' = step + 1

\* a row was processed without error
Continue(s2) ==
  /\ (IF Checkpointed(run.stmt)
      THEN \* StatementComplete after the row, StatementBegin before the next one
           LET pub == [st EXCEPT !.tabs[run.stmt.t].rows = s2.rows, !.autoinc[run.stmt.t] = s2.hi] IN
           /\ st' = pub
           /\ run' = [run EXCEPT !.s = s2, !.i = @ + 1, !.snap = Data(pub)]
      ELSE /\ st' = st
           /\ run' = [run EXCEPT !.s = s2, !.i = @ + 1])
  /\ act' = Act(run.stmt, Reply("", "", 0, 0, 0, 0), "row")
  /\ step' = step + 1

InsertRow ==
  LET T == st.tabs[run.stmt.t] IN
  \E s2 \in InsRow(T, run.s, run.stmt.cols, run.stmt.rows[run.i], run.stmt.mode, run.stmt.odku, {}) :
     IF s2.err # "" THEN Discard(s2.err, "fail") ELSE Continue(s2)

DeleteRow ==
  Continue([run.s EXCEPT !.rows = RemoveOne(@, run.sel[run.i]), !.aff = @ + 1])

UpdateRow ==
  LET T == st.tabs[run.stmt.t]
      idx == run.sel[run.i]
      old == run.s.rows[idx]
      new == Regen(T, ApSets(run.stmt.set, 1, old, <<>>))
      errs == (IF NotNullViol(T, new) THEN {"notnull"} ELSE {}) \cup (IF CheckViol(T, new) THEN {"check"} ELSE {})
      coll == \E j \in DOMAIN run.s.rows : j # idx /\ Conf(T, run.s.rows[j], new)
  IN IF new = old THEN Continue(run.s)
     ELSE IF errs # {} THEN \E c \in errs : Discard(c, "fail")
     ELSE IF coll THEN Discard("dup", "fail")
     ELSE Continue([run.s EXCEPT !.rows[idx] = new, !.aff = @ + 1, !.hi = NewHi(T, @, new)])

Row ==
  /\ run.on
  /\ run.i <= NSteps(run)
  /\ CASE run.stmt.k = "insert" -> InsertRow
       [] run.stmt.k = "delete" -> DeleteRow
       [] run.stmt.k = "update" -> UpdateRow

\* a storage error at the current row position
Fault ==
  /\ run.on
  /\ run.i <= NSteps(run)
  /\ Discard("fault", "fault")

\* the ROW SOURCE of a non-IGNORE INSERT / REPLACE fails before it delivers row i (a BEFORE trigger's SIGNAL, a
\* run-time error of INSERT .. SELECT): the statement fails, DiscardChanges
SrcFault ==
  /\ run.on
  /\ run.stmt.k = "insert" /\ run.stmt.mode # "ignore"
  /\ run.i <= NSteps(run)
  /\ Discard("src", "fault")

Complete ==
  /\ run.on
  /\ run.i > NSteps(run)
  /\ LET t == run.stmt.t
         s == run.s
         o == OkOut(t, s.rows, st.tabs[t].uniq, s.hi, IF s.first > 0 THEN s.first ELSE st.lastid, s.aff, s.aff, s.first)
     IN /\ st' = Canon(Apply(st, o))
        /\ act' = Act(run.stmt, o.reply, "ok")
  /\ run' = IdleRun
  /\ step' = step + 1

Atomic ==
  /\ ~run.on
  /\ \E stmt \in Stmts :
        /\ ~Stepped(stmt)
        /\ LET outs == Outcomes(st, stmt, {}) IN
           \E o \in outs :
              /\ st' = Canon(Apply(st, o))
              /\ act' = Act(stmt, o.reply, "atomic")
  /\ run' = run
  /\ step' = step + 1

NextF == (\E stmt \in Stmts : Begin(stmt)) \/ Row \/ Fault \/ SrcFault \/ Complete \/ Atomic

SpecF == InitF /\ [][NextF]_varsF

\* ------------------------------------------------------------------ properties
SameTables(a, b) == /\ \A t \in DOMAIN a.tabs : BagEqRows(a.tabs[t].rows, b.tabs[t].rows, CollsOf(a.tabs[t]))
                    /\ a.autoinc = b.autoinc

FailedStmtNoEffectFAct == (act'.fin \in {"fail", "fault"}) => SameTables(st', Restore(st, run.begin))
FailedStmtNoEffectF == [][FailedStmtNoEffectFAct]_varsF

StepsRefineAct ==
  (act'.fin \in {"fail", "ok"}) =>
     \E o \in Outcomes(Restore(st, run.begin), run.stmt, {}) :
        /\ o.reply.kind = act'.reply.kind
        /\ (act'.reply.kind = "err" => o.reply.class = act'.reply.class)
        /\ (act'.reply.kind = "ok" => /\ BagEqRows(st'.tabs[run.stmt.t].rows, o.rows, CollsOf(st.tabs[run.stmt.t]))
                                       /\ o.reply.lo <= act'.reply.lo /\ act'.reply.hi <= o.reply.hi
                                       /\ st'.autoinc[run.stmt.t] = o.hi)
StepsRefineStatement == [][StepsRefineAct]_varsF

\* vacuity guard: every kind of step is counted (TLC registers 11..15), read by the check
CountKinds ==
  LET k == act'.fin
      r == CASE k = "fault" -> 11 [] k = "fail" -> 12 [] k = "ok" -> 13 [] k = "row" -> 14 [] OTHER -> 15
  IN TLCSet(r, TLCGet(r) + 1)
ASSUME \A r \in 11..15 : TLCSet(r, 0)
Counts == PrintT("KC " \o ToJson([fault |-> TLCGet(11), fail |-> TLCGet(12), ok |-> TLCGet(13), row |-> TLCGet(14), other |-> TLCGet(15)]))
=============================================================================
