\* -simulate: three columns over {NULL, 0, 1, 2}, random lists of up to 4 ranges
CONSTANTS
  NV = 3
  K = 3
  MaxLen = 4
  Class = "canon"
  MaxTree = 0
  MinRem = 1
INIT InitEnum
NEXT NextEnum
INVARIANTS TypeEnum FastAgree
ACTION_CONSTRAINT EmitEnum
CHECK_DEADLOCK FALSE
