------------------------------ MODULE Geometry ------------------------------
(* C52 (partial claim: integer coordinates |x| <= 1000, SRIDs 0 / 3857 / 4326, structure and WKT
   text; no IEEE edge values, no WKB byte layout).

   A geometry is a tagged record; coordinates are pairs <<c1, c2>> IN THE ORDER WKT WRITES THEM:
     [t |-> "pt",  c   |-> <<c1, c2>>]
     [t |-> "ls",  ps  |-> <<pair, ..>>]                 at least 2 points
     [t |-> "pg",  rs  |-> <<ring, ..>>]                 ring: >= 4 points, first = last
     [t |-> "mpt", ps  |-> <<pair, ..>>]                 at least 1
     [t |-> "mls", ls  |-> <<<<pair, ..>>, ..>>]
     [t |-> "mpg", pgs |-> <<<<ring, ..>>, ..>>]
     [t |-> "gc",  gs  |-> <<geometry, ..>>]             possibly empty, nested
   (different tags never share a field of a different kind: records of different tags are never
   compared with =; all comparisons with the engine are on the TEXT built here).

   Axis order.  For SRID 4326 WKT writes latitude first; the engine stores the pair swapped and swaps
   back in ST_AsText, ST_X/ST_Y (ST_X = first WKT coordinate for every SRID, as in MySQL),
   ST_Latitude = first, ST_Longitude = second.  So in WKT order nothing depends on the SRID, the SRID
   is carried along unchanged, and that is what is specified here.

   WKT(g) is MySQL's spelling: POINT(1 2)  LINESTRING(0 0,1 1)  POLYGON((0 0,0 1,1 1,0 0))
   MULTIPOINT((1 2),(3 4))  MULTILINESTRING((0 0,1 1),(2 2,3 3))  MULTIPOLYGON(((0 0,0 1,1 1,0 0)))
   GEOMETRYCOLLECTION(POINT(1 2),LINESTRING(0 0,1 1))  GEOMETRYCOLLECTION EMPTY. *)
EXTENDS Integers, Sequences, FiniteSets, TLC

Pt(c) == [t |-> "pt", c |-> c]
Ls(ps) == [t |-> "ls", ps |-> ps]
Pg(rs) == [t |-> "pg", rs |-> rs]
MPt(ps) == [t |-> "mpt", ps |-> ps]
MLs(ls) == [t |-> "mls", ls |-> ls]
MPg(pgs) == [t |-> "mpg", pgs |-> pgs]
GC(gs) == [t |-> "gc", gs |-> gs]

\* ---------------------------------------------------------------- text
PairTxt(c) == ToString(c[1]) \o " " \o ToString(c[2])
Comma(i) == IF i > 1 THEN "," ELSE ""

RECURSIVE PairsTxt(_, _)          \* 0 0,1 1
PairsTxt(ps, i) == IF i > Len(ps) THEN "" ELSE Comma(i) \o PairTxt(ps[i]) \o PairsTxt(ps, i + 1)
RECURSIVE ParPairsTxt(_, _)       \* (1 2),(3 4)
ParPairsTxt(ps, i) == IF i > Len(ps) THEN "" ELSE Comma(i) \o "(" \o PairTxt(ps[i]) \o ")" \o ParPairsTxt(ps, i + 1)
RECURSIVE LinesTxt(_, _)          \* (0 0,1 1),(2 2,3 3)      rings of a polygon, lines of a multilinestring
LinesTxt(ls, i) == IF i > Len(ls) THEN "" ELSE Comma(i) \o "(" \o PairsTxt(ls[i], 1) \o ")" \o LinesTxt(ls, i + 1)
RECURSIVE PolysTxt(_, _)          \* ((0 0,0 1,1 1,0 0)),((..),(..))
PolysTxt(pgs, i) == IF i > Len(pgs) THEN "" ELSE Comma(i) \o "(" \o LinesTxt(pgs[i], 1) \o ")" \o PolysTxt(pgs, i + 1)

RECURSIVE WKT(_), GeomsTxt(_, _)
WKT(g) ==
    CASE g.t = "pt" -> "POINT(" \o PairTxt(g.c) \o ")"
      [] g.t = "ls" -> "LINESTRING(" \o PairsTxt(g.ps, 1) \o ")"
      [] g.t = "pg" -> "POLYGON(" \o LinesTxt(g.rs, 1) \o ")"
      [] g.t = "mpt" -> "MULTIPOINT(" \o ParPairsTxt(g.ps, 1) \o ")"
      [] g.t = "mls" -> "MULTILINESTRING(" \o LinesTxt(g.ls, 1) \o ")"
      [] g.t = "mpg" -> "MULTIPOLYGON(" \o PolysTxt(g.pgs, 1) \o ")"
      [] g.t = "gc" -> (IF g.gs = <<>> THEN "GEOMETRYCOLLECTION EMPTY"
                        ELSE "GEOMETRYCOLLECTION(" \o GeomsTxt(g.gs, 1) \o ")")
GeomsTxt(gs, i) == IF i > Len(gs) THEN "" ELSE Comma(i) \o WKT(gs[i]) \o GeomsTxt(gs, i + 1)

\* ---------------------------------------------------------------- validity
IsRing(r) == Len(r) >= 4 /\ r[1] = r[Len(r)]
RECURSIVE Valid(_)
Valid(g) ==
    CASE g.t = "pt" -> TRUE
      [] g.t = "ls" -> Len(g.ps) >= 2
      [] g.t = "pg" -> Len(g.rs) >= 1 /\ \A i \in DOMAIN g.rs : IsRing(g.rs[i])
      [] g.t = "mpt" -> Len(g.ps) >= 1
      [] g.t = "mls" -> Len(g.ls) >= 1 /\ \A i \in DOMAIN g.ls : Len(g.ls[i]) >= 2
      [] g.t = "mpg" -> Len(g.pgs) >= 1 /\ \A i \in DOMAIN g.pgs : (Len(g.pgs[i]) >= 1 /\ \A j \in DOMAIN g.pgs[i] : IsRing(g.pgs[i][j]))
      [] g.t = "gc" -> \A i \in DOMAIN g.gs : Valid(g.gs[i])

\* ---------------------------------------------------------------- structure accessors (as the SQL functions answer)
TypeName(g) ==
    CASE g.t = "pt" -> "POINT" [] g.t = "ls" -> "LINESTRING" [] g.t = "pg" -> "POLYGON"
      [] g.t = "mpt" -> "MULTIPOINT" [] g.t = "mls" -> "MULTILINESTRING" [] g.t = "mpg" -> "MULTIPOLYGON"
      [] g.t = "gc" -> "GEOMCOLLECTION"

Max2(a, b) == IF a >= b THEN a ELSE b
\* ST_Dimension; -1 stands for NULL (a collection that is empty or contains an empty collection)
RECURSIVE Dim(_), DimSeq(_, _)
Dim(g) ==
    CASE g.t \in {"pt", "mpt"} -> 0
      [] g.t \in {"ls", "mls"} -> 1
      [] g.t \in {"pg", "mpg"} -> 2
      [] g.t = "gc" -> (IF g.gs = <<>> THEN -1 ELSE DimSeq(g.gs, 1))
DimSeq(gs, i) ==
    IF i > Len(gs) THEN 0
    ELSE LET d == Dim(gs[i])
             r == DimSeq(gs, i + 1)
         IN IF d = -1 \/ r = -1 THEN -1 ELSE Max2(d, r)

Closed(ps) == ps[1] = ps[Len(ps)]
Bool(b) == IF b THEN "1" ELSE "0"

\* members of a collection type as geometries (ST_NumGeometries / ST_GeometryN)
Members(g) ==
    CASE g.t = "mpt" -> [i \in DOMAIN g.ps |-> Pt(g.ps[i])]
      [] g.t = "mls" -> [i \in DOMAIN g.ls |-> Ls(g.ls[i])]
      [] g.t = "mpg" -> [i \in DOMAIN g.pgs |-> Pg(g.pgs[i])]
      [] g.t = "gc" -> g.gs

\* all coordinate pairs of a geometry (for the bounding rectangle)
RECURSIVE FlatLines(_, _)
FlatLines(ls, i) == IF i > Len(ls) THEN <<>> ELSE ls[i] \o FlatLines(ls, i + 1)
RECURSIVE FlatPolys(_, _)
FlatPolys(pgs, i) == IF i > Len(pgs) THEN <<>> ELSE FlatLines(pgs[i], 1) \o FlatPolys(pgs, i + 1)
RECURSIVE Pairs(_), PairsSeq(_, _)
Pairs(g) ==
    CASE g.t = "pt" -> <<g.c>>
      [] g.t \in {"ls", "mpt"} -> g.ps
      [] g.t = "pg" -> FlatLines(g.rs, 1)
      [] g.t = "mls" -> FlatLines(g.ls, 1)
      [] g.t = "mpg" -> FlatPolys(g.pgs, 1)
      [] g.t = "gc" -> PairsSeq(g.gs, 1)
PairsSeq(gs, i) == IF i > Len(gs) THEN <<>> ELSE Pairs(gs[i]) \o PairsSeq(gs, i + 1)

SetMin(S) == CHOOSE x \in S : \A y \in S : x <= y
SetMax(S) == CHOOSE x \in S : \A y \in S : x >= y
\* minimum bounding rectangle [x1, y1, x2, y2] of a non-empty geometry
MBR(g) == LET ps == Pairs(g)
              xs == {ps[i][1] : i \in DOMAIN ps}
              ys == {ps[i][2] : i \in DOMAIN ps}
          IN [x1 |-> SetMin(xs), y1 |-> SetMin(ys), x2 |-> SetMax(xs), y2 |-> SetMax(ys)]

\* the expectations for one geometry: function name -> text the SQL function must return.
\* Only functions that are defined for the geometry's type are listed.
Expect(g, srid) ==
    LET w == WKT(g)
        common == [rt_text |-> w, rt_text2 |-> w, rt_wkb |-> w, rt_store |-> w,
                   srid |-> ToString(srid), rt_wkb_srid |-> ToString(srid), rt_store_srid |-> ToString(srid),
                   type |-> TypeName(g), dim |-> IF Dim(g) = -1 THEN "NULL" ELSE ToString(Dim(g))]
    IN CASE g.t = "pt" ->
              common @@ [x |-> ToString(g.c[1]), y |-> ToString(g.c[2])]
              @@ (IF srid = 4326 THEN [lat |-> ToString(g.c[1]), lon |-> ToString(g.c[2])] ELSE <<>>)
         [] g.t = "ls" ->
              common @@ [numpoints |-> ToString(Len(g.ps)), startpoint |-> WKT(Pt(g.ps[1])), endpoint |-> WKT(Pt(g.ps[Len(g.ps)])),
                         isclosed |-> Bool(Closed(g.ps)), pointn2 |-> WKT(Pt(g.ps[2]))]
         [] g.t = "pg" ->
              common @@ [extring |-> WKT(Ls(g.rs[1])), numintrings |-> ToString(Len(g.rs) - 1)]
              @@ (IF Len(g.rs) >= 2 THEN [intring1 |-> WKT(Ls(g.rs[2]))] ELSE <<>>)
         [] g.t = "mls" ->
              common @@ [numgeoms |-> ToString(Len(g.ls)), geomn1 |-> WKT(Ls(g.ls[1])),
                         isclosed |-> Bool(\A i \in DOMAIN g.ls : Closed(g.ls[i]))]
         [] g.t \in {"mpt", "mpg"} ->
              common @@ [numgeoms |-> ToString(Len(Members(g))), geomn1 |-> WKT(Members(g)[1]),
                         geomnlast |-> WKT(Members(g)[Len(Members(g))])]
         [] g.t = "gc" ->
              common @@ [numgeoms |-> ToString(Len(g.gs))]
              @@ (IF g.gs # <<>> THEN [geomn1 |-> WKT(g.gs[1]), geomnlast |-> WKT(g.gs[Len(g.gs)])] ELSE <<>>)

\* ---------------------------------------------------------------- shape tags (classification of reports only)
\* some collection has an EMPTY collection as a member that is not its last member
RECURSIVE EmptyMemberNotLast(_)
EmptyMemberNotLast(g) ==
    /\ g.t = "gc"
    /\ \E i \in DOMAIN g.gs :
          \/ (i < Len(g.gs) /\ g.gs[i].t = "gc" /\ g.gs[i].gs = <<>>)
          \/ EmptyMemberNotLast(g.gs[i])
Tags(g) == IF EmptyMemberNotLast(g) THEN {"empty_member_not_last"} ELSE {}

\* ---------------------------------------------------------------- predicates: points and axis-parallel rectangles
\* a rectangle is [x1, y1, x2, y2] with x1 < x2, y1 < y2 (closed point set); its polygon:
RectPg(r) == Pg(<< << <<r.x1, r.y1>>, <<r.x2, r.y1>>, <<r.x2, r.y2>>, <<r.x1, r.y2>>, <<r.x1, r.y1>> >> >>)

PtInRect(c, r) == r.x1 <= c[1] /\ c[1] <= r.x2 /\ r.y1 <= c[2] /\ c[2] <= r.y2          \* closed
PtInside(c, r) == r.x1 < c[1] /\ c[1] < r.x2 /\ r.y1 < c[2] /\ c[2] < r.y2              \* interior
RectsMeet(a, b) == a.x1 <= b.x2 /\ b.x1 <= a.x2 /\ a.y1 <= b.y2 /\ b.y1 <= a.y2         \* closed sets share a point

\* two rectangles that overlap although no corner of either lies in the other (a "plus sign"): used only to
\* classify reports (expweak in MC_GeometryCases)
Corners(r) == {<<r.x1, r.y1>>, <<r.x2, r.y1>>, <<r.x2, r.y2>>, <<r.x1, r.y2>>}
CrossOnly(a, b) == /\ RectsMeet(a, b)
                   /\ \A c \in Corners(a) : ~PtInRect(c, b)
                   /\ \A c \in Corners(b) : ~PtInRect(c, a)

\* shapes of the spatial-index tables: [k |-> "p", c |-> pair] or [k |-> "r", r |-> rect]
ShapeGeom(s) == IF s.k = "p" THEN Pt(s.c) ELSE RectPg(s.r)
Intersects(s, q) ==
    CASE s.k = "p" /\ q.k = "p" -> s.c = q.c
      [] s.k = "p" /\ q.k = "r" -> PtInRect(s.c, q.r)
      [] s.k = "r" /\ q.k = "p" -> PtInRect(q.c, s.r)
      [] s.k = "r" /\ q.k = "r" -> RectsMeet(s.r, q.r)
\* ST_Within(s, q) for a point s (OGC: the point lies in the interior of q; a point is within an equal point)
Within(s, q) == IF q.k = "p" THEN s.c = q.c ELSE PtInside(s.c, q.r)
=============================================================================
