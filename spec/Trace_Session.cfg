INIT TInit
NEXT TNext
INVARIANT AlwaysUsable
CONSTRAINT HW
POSTCONDITION Accepted
CHECK_DEADLOCK FALSE
