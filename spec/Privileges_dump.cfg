\* exhaustive transition dump of a small vocabulary (binding A): every transition of every state
\* reachable in < MaxStep - 1 steps, printed by Emit; the replayer materialises `pre` through SQL
CONSTANTS
  Users = {"u1", "u2"}
  Roles = {"r1"}
  Dbs = {"d1"}
  Tbls = {"t1", "t2"}
  Privs = {"SELECT", "INSERT", "DROP", "GRANT OPTION", "SUPER"}
  DynPrivs = {"REPLICATION_SLAVE_ADMIN"}
  MaxSet = 1
  WithAll = TRUE
  MaxStep = 3
  InitAll = TRUE
INIT Init
NEXT NextPlain
VIEW View
CONSTRAINT Bound
INVARIANTS TypeOK NoOrphans
ACTION_CONSTRAINT Emit
CHECK_DEADLOCK FALSE
