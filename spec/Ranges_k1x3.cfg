\* quick: one column over {NULL, 0, 1}, canonical expressions, all lists of <= 3
CONSTANTS
  NV = 2
  K = 1
  MaxLen = 3
  Class = "canon"
  MaxTree = 0
  MinRem = 1
INIT InitEnum
NEXT NextEnum
VIEW ViewEnum
INVARIANTS TypeEnum DenseAgree FastAgree
ACTION_CONSTRAINT EmitEnum
CHECK_DEADLOCK FALSE
