--------------------------- MODULE Trace_Calendar ---------------------------
(* C31, binding B.  Every line of c31_trace.ndjson is one group of statements recorded from the
   real engine by harness/cmd/c31 (gen / exec).  The value v = {y,m,d,h,i,s,us} is sent as integers,
   so the specification decides validity, completeness of a format, clamping and the expected sums
   and differences with the operators of Calendar.tla; the engine's strings are otherwise opaque.

     ev = "fmt":    specs (format tokens: "%Y" .. or one literal character), vs = the engine's canonical
                    string of v (CAST(v AS DATETIME(6))), f = DATE_FORMAT(v, fmt),
                    back = CAST(STR_TO_DATE(f, fmt) AS DATETIME(6)), nest = the same with the two calls nested.
                    Law: Complete /\ Unambiguous  =>  back = vs  /\  nest = vs.
     ev = "addsub": n, u; vs; add = CAST(DATE_ADD(v, INTERVAL n u) AS DATETIME(6)) and its fields addp;
                    back = CAST(DATE_SUB(DATE_ADD(v, ..), ..) AS DATETIME(6)) and its fields backp.
                    Laws: addp = AddIntervalDT(v, n, u); backp = AddIntervalDT(that, -n, u);
                    NoClamp(v, n, u) => back = vs.
     ev = "diff":   b; dd = DATEDIFF(v, b); ts[u] = TIMESTAMPDIFF(u, v, b).
                    Laws: dd = difference of day numbers; ts[u] = complete units, signed; second-based
                    units only when the two values are at most SpanDays apart.
   Outcomes "NULL" / "ERROR" are strings; integers are {"t":"i","v":n} (or t = "big"/"n"/"e").
   A value that is not a valid date/time must be rejected (NULL or error) by every function.
   A disagreement prints  MM <json>  and validation continues; every line prints  ST <json>
   (nt = at least one law was applicable).  Acceptance is the high-water mark of l. *)
EXTENDS Calendar, Json, FiniteSets

TraceLog == ndJsonDeserialize("c31_trace.ndjson")

VARIABLE l

Rejected == {"NULL", "ERROR"}
DateV(v) == D(v.y, v.m, v.d)
Sod(v) == v.h * 3600 + v.i * 60 + v.s
T(v) == DT(DateV(v), Sod(v))
ValidV(v) == ValidDate(DateV(v)) /\ v.h \in 0..23 /\ v.i \in 0..59 /\ v.s \in 0..59 /\ v.us \in 0..999999
IntVal(n) == [t |-> "i", v |-> n]
IsRejVal(x) == x.t \in {"n", "e"}

\* ---- formats ----------------------------------------------------------------------------------
Num == {"%Y", "%y", "%m", "%c", "%d", "%e", "%j", "%H", "%k", "%i", "%s", "%S", "%f", "%T"}
VarWidth == {"%c", "%e", "%k"}
Has(specs, S) == \E k \in DOMAIN specs : specs[k] \in S
\* the format determines every non-zero field of v (missing time fields default to zero)
Complete(specs, v) ==
    /\ Has(specs, {"%Y"}) \/ (Has(specs, {"%y"}) /\ v.y \in 1970..2069)
    /\ (Has(specs, {"%m", "%c"}) /\ Has(specs, {"%d", "%e"})) \/ Has(specs, {"%j"})
    /\ v.h # 0 => Has(specs, {"%H", "%k", "%T"})
    /\ v.i # 0 => Has(specs, {"%i", "%T"})
    /\ v.s # 0 => Has(specs, {"%s", "%S", "%T"})
    /\ v.us # 0 => Has(specs, {"%f"})
\* a variable-width number is never directly followed by another number
Unambiguous(specs) ==
    \A k \in DOMAIN specs : (specs[k] \in VarWidth /\ k + 1 \in DOMAIN specs) => specs[k + 1] \notin Num
\* Classification of disagreements only: the first members of adjacent numeric pairs; the engine's
\* parsers of Unbounded take every following digit (recorded finding), the others at most their width.
AdjFirst(specs) == {specs[k] : k \in {j \in DOMAIN specs : j + 1 \in DOMAIN specs /\ specs[j] \in Num /\ specs[j + 1] \in Num}}
Unbounded == {"%H", "%i", "%s", "%S", "%f", "%j"}
\* (and DATE_FORMAT prints %y without zero padding, a second recorded finding: a one-digit %y directly
\* followed by a number cannot be read back)
AdjTag(specs, v) == IF AdjFirst(specs) \cap Unbounded # {} THEN "adjacent-after-unbounded"
                    ELSE IF "%y" \in AdjFirst(specs) /\ v.y % 100 < 10 THEN "adjacent-after-one-digit-y"
                    ELSE IF AdjFirst(specs) # {} THEN "adjacent" ELSE "separated"

MM(i, e, what, tag, exp) ==
    PrintT("MM " \o ToJson([l |-> i, id |-> e.id, ev |-> e.ev, form |-> e.form, what |-> what, tag |-> tag, exp |-> exp]))
Chk(cond, i, e, what, tag, exp) == IF cond THEN TRUE ELSE MM(i, e, what, tag, exp)

JFmt(i, e) ==
    IF ~ValidV(e.v)
    THEN /\ Chk(e.vs \in Rejected, i, e, "invalid-accepted:cast", "", "rejected")
         /\ Chk(e.f \in Rejected, i, e, "invalid-accepted:date_format", "", "rejected")
    ELSE /\ Chk(e.vs \notin Rejected, i, e, "valid-rejected:cast", "", DTStr(T(e.v)))
         /\ Chk(e.f \notin Rejected, i, e, "valid-rejected:date_format", "", "a string")
         /\ ((Complete(e.specs, e.v) /\ Unambiguous(e.specs) /\ e.vs \notin Rejected) =>
               /\ Chk(e.back = e.vs, i, e, "parse-of-format", AdjTag(e.specs, e.v), e.vs)
               /\ Chk(e.nest = e.vs, i, e, "parse-of-format-nested", AdjTag(e.specs, e.v), e.vs))
NtFmt(e) == ValidV(e.v) /\ Complete(e.specs, e.v) /\ Unambiguous(e.specs)

\* ---- add then subtract --------------------------------------------------------------------------
SameDT(p, r, us) == p.y = r.y /\ p.m = r.m /\ p.d = r.d /\ p.h * 3600 + p.i * 60 + p.s = r.sod /\ p.us = us
JAdd(i, e) ==
    LET t  == T(e.v)
        r  == AddIntervalDT(t, e.n, e.u)
        rb == AddIntervalDT(r, -e.n, e.u)
        clamp == IF NoClamp(DateV(e.v), e.n, e.u) THEN "noclamp" ELSE "clamp"
    IN IF ~ValidV(e.v)
       THEN Chk(e.add \in Rejected, i, e, "invalid-accepted:date_add", "", "rejected")
       ELSE /\ Chk(e.vs \notin Rejected, i, e, "valid-rejected:cast", "", DTStr(t))
            /\ (IF IsDate(r)
                THEN /\ Chk(e.addok /\ SameDT(e.addp, r, e.v.us), i, e, "date_add", clamp, DTStr(r))
                     /\ (IsDate(rb) => Chk(e.backok /\ SameDT(e.backp, rb, e.v.us), i, e, "date_sub-of-date_add", clamp, DTStr(rb)))
                     /\ ((NoClamp(DateV(e.v), e.n, e.u) /\ e.vs \notin Rejected) =>
                            Chk(e.back = e.vs, i, e, "add-then-sub-restores", clamp, e.vs))
                ELSE IF r.y = NullDate.y THEN Chk(e.add = "NULL", i, e, "date_add-beyond-9999", "", "NULL")
                ELSE TRUE)
NtAdd(e) == ValidV(e.v) /\ IsDate(AddIntervalDT(T(e.v), e.n, e.u))

\* ---- differences ------------------------------------------------------------------------------------
JDiff(i, e) ==
    LET s == T(e.v)
        t == T(e.b)
        dd == DateDiff(DateV(e.v), DateV(e.b))
    IN IF ~ValidV(e.v) \/ ~ValidV(e.b)
       THEN Chk(IsRejVal(e.dd), i, e, "invalid-accepted:datediff", "", "rejected")
       ELSE /\ Chk(e.dd = IntVal(dd), i, e, "datediff", IF Abs(dd) > 106751 THEN "far" ELSE "near", dd)
            /\ ((e.v.us = 0 /\ e.b.us = 0) =>
                  /\ \A u \in DateUnits :
                       Chk(e.ts[u] = IntVal(TimestampDiff(u, s, t)), i, e, "timestampdiff-" \o u,
                           \* classification: same day of the month and hour, different minute (recorded finding)
                           IF s.d = t.d /\ s.sod \div 3600 = t.sod \div 3600 /\ s.sod \div 60 # t.sod \div 60 THEN "samehour" ELSE "",
                           TimestampDiff(u, s, t))
                  /\ (NearEnough(s, t) =>
                        \A u \in SecUnits :
                          Chk(e.ts[u] = IntVal(TimestampDiff(u, s, t)), i, e, "timestampdiff-" \o u, "", TimestampDiff(u, s, t))))
NtDiff(e) == ValidV(e.v) /\ ValidV(e.b) /\ DateV(e.v) # DateV(e.b)

Judge(i, e) ==
    /\ (CASE e.ev = "fmt" -> JFmt(i, e)
          [] e.ev = "addsub" -> JAdd(i, e)
          [] e.ev = "diff" -> JDiff(i, e)
          [] OTHER -> MM(i, e, "unknown-event", "", ""))
    /\ PrintT("ST " \o ToJson([l |-> i, id |-> e.id,
                               nt |-> (CASE e.ev = "fmt" -> NtFmt(e) [] e.ev = "addsub" -> NtAdd(e)
                                         [] e.ev = "diff" -> NtDiff(e) [] OTHER -> FALSE)]))

Init == l = 1
Next == l <= Len(TraceLog) /\ l' = l + 1 /\ Judge(l, TraceLog[l])

HW == TLCSet(1, l)
Accepted == TLCGet(1) = Len(TraceLog) + 1
=============================================================================
