\* exhaustive (thorough tier, next to Privileges_mc4.cfg which has no dynamic privileges): both dynamic
\* privileges with their own grant-option flags, few static ones, GRANT/REVOKE ALL; every history of < MaxStep steps
CONSTANTS
  Users = {"u1"}
  Roles = {"r1"}
  Dbs = {"d1"}
  Tbls = {"t1"}
  Privs = {"SELECT", "GRANT OPTION"}
  DynPrivs = {"REPLICATION_SLAVE_ADMIN", "CLONE_ADMIN"}
  MaxSet = 1
  WithAll = TRUE
  MaxStep = 4
  InitAll = TRUE
INIT Init
NEXT Next
VIEW View
CONSTRAINT Bound
INVARIANTS TypeOK NoOrphans RevokeInvertsGrant DynRevokeInvertsGrant DynGrantOptionIsGlobal HierarchyMonotone StrictWithinDeviation
PROPERTIES DeniedNoEffect ReloadIdentity DropForgets
CHECK_DEADLOCK FALSE
