CONSTANTS
  LoopBound = 3
  StepFuel = 600
  XDepth = 2
  XSize = 3
  SDepth = 3
  SSize = 6
  EmitOneIn = 40
INIT Init
NEXT Next
INVARIANT Agree
ACTION_CONSTRAINT Emit
CHECK_DEADLOCK FALSE
