\* quick: two columns over {NULL, 0}, canonical expressions, all pairs of ranges
CONSTANTS
  NV = 1
  K = 2
  MaxLen = 2
  Class = "canon"
  MaxTree = 0
  MinRem = 1
INIT InitEnum
NEXT NextEnum
VIEW ViewEnum
INVARIANTS TypeEnum
ACTION_CONSTRAINT EmitEnum
CHECK_DEADLOCK FALSE
