CONSTANTS
  Conns = {1, 2}
  Pids = {1, 2}
  MaxTok = 2
  MaxErr = 1
INIT Init
NEXT Next
VIEW View
INVARIANTS TypeOK PidIndex ListShowsLive ConnectedCounter RunningCounter
PROPERTIES KillTargeted FreshNotCancelled OnlyKillCancelsCurrent KillHits
CHECK_DEADLOCK FALSE
