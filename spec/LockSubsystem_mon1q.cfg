\* (quick variant: Lock with a finite timeout only) exact linearizability monitor on ONE lock name (ReleaseAll frees at most one lock, so it is atomic):
\* every history of calls and returns of the bounded model has a linearisation against LockAtomic.
CONSTANTS
  Sess = {1, 2, 3}
  Names = {"a"}
  Budget <- B2
  Timeouts = {"fin"}
  Monitor = TRUE
  Record = TRUE
INIT Init
NEXT Next
VIEW View
INVARIANTS TypeOK MonitorOK Linearizable GhostIsReal AtMostOneOwner
CHECK_DEADLOCK FALSE
