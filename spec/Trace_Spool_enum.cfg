\* C35: terminal summaries of the observable machine over the constants of Spool_kill.cfg.
CONSTANTS
  TB = 2
  EnumMaxRows = 5
  EnumKills = TRUE
  EnumTimeouts = FALSE
INIT EnumInit
NEXT EnumNext
ACTION_CONSTRAINT EnumEmit
CHECK_DEADLOCK FALSE
