CONSTANTS
  Universe <- MCUniverse
INIT Init
NEXT Next
INVARIANTS TypeOK DiffMatchesGuard
PROPERTIES Fixpoint
CHECK_DEADLOCK FALSE
