CONSTANTS
  MaxTasks = 4
  PanicKinds = {"string"}
INIT Init
NEXT Next
INVARIANTS TypeOK WaitOutcome LogOutcome Progress AllFinish
CONSTRAINT Emit
CHECK_DEADLOCK FALSE
