----------------------------- MODULE Trace_Laws -----------------------------
(* Binding B for the law-style query properties C05 (a predicate partitions the rows) and C06
   (equivalent formulations agree).  The laws are judged on the LOGGED results of the real engine, so
   the predicate may use any built-in function (its truth value stays opaque to the specification);
   when a case lies inside the interpreted fragment each logged result is ALSO judged against the
   query's meaning (SQLSem!ResultOK).

   trace.ndjson lines:
     {"ev":"db", "db": ...}
     {"ev":"tlp", "id", "w": n, "all","t","f","n","sel": <res>, ["qs": [q_all,q_t,q_f,q_n]]}
         all = rows of Q;  t/f/n = rows of Q filtered by p / NOT p / p IS NULL;
         sel = rows of Q extended by the value of p as last column (first w columns = Q's columns)
     {"ev":"equiv", "id", "kind", "ress": [<res>..], ["qs": [<query AST>..]]}
   A disagreement prints `MM <json>`; every line is consumed. *)
EXTENDS SQLSem, Json

TraceLog == ndJsonDeserialize("trace.ndjson")

VARIABLES l, db
vars == <<l, db>>
Init == l = 1 /\ db = <<>>

\* bag equality on logged (possibly opaque) rows: structural equality of the value records
BagOf(s) == [x \in Range(s) |-> Cardinality({i \in DOMAIN s : s[i] = x})]
BagEq(s, t) == Len(s) = Len(t) /\ BagOf(s) = BagOf(t)
Take(s, w) == [i \in DOMAIN s |-> SubSeq(s[i], 1, w)]
TruthIs(v, what) == CASE what = "t" -> (v.t = "i" /\ v.v # 0) \/ (v.t = "f" /\ v.v # 0)
                      [] what = "f" -> (v.t = "i" /\ v.v = 0) \/ (v.t = "f" /\ v.v = 0)
                      [] what = "n" -> v.t = "n"
Part(sel, w, what) == Take(SelectSeq(sel, LAMBDA r : TruthIs(r[w + 1], what)), w)

AllRows(rs) == \A i \in DOMAIN rs : rs[i].kind = "rows"
AllErr(rs) == \A i \in DOMAIN rs : rs[i].kind = "err"

TlpProblems(e) ==
  LET rs == <<e.all, e.t, e.f, e.n, e.sel>> IN
  IF AllErr(<<e.t, e.f, e.n, e.sel>>) THEN {}  \* the predicate is rejected in every position: nothing to judge
  ELSE IF ~AllRows(rs) THEN {"inconsistent-error"}
  ELSE (IF BagEq(e.all.rows, e.t.rows \o e.f.rows \o e.n.rows) THEN {} ELSE {"partition"})
       \cup (IF BagEq(e.t.rows, Part(e.sel.rows, e.w, "t")) THEN {} ELSE {"true-part"})
       \cup (IF BagEq(e.f.rows, Part(e.sel.rows, e.w, "f")) THEN {} ELSE {"false-part"})
       \cup (IF BagEq(e.n.rows, Part(e.sel.rows, e.w, "n")) THEN {} ELSE {"null-part"})
       \cup (IF BagEq(e.all.rows, Take(e.sel.rows, e.w)) THEN {} ELSE {"select-list"})

MeaningProblems(qs, rs) ==
  {i \in DOMAIN qs : ~(rs[i].kind = "rows" /\ ResultOK(qs[i], db, rs[i].rows))}

EquivProblems(e) ==
  IF AllErr(e.ress) THEN {}
  ELSE IF ~AllRows(e.ress) THEN {"inconsistent-error"}
  ELSE IF \A i \in DOMAIN e.ress : BagEq(e.ress[i].rows, e.ress[1].rows) THEN {} ELSE {"results-differ"}

HasQs(e) == "qs" \in DOMAIN e

Judge(e) ==
  CASE e.ev = "tlp" ->
         (LET pr == TlpProblems(e)
              mp == IF HasQs(e) /\ AllRows(<<e.all, e.t, e.f, e.n>>) THEN MeaningProblems(e.qs, <<e.all, e.t, e.f, e.n>>) ELSE {}
          IN IF pr = {} /\ mp = {} THEN TRUE
             ELSE PrintT("MM " \o ToJson([l |-> l, id |-> e.id, what |-> "tlp", problems |-> pr, meaning |-> mp])))
    [] e.ev = "equiv" ->
         (LET pr == EquivProblems(e)
              mp == IF HasQs(e) /\ AllRows(e.ress) THEN MeaningProblems(e.qs, e.ress) ELSE {}
          IN IF pr = {} /\ mp = {} THEN TRUE
             ELSE PrintT("MM " \o ToJson([l |-> l, id |-> e.id, what |-> "equiv", problems |-> pr, meaning |-> mp])))
    [] e.ev = "q" ->
         (IF e.res.kind = "rows" /\ ResultOK(e.q, db, e.res.rows) THEN TRUE
          ELSE PrintT("MM " \o ToJson([l |-> l, id |-> e.id, what |-> "result", exp |-> Rows(e.q, <<>>, db)])))
    [] e.ev = "multi" ->      \* one meaning, several execution paths (plain / prepared / bound parameters)
         (LET bad == {i \in DOMAIN e.ress : ~(e.ress[i].kind = "rows" /\ ResultOK(e.q, db, e.ress[i].rows))} IN
          IF bad = {} THEN TRUE
          ELSE PrintT("MM " \o ToJson([l |-> l, id |-> e.id, what |-> "variant", bad |-> bad, exp |-> Rows(e.q, <<>>, db)])))
    [] e.ev = "quiesce" ->    \* C36: at quiescence no query is running, every session is listed and idle, and the
                              \* shared memory manager holds no cache of a finished query
         (IF e.threads_running = 0 /\ e.busy = 0 /\ e.connections = e.expected_connections /\ e.caches = 0 THEN TRUE
          ELSE PrintT("MM " \o ToJson([l |-> l, id |-> e.id, what |-> "registries", running |-> e.threads_running,
                                        busy |-> e.busy, connections |-> e.connections, caches |-> e.caches])))
    [] OTHER -> TRUE

Next ==
  /\ l <= Len(TraceLog)
  /\ l' = l + 1
  /\ LET e == TraceLog[l] IN
     IF e.ev = "db" THEN db' = e.db
     ELSE db' = db /\ Judge(e)

HW == TLCSet(1, l)
Accepted == TLCGet(1) = Len(TraceLog) + 1
=============================================================================
