INIT Init
NEXT Next
CONSTANTS
  Graph = "diamond"
  KP = {0, 1}
  KC = {0, 1}
  ActSet = "six"
  PerKey = FALSE
  Toggle = FALSE
VIEW View0
INVARIANTS InvRefIntegrity InvKeys
PROPERTIES FailedNoEffect
CHECK_DEADLOCK FALSE
