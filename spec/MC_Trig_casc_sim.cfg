INIT Init
NEXT SimNext
CONSTANTS
  Event = "casc"
  MaxTrig = 3
CONSTRAINT StepBound
ACTION_CONSTRAINT Emit
CHECK_DEADLOCK FALSE
