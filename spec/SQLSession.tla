----------------------------- MODULE SQLSession -----------------------------
(* Sessions and transactions over the tables of SQLTables (C17).

   State (a record `ss`):
     com    the committed SQLTables state [tabs, autoinc, lastid]
     open   session -> BOOLEAN   a transaction is open (explicit, or implicit under autocommit = 0)
     expl   session -> BOOLEAN   the open transaction was started by START TRANSACTION / BEGIN
     ac     session -> BOOLEAN   the autocommit flag
     work   session -> (table -> [rows, uniq, hi])  the session's PRIVATE versions of the tables it
            touched in its open transaction (as memory.Session.tables: adopted lazily, the first time
            the transaction touches the table; published as WHOLE TABLES at commit)

   MySQL rules modelled:
     * autocommit = 1 and no explicit transaction: every statement is a transaction of its own
       (a successful one is committed, a failed one has no effect);
     * START TRANSACTION / BEGIN commit an open transaction, then open an explicit one;
     * COMMIT publishes, ROLLBACK discards exactly the changes since the transaction began; both end
       the explicit transaction (the session is back in its autocommit mode);
     * SET autocommit = 1 while autocommit was 0 commits the open transaction;
     * a DDL statement commits the open transaction first, takes effect immediately, and leaves no
       transaction open (the session is back in its autocommit mode);
     * a session never sees another session's uncommitted version (NoDirtyRead).
   Because commit publishes whole tables, the result of transactions that OVERLAP in time is not the
   result of running them one after another (the later commit wins per table); C17 states serial
   equivalence for non-overlapping transactions only, and so do MC_Txn / Trace_Txn.               *)
EXTENDS SQLTables

EmptyF == <<>>            \* the function with empty domain

TabData(stt, t) == [rows |-> stt.tabs[t].rows, uniq |-> stt.tabs[t].uniq, hi |-> stt.autoinc[t]]

\* the SQLTables state session s sees: its private versions where it has them, else the committed ones
View(ss, s) ==
  [tabs |-> [t \in DOMAIN ss.com.tabs |->
               IF t \in DOMAIN ss.work[s]
               THEN [ss.com.tabs[t] EXCEPT !.rows = ss.work[s][t].rows, !.uniq = ss.work[s][t].uniq]
               ELSE ss.com.tabs[t]],
   autoinc |-> [t \in DOMAIN ss.com.tabs |-> IF t \in DOMAIN ss.work[s] THEN ss.work[s][t].hi ELSE ss.com.autoinc[t]],
   lastid |-> ss.com.lastid]
Visible(ss, s, t) == View(ss, s).tabs[t].rows

\* the transaction of s adopts private versions of the tables in T it does not have yet
Touch(ss, s, T) ==
  [ss EXCEPT !.work[s] = [t \in (DOMAIN ss.work[s]) \cup T |->
                             IF t \in DOMAIN ss.work[s] THEN ss.work[s][t] ELSE TabData(ss.com, t)]]

EndTxn(ss, s) == [ss EXCEPT !.open[s] = FALSE, !.expl[s] = FALSE, !.work[s] = EmptyF]
\* commit: the touched tables are published as whole tables
CommitS(ss, s) == IF ss.open[s] THEN EndTxn([ss EXCEPT !.com = View(ss, s)], s) ELSE [ss EXCEPT !.expl[s] = FALSE]
RollbackS(ss, s) == EndTxn(ss, s)
BeginS(ss, s) == LET c == CommitS(ss, s) IN [c EXCEPT !.open[s] = TRUE, !.expl[s] = TRUE]
SetAcS(ss, s, v) == IF v /\ ~ss.ac[s] THEN [CommitS(ss, s) EXCEPT !.ac[s] = TRUE] ELSE [ss EXCEPT !.ac[s] = v]

\* a DML statement of session s with the outcome o chosen from Outcomes(View(..), stmt, G)
StmtPre(ss, s, stmt) == [Touch(ss, s, {stmt.t}) EXCEPT !.open[s] = TRUE]
StmtS(ss, s, stmt, o) ==
  LET s1 == StmtPre(ss, s, stmt)
      s2 == [s1 EXCEPT !.work[s][stmt.t] = [rows |-> o.rows, uniq |-> o.uniq, hi |-> o.hi]]
  IN IF ss.ac[s] /\ ~ss.expl[s]
     THEN (IF o.reply.kind = "err" THEN RollbackS(s1, s) ELSE CommitS(s2, s))    \* a transaction of its own
     ELSE s2
StmtOutcomes(ss, s, stmt, G) == Outcomes(View(StmtPre(ss, s, stmt), s), stmt, G)

\* DDL: implicit commit, immediate effect, no transaction left open
DdlPre(ss, s) == CommitS(ss, s)
DdlS(ss, s, stmt, o) ==
  LET c == DdlPre(ss, s) IN
  EndTxn([c EXCEPT !.com = Apply(c.com, o)], s)
DdlOutcomes(ss, s, stmt) == Outcomes(DdlPre(ss, s).com, stmt, {})

\* reading inside autocommit = 0 opens a transaction
ReadS(ss, s) == IF ~ss.ac[s] /\ ~ss.open[s] THEN [ss EXCEPT !.open[s] = TRUE] ELSE ss

Init0(st0, Sess) ==
  [com |-> st0, open |-> [s \in Sess |-> FALSE], expl |-> [s \in Sess |-> FALSE], ac |-> [s \in Sess |-> TRUE],
   work |-> [s \in Sess |-> EmptyF]]

\* canonical form of a bag of rows of table T (versions are compared with =)
AllAscT(T) == [j \in DOMAIN T.cols |-> [i |-> j, desc |-> FALSE]]
CanonBag(T, rows) ==
  LET n == [i \in DOMAIN rows |-> NormRowT(T, rows[i])] IN
  SortSeq(n, LAMBDA a, b : RowLt(AllAscT(T), CollsOf(T), a, b))

\* does some OTHER session hold an open transaction?
OthersOpen(ss, s) == \E y \in DOMAIN ss.open : y # s /\ ss.open[y]
=============================================================================
