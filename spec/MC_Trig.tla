------------------------------ MODULE MC_Trig ------------------------------
(* Bounded models of SQLTriggers (C23) over t1, t2, t3 (each c1 INT PRIMARY KEY, c2 INT NULL, c3 INT NULL).

   Event \in {"insert","update","delete"} (ordering model): the trigger set is chosen in the initial state from
     all sequences of 1..MaxTrig single-statement triggers of ONE event on t1 with timing before / after, body
     audit | set NEW.c2 = COALESCE(NEW.c2,0) + 1 (before insert / update) | signal (NEW.c2 = 2, resp. OLD.c1 = 1 for
     delete), each trigger after the first created plain, FOLLOWS or PRECEDES its predecessor
   (so every execution order of up to MaxTrig triggers per (timing, event) occurs), and statements that affect up
   to 2 rows of t1.
   Event = "casc" (cascade model): one trigger on t1 -- every timing x event -- whose BEGIN .. END body holds a DML
     statement on t2 (INSERT / UPDATE / DELETE keyed by the firing row) alone, or with SET @cnt / audit statements
     before and after it in six orders; t2 has a BEFORE trigger (SET NEW.c2 + 1, audit for DELETE) and an AFTER
     audit trigger of the inner statement's event and, optionally (depth 2), an AFTER trigger with the body
     INSERT INTO t3 ..; SET @cnt; t3 has BEFORE INSERT SET NEW.c2 + 1 and AFTER INSERT audit triggers.
   Properties (action properties over the statement just executed):
     OncePerRow       a successful statement adds, for every audit trigger of its table and event, exactly one
                      entry per affected row
     OrderRespected   (ordering model) the trigger ids of the added entries are, row after row, the audit triggers
                      in execution order: BEFORE ones (in ExecOrder), then AFTER ones (in ExecOrder)
     FailedNoEffect   a failed statement leaves every table unchanged and adds no audit entry
     SetStored        (ordering model) after a successful INSERT of one row the stored c2 is the VALUES c2 plus the
                      number of BEFORE INSERT set triggers
     CascadeOnce      (cascade model) the triggers of t2 (and of t3) fire exactly once per row the inner statements
                      write, wherever the DML statement stands in the body: as many AFTER-audit entries of t2 as
                      rows of t2 inserted / changed / removed, the BEFORE assignment stored, @cnt advanced once per
                      execution of every SET @cnt                                                              *)
EXTENDS SQLTriggers, Json, SequencesExt

CONSTANTS Event, MaxTrig

VARIABLES db, cat, act, step
vars == <<db, cat, act, step>>
View0 == <<db, cat>>

WB == 3
TB1 == [cols |-> <<IntCol(TRUE), IntCol(FALSE), IntCol(FALSE)>>, checks |-> <<>>, pk |-> <<1>>, uniq |-> <<>>, rows |-> <<>>]
Tabs == [t1 |-> TB1, t2 |-> TB1, t3 |-> TB1]
oldc(i) == ECol(i, "none")
newc(i) == ECol(WB + i, "none")
Coal0(e) == [k |-> "fn", f |-> "coalesce", a |-> <<e, ELit(I(0))>>]
L0 == ELit(I(0))
BStmt(k, col, e, t, vals, op) == [k |-> k, col |-> col, e |-> e, t |-> t, vals |-> vals, op |-> op]
BAudit == BStmt("audit", 0, L0, "", <<>>, "")
BUvar == BStmt("uvar", 0, L0, "", <<>>, "")
BSet == BStmt("set", 2, EOp2("plus", Coal0(newc(2)), ELit(I(1))), "", <<>>, "")
BSignal(ev) == BStmt("signal", 0, IF ev = "delete" THEN EOp2("eq", oldc(1), ELit(I(1))) ELSE EOp2("eq", newc(2), ELit(I(2))), "", <<>>, "")
RowC(ev, i) == IF ev = "delete" THEN oldc(i) ELSE newc(i)
BDml(kind, ev, t) == IF kind = "ins" THEN BStmt("ins", 0, L0, t, <<RowC(ev, 1), RowC(ev, 2), L0>>, "eq")
                     ELSE BStmt(kind, 0, RowC(ev, 1), t, <<>>, "eq")
MkTrig(i, table, timing, event, body, rel, other) ==
  [name |-> "tr" \o ToString(i), tid |-> i, table |-> table, timing |-> timing, event |-> event, rel |-> rel, other |-> other, body |-> body]

\* ------------------------------------------------------------------ the ordering families
Bodies(timing) == {BAudit, BSignal(Event)} \cup (IF timing = "before" /\ Event # "delete" THEN {BSet} ELSE {})
OTrig(i, timing, b, rel) == MkTrig(i, "t1", timing, Event, <<b>>, IF i = 1 THEN "" ELSE rel, IF i = 1 \/ rel = "" THEN "" ELSE "tr" \o ToString(i - 1))
RECURSIVE Families(_)
Families(n) ==
  IF n = 0 THEN {<<>>}
  ELSE LET prev == Families(n - 1) IN
       prev \cup {Append(p, OTrig(Len(p) + 1, tm, b, rel)) :
                    p \in {q \in prev : Len(q) = n - 1}, tm \in {"before", "after"}, b \in Bodies("before") \cup Bodies("after"), rel \in {"", "follows", "precedes"}}
\* FOLLOWS / PRECEDES must name a trigger of the same timing and event
WellFormed(p) == \A i \in DOMAIN p : /\ p[i].body[1] \in Bodies(p[i].timing)
                                      /\ (p[i].rel # "" => p[i - 1].timing = p[i].timing)
OrderFamily == {p \in Families(MaxTrig) : p # <<>> /\ WellFormed(p)}

\* ------------------------------------------------------------------ the cascade family
EvOf(kind) == CASE kind = "ins" -> "insert" [] kind = "upd" -> "update" [] kind = "del" -> "delete"
CascBodies(d) == {<<d>>, <<d, BUvar>>, <<BUvar, d>>, <<d, BAudit, BUvar>>, <<BAudit, d, BUvar>>, <<BUvar, BAudit, d>>}
Casc(tm, ev, kind, body, deep) ==
  LET cev == EvOf(kind) IN
  << MkTrig(1, "t1", tm, ev, body, "", ""),
     MkTrig(11, "t2", "before", cev, <<IF cev = "delete" THEN BAudit ELSE BSet>>, "", ""),
     MkTrig(12, "t2", "after", cev, <<BAudit>>, "", "") >>
  \o (IF deep THEN << MkTrig(13, "t2", "after", cev, <<BDml("ins", cev, "t3"), BUvar>>, "", ""),
                      MkTrig(14, "t3", "before", "insert", <<BSet>>, "", ""),
                      MkTrig(15, "t3", "after", "insert", <<BAudit>>, "", "") >>
      ELSE <<>>)
\* (MaxTrig < 3: the quick configuration takes AFTER parents without the depth-2 part)
CascFamily == UNION {{Casc(tm, ev, kind, body, deep) : tm \in (IF MaxTrig >= 3 THEN {"before", "after"} ELSE {"after"}),
                                                        body \in CascBodies(BDml(kind, ev, "t2")), deep \in (IF MaxTrig >= 3 THEN BOOLEAN ELSE {FALSE})}
                        : ev \in {"insert", "update", "delete"}, kind \in {"ins", "upd", "del"}}
Family == IF Event = "casc" THEN CascFamily ELSE OrderFamily

\* ------------------------------------------------------------------ statements
KV == IF Event = "casc" THEN {I(0), I(1)} ELSE {I(0), I(1), I(2)}
c1 == ECol(1, "none")
Row(k, v) == <<Cell(ELit(k)), Cell(ELit(v)), Cell(ELit(I(0)))>>
\* (a toggle: every designated row changes, and the column stays in {0,1})
Bump == SetItem(3, EOp2("minus", ELit(I(1)), Coal0(ECol(3, "none"))))
ByKey == <<Ord(1, FALSE)>>
Ins(t) == {SInsert(t, "plain", <<1, 2, 3>>, <<Row(k, v)>>, <<>>) : k \in KV, v \in {NULL, I(0), I(1)}}
          \cup {SInsert(t, "plain", <<1, 2, 3>>, <<Row(k, v), Row(q, u)>>, <<>>) : k \in KV, q \in KV, v \in {I(0), I(1)}, u \in {I(0), I(1)}}
Upd(t) == {SUpdate(t, FALSE, <<Bump>>, w, ByKey, -1) : w \in {ETrue} \cup {EOp2("eq", c1, ELit(k)) : k \in KV}}
          \cup {SUpdate(t, FALSE, <<Bump, SetItem(2, ELit(v))>>, ETrue, ByKey, -1) : v \in {I(0), I(1), I(2)}}
Del(t) == {SDelete(t, w, ByKey, -1) : w \in {ETrue} \cup {EOp2("eq", c1, ELit(k)) : k \in KV}}
Small(t) == {SInsert(t, "plain", <<1, 2, 3>>, <<Row(k, v)>>, <<>>) : k \in KV, v \in {I(0), I(1)}} \cup {SDelete(t, EOp2("eq", c1, ELit(k)), ByKey, -1) : k \in KV}
CascStmts == {SInsert("t1", "plain", <<1, 2, 3>>, <<Row(k, I(0))>>, <<>>) : k \in KV}
             \cup {SInsert("t1", "plain", <<1, 2, 3>>, <<Row(I(0), I(1)), Row(I(1), I(0))>>, <<>>)}
             \cup {SUpdate("t1", FALSE, <<Bump>>, w, ByKey, -1) : w \in {ETrue, EOp2("eq", c1, ELit(I(0)))}}
             \cup {SDelete("t1", w, ByKey, -1) : w \in {ETrue, EOp2("eq", c1, ELit(I(1)))}}
Stmts == CASE Event = "insert" -> Ins("t1") [] Event = "update" -> Upd("t1") [] Event = "delete" -> Del("t1") [] Event = "casc" -> CascStmts
\* the other statements only move the tables
Filler == IF Event = "insert" THEN {} ELSE IF Event = "casc" THEN Small("t2") ELSE Small("t1")

Canon(r) == SortSeq(r, LAMBDA x, y : x[1].v < y[1].v)
Affected(stmt, r) == IF stmt.k = "insert" THEN Len(stmt.rows) ELSE Len(Targets(TB1, r, stmt.where, stmt.order, stmt.limit))

Init ==
  /\ db = [t \in DOMAIN Tabs |-> <<>>]
  /\ cat \in Family
  /\ act = [stmt |-> BaseStmt, kind |-> "", class |-> "", aud |-> <<>>, n |-> 0, cnt |-> 0]
  /\ step = 0

Cx == [tabs |-> Tabs, trigs |-> cat]
Do(stmt) ==
  LET o == TOutcome(Cx, stmt, db, 0) IN
  /\ db' = [t \in DOMAIN Tabs |-> Canon(o.db[t])]
  /\ act' = [stmt |-> stmt, kind |-> o.kind, class |-> o.class, aud |-> o.aud, n |-> Affected(stmt, db[stmt.t]), cnt |-> o.cnt]
  /\ step' = step + 1
  /\ UNCHANGED cat

Next == \E stmt \in Stmts \cup Filler : Do(stmt)
Spec == Init /\ [][Next]_vars
\* (set triggers increment c2, inner updates c3)
Bounded == \A t \in DOMAIN Tabs : \A i \in DOMAIN db[t] : /\ (IsN(db[t][i][2]) \/ db[t][i][2].v <= 3)
                                                          /\ (IsN(db[t][i][3]) \/ db[t][i][3].v <= 2)

\* ------------------------------------------------------------------ properties
TheEvent == IF Event = "casc" THEN cat[1].event ELSE Event
AuditTids(timing) == LET o == ExecOrder(cat, "t1", timing, TheEvent)
                         a == SelectSeq(o, LAMBDA tr : \E j \in DOMAIN tr.body : tr.body[j].k = "audit")
                     IN [i \in DOMAIN a |-> a[i].tid]
PerRow == AuditTids("before") \o AuditTids("after")
Judged == act'.stmt.t = "t1" /\ act'.stmt.k = TheEvent /\ act'.kind = "ok"
Count(tid) == Cardinality({j \in DOMAIN act'.aud : act'.aud[j][1].v = tid})

OncePerRowAct == Judged => \A i \in DOMAIN PerRow : Count(PerRow[i]) = act'.n
OncePerRow == [][OncePerRowAct]_vars
OrderRespectedAct == (Judged /\ Event # "casc") => [j \in DOMAIN act'.aud |-> act'.aud[j][1].v] = Rep(PerRow, act'.n)
OrderRespected == [][OrderRespectedAct]_vars
FailedNoEffectAct == (act'.kind = "err") => (db' = db /\ act'.aud = <<>>)
FailedNoEffect == [][FailedNoEffectAct]_vars
NSets == Len(SelectSeq(ExecOrder(cat, "t1", "before", "insert"), LAMBDA tr : tr.body[1].k = "set"))
SetStoredAct ==
  (Judged /\ Event = "insert" /\ Len(act'.stmt.rows) = 1) =>
     LET k == act'.stmt.rows[1][1].e.v
         v == act'.stmt.rows[1][2].e.v
         stored == CHOOSE r \in Range(db'.t1) : r[1] = k
     IN stored[2] = (IF NSets = 0 THEN v ELSE I((IF IsN(v) THEN 0 ELSE v.v) + NSets))
SetStored == [][SetStoredAct]_vars

\* rows of t that the statement inserted or changed / changed or removed
Added(t) == Cardinality({r \in Range(db'[t]) : r \notin Range(db[t])})
Gone(t) == Cardinality({r \in Range(db[t]) : r \notin Range(db'[t])})
CascadeOnceAct ==
  (Judged /\ Event = "casc") =>
     LET kind == (CHOOSE j \in DOMAIN cat[1].body : cat[1].body[j].k \in {"ins", "upd", "del"})
         dk == cat[1].body[kind].k
         deep == Len(cat) > 3
         w2 == IF dk = "ins" THEN Added("t2") ELSE Gone("t2")       \* rows of t2 the inner statements wrote
         nU == Cardinality({j \in DOMAIN cat[1].body : cat[1].body[j].k = "uvar"})
     IN /\ Count(12) = w2                                            \* t2's AFTER trigger: once per written row
        /\ (dk = "del" => Count(11) = w2)                            \* t2's BEFORE DELETE audit trigger
        /\ (dk = "ins" => \A r \in Range(db'.t2) : r \notin Range(db.t2) => ~IsN(r[2]) /\ r[2].v >= 1)   \* BEFORE SET stored
        /\ (deep => Count(15) = w2 /\ Added("t3") = w2)              \* depth 2
        /\ act'.cnt = act'.n * nU + (IF deep THEN w2 ELSE 0)
CascadeOnce == [][CascadeOnceAct]_vars

\* ------------------------------------------------------------------ binding A
SimNext ==
  \E rv \in {[i \in 1..2 |-> RandomElement(step..(step + 9999))]} :
     LET pool == IF rv[1] % 10 < 7 \/ Filler = {} THEN Stmts ELSE Filler
         ss == SetToSeq(pool)
     IN Do(ss[1 + (rv[2] % Len(ss))])
Emit == PrintT("TR " \o ToJson([step |-> step', trigs |-> cat, stmt |-> act'.stmt, kind |-> act'.kind, class |-> act'.class,
                                 aud |-> act'.aud, cnt |-> act'.cnt, post |-> db']))
StepBound == step < 10
ASSUME PrintT("SC " \o ToJson(Tabs))
=============================================================================
