------------------------------ MODULE MC_Trig ------------------------------
(* Bounded model of SQLTriggers (C23): base table t1(c1 INT PRIMARY KEY, c2 INT NULL, c3 INT NULL) with keys in
   {0,1,2}; the trigger set is chosen in the initial state from the family
     all sequences of 1..MaxTrig triggers of ONE event (constant Event) with timing before / after, body
     audit | set NEW.c2 = COALESCE(NEW.c2,0) + 1 (before insert / update) | signal (NEW.c2 = 2, resp. OLD.c1 = 1
     for delete), each trigger after the first created plain, FOLLOWS or PRECEDES its predecessor
   (so every execution order of up to MaxTrig triggers per (timing, event) occurs), and statements that
   affect up to 2 rows: INSERT of 1 or 2 rows, UPDATE SET c3 = 1 - COALESCE(c3,0) [, c2 = v] of one / all
   rows in key order, DELETE of one / all rows in key order.
   Properties (action properties over the statement just executed):
     OncePerRow       a successful statement adds, for every audit trigger of its event, exactly one
                      entry per affected row
     OrderRespected   the trigger ids of the added entries are, row after row, the audit triggers in
                      execution order: BEFORE ones (in ExecOrder), then AFTER ones (in ExecOrder)
     FailedNoEffect   a failed statement leaves the base table unchanged and adds no audit entry
     SetStored        after a successful INSERT of one row the stored c2 is the VALUES c2 plus the number of
                      BEFORE INSERT set triggers                                                          *)
EXTENDS SQLTriggers, Json, SequencesExt

CONSTANTS Event, MaxTrig

VARIABLES rows, cat, act, step
vars == <<rows, cat, act, step>>
View0 == <<rows, cat>>

WB == 3
TB1 == [cols |-> <<IntCol(TRUE), IntCol(FALSE), IntCol(FALSE)>>, checks |-> <<>>, pk |-> <<1>>, uniq |-> <<>>, rows |-> <<>>]
oldc(i) == ECol(i, "none")
newc(i) == ECol(WB + i, "none")
Coal0(e) == [k |-> "fn", f |-> "coalesce", a |-> <<e, ELit(I(0))>>]
BAudit == [k |-> "audit", col |-> 0, e |-> ELit(I(0))]
BSet == [k |-> "set", col |-> 2, e |-> EOp2("plus", Coal0(newc(2)), ELit(I(1)))]
BSignal == [k |-> "signal", col |-> 0, e |-> IF Event = "delete" THEN EOp2("eq", oldc(1), ELit(I(1))) ELSE EOp2("eq", newc(2), ELit(I(2)))]

Bodies(timing) == {BAudit, BSignal} \cup (IF timing = "before" /\ Event # "delete" THEN {BSet} ELSE {})
Trig(i, timing, body, rel) == [name |-> "tr" \o ToString(i), tid |-> i, timing |-> timing, event |-> Event,
                               rel |-> IF i = 1 THEN "" ELSE rel, other |-> IF i = 1 \/ rel = "" THEN "" ELSE "tr" \o ToString(i - 1), body |-> body]
\* FOLLOWS / PRECEDES must name a trigger of the same timing and event: the predecessor's timing is re-used then
RECURSIVE Families(_)
Families(n) ==
  IF n = 0 THEN {<<>>}
  ELSE LET prev == Families(n - 1) IN
       prev \cup {Append(p, Trig(Len(p) + 1, tm, b, rel)) :
                    p \in {q \in prev : Len(q) = n - 1}, tm \in {"before", "after"}, b \in Bodies("before") \cup Bodies("after"), rel \in {"", "follows", "precedes"}}
WellFormed(p) == \A i \in DOMAIN p : /\ p[i].body \in Bodies(p[i].timing)
                                      /\ (p[i].rel # "" => p[i - 1].timing = p[i].timing)
Family == {p \in Families(MaxTrig) : p # <<>> /\ WellFormed(p)}

KV == {I(0), I(1), I(2)}
c1 == ECol(1, "none")
Row(k, v) == <<Cell(ELit(k)), Cell(ELit(v)), Cell(ELit(I(0)))>>
\* (a toggle: every designated row changes, and the column stays in {0,1})
Bump == SetItem(3, EOp2("minus", ELit(I(1)), Coal0(ECol(3, "none"))))
ByKey == <<Ord(1, FALSE)>>
Stmts ==
  CASE Event = "insert" -> {SInsert("t1", "plain", <<1, 2, 3>>, <<Row(k, v)>>, <<>>) : k \in KV, v \in {NULL, I(0), I(1)}}
                           \cup {SInsert("t1", "plain", <<1, 2, 3>>, <<Row(k, v), Row(q, u)>>, <<>>) : k \in KV, q \in KV, v \in {I(0), I(1)}, u \in {I(0), I(1)}}
    [] Event = "update" -> {SUpdate("t1", FALSE, <<Bump>>, w, ByKey, -1) : w \in {ETrue} \cup {EOp2("eq", c1, ELit(k)) : k \in KV}}
                           \cup {SUpdate("t1", FALSE, <<Bump, SetItem(2, ELit(v))>>, ETrue, ByKey, -1) : v \in {I(0), I(1), I(2)}}
    [] Event = "delete" -> {SDelete("t1", w, ByKey, -1) : w \in {ETrue} \cup {EOp2("eq", c1, ELit(k)) : k \in KV}}
\* the other statement kinds only move the table
Filler == {SInsert("t1", "plain", <<1, 2, 3>>, <<Row(k, v)>>, <<>>) : k \in KV, v \in {I(0), I(1)}} \cup {SDelete("t1", EOp2("eq", c1, ELit(k)), ByKey, -1) : k \in KV}

Canon(r) == SortSeq(r, LAMBDA x, y : x[1].v < y[1].v)
Affected(stmt, r) == IF stmt.k = "insert" THEN Len(stmt.rows) ELSE Len(Targets(TB1, r, stmt.where, stmt.order, stmt.limit))

Init ==
  /\ rows = <<>>
  /\ cat \in Family
  /\ act = [stmt |-> BaseStmt, kind |-> "", class |-> "", aud |-> <<>>, n |-> 0]
  /\ step = 0

Do(stmt) ==
  LET o == TOutcome(TB1, cat, stmt, rows) IN
  /\ rows' = Canon(o.rows)
  /\ act' = [stmt |-> stmt, kind |-> o.kind, class |-> o.class, aud |-> o.aud, n |-> Affected(stmt, rows)]
  /\ step' = step + 1
  /\ UNCHANGED cat

Next == \E stmt \in Stmts \cup (IF Event = "insert" THEN {} ELSE Filler) : Do(stmt)
Spec == Init /\ [][Next]_vars
\* (set triggers increment c2 at every update)
Bounded == \A i \in DOMAIN rows : IsN(rows[i][2]) \/ rows[i][2].v <= 3

AuditTids(timing) == LET o == ExecOrder(cat, timing, Event)
                         a == SelectSeq(o, LAMBDA tr : tr.body.k = "audit")
                     IN [i \in DOMAIN a |-> a[i].tid]
PerRow == AuditTids("before") \o AuditTids("after")
\* (Rep(s, n), the n-fold repetition of a sequence, comes from SQLSem)
Judged == act'.stmt.k = Event /\ act'.kind = "ok"

OncePerRowAct == Judged => \A i \in DOMAIN PerRow : Cardinality({j \in DOMAIN act'.aud : act'.aud[j][1].v = PerRow[i]}) = act'.n
OncePerRow == [][OncePerRowAct]_vars
OrderRespectedAct == Judged => [j \in DOMAIN act'.aud |-> act'.aud[j][1].v] = Rep(PerRow, act'.n)
OrderRespected == [][OrderRespectedAct]_vars
FailedNoEffectAct == (act'.kind = "err") => (rows' = rows /\ act'.aud = <<>>)
FailedNoEffect == [][FailedNoEffectAct]_vars
NSets == Len(SelectSeq(ExecOrder(cat, "before", "insert"), LAMBDA tr : tr.body.k = "set"))
SetStoredAct ==
  (Judged /\ Event = "insert" /\ Len(act'.stmt.rows) = 1) =>
     LET k == act'.stmt.rows[1][1].e.v
         v == act'.stmt.rows[1][2].e.v
         stored == CHOOSE r \in Range(rows') : r[1] = k
     IN stored[2] = (IF NSets = 0 THEN v ELSE I((IF IsN(v) THEN 0 ELSE v.v) + NSets))
SetStored == [][SetStoredAct]_vars

\* ------------------------------------------------------------------ binding A
SimNext ==
  \E rv \in {[i \in 1..2 |-> RandomElement(step..(step + 9999))]} :
     LET pool == IF rv[1] % 10 < 7 \/ Event = "insert" THEN Stmts ELSE Filler
         ss == SetToSeq(pool)
     IN Do(ss[1 + (rv[2] % Len(ss))])
Emit == PrintT("TR " \o ToJson([step |-> step', trigs |-> cat, stmt |-> act'.stmt, kind |-> act'.kind, class |-> act'.class,
                                 aud |-> act'.aud, post |-> rows']))
StepBound == step < 10
ASSUME PrintT("SC " \o ToJson([t1 |-> TB1]))
=============================================================================
