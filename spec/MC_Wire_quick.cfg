CONSTANTS
  Big = FALSE
INIT Init
NEXT Next
INVARIANT ModelOK
CHECK_DEADLOCK FALSE
