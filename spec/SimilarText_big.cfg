CONSTANTS
  Alphabet = {"a", "b", "c"}
  MaxName = 4
  MaxCand = 3
  MaxCands = 2
INIT Init
NEXT Next
INVARIANTS TypeOK DistsOK LemmaTab MetricSane PropertySane
CONSTRAINT Emit
CHECK_DEADLOCK FALSE
