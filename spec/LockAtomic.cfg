CONSTANTS
  Sess = {1, 2, 3}
  Names = {"a", "b"}
INIT Init
NEXT NextSplit
CONSTRAINT CntBound
INVARIANTS TypeOK CountPositiveWhenOwned
PROPERTIES OnlyHolderReleases
CHECK_DEADLOCK FALSE
