-------------------------- MODULE Trace_ErrGuard --------------------------
(* C48, binding B.  Every line of the log is one task-tree configuration that was run on the real
   errguard.Go / errguard.RecoverAndLog in a child process:
       [key, tasks, out, logged, badlogs]
   tasks  the configuration exactly as ErrGuard.tla printed it,
   out    what the root errgroup Wait returned:
            [k |-> "nil"]                       nil
            [k |-> "err", t |-> i]              the very error value task i returned (identity)
            [k |-> "other", mentions, is]       another error; mentions = panicking tasks whose panic
                                                value's text occurs in its message, is = tasks whose
                                                error value it wraps
            [k |-> "crash"] / [k |-> "hang"]    the child process died / stalled in this case
   logged the "log" tasks whose panic RecoverAndLog logged; badlogs = other log entries.
   Step l loads line l's configuration into ErrGuard's cfg; the state constraint Judge decides
   whether the recorded outcome is in ErrGuard!Allowed.  Disagreements are printed as  MM <json>
   and validation continues; acceptance is the high-water mark of l.  *)
EXTENDS ErrGuard

TraceLog == ndJsonDeserialize("c48_trace.ndjson")

VARIABLE l
tvars == <<cfg, phase, done, gerr, ret, logged, l>>

OutOK(o) ==
    CASE o.k = "nil" -> Nil \in Allowed
      [] o.k = "err" -> Res("err", o.t) \in Allowed
      [] o.k = "other" -> /\ o.is = <<>>                      \* a task's error may not come back wrapped
                          /\ \E j \in Range(o.mentions) : Res("panic", j) \in Allowed
      [] OTHER -> FALSE                                        \* crash, hang: no such action exists

Kind(o) == IF o.k \in {"crash", "hang"} THEN o.k
           ELSE IF o.k = "nil" THEN "nil-but-a-task-failed"
           ELSE IF o.k = "err" THEN "error-of-an-unexpected-task"
           ELSE IF o.is # <<>> THEN "error-not-unchanged"
           ELSE "not-a-converted-panic"

CheckLine(i, e) ==
    LET okOut == OutOK(e.out)
        okLog == e.out.k \in {"crash", "hang"} \/ (Range(e.logged) = ExpectedLogs /\ e.badlogs = 0)
    IN /\ (IF ValidCfg(cfg) /\ Len(cfg) <= MaxTasks THEN TRUE
           ELSE PrintT("BADCFG " \o ToJson([l |-> i, key |-> e.key])))
       /\ (IF okOut THEN TRUE
           ELSE PrintT("MM " \o ToJson([l |-> i, what |-> "wait", kind |-> Kind(e.out), key |-> e.key,
                                        got |-> e.out, allowed |-> Allowed])))
       /\ (IF okLog THEN TRUE
           ELSE PrintT("MM " \o ToJson([l |-> i, what |-> "log", kind |-> "panic-not-logged", key |-> e.key,
                                        got |-> e.logged, allowed |-> ExpectedLogs])))
       /\ PrintT("ST " \o ToJson([l |-> i, n |-> Len(cfg), choices |-> Cardinality(Allowed),
                                   panics |-> Cardinality({j \in T : cfg[j].e.k = "panic"})]))

TInit == /\ l = 1 /\ cfg = <<>> /\ phase = "trace" /\ done = {} /\ gerr = NoErr /\ ret = Nil /\ logged = {}
TNext ==
    /\ l <= Len(TraceLog)
    /\ cfg' = TraceLog[l].tasks
    /\ l' = l + 1
    /\ UNCHANGED <<phase, done, gerr, ret, logged>>

\* CONSTRAINTs (state-level evaluation).  The state reached by step l - 1 carries that line's input.
Judge == l > 1 => CheckLine(l - 1, TraceLog[l - 1])
HW == TLCSet(1, l)                          \* high-water mark of the validated prefix
Accepted == TLCGet(1) = Len(TraceLog) + 1   \* POSTCONDITION
=============================================================================
