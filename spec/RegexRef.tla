------------------------------ MODULE RegexRef ------------------------------
(* C33.  A reference regular-expression matcher with LEFTMOST-FIRST (ordered choice / backtracking)
   semantics for the subset that RE2, ICU and PCRE agree on:
       literal, `.`, character class [ab] / [^a], greedy `*` `+` `?`, `|`, grouping ( ), anchors ^ $.
   Patterns are ASTs (records, field k = node kind); the driver renders them to text:
       [k |-> "lit", c |-> cp]   [k |-> "dot"]   [k |-> "cls", neg |-> BOOLEAN, set |-> {cp..}]
       [k |-> "bol"]  [k |-> "eol"]  [k |-> "star"|"plus"|"opt", r |-> re]
       [k |-> "alt", l |-> re, r |-> re]   [k |-> "cat", l |-> re, r |-> re]   [k |-> "grp", r |-> re]
   Subjects are sequences of code points without line terminators; positions are 1-based.

   Ends(re, s, i) is the sequence of positions at which a match of re starting at i can end, in the
   ORDER in which a backtracking matcher tries them (first = preferred), without repetitions.  The
   preferred match of the whole pattern at start i is therefore Ends(re, s, i)[1].  A quantifier body
   that consumed nothing ends the loop (every engine of the family does that); the generators only
   quantify bodies that cannot match the empty string, where the engines' treatment differs.

   Search (uregex_find / findNext, the behaviour REGEXP_INSTR / SUBSTR / REPLACE expose through
   `pos` and `occurrence`): the first match from `from` is the preferred match at the smallest start
   >= from that has one; the next search starts at the end of the previous match, one position
   further if that match was empty.  ^ matches only at position 1 of the SUBJECT (not at `from`). *)
EXTENDS Integers, Sequences, FiniteSets, TLC

Lit(c) == [k |-> "lit", c |-> c]
Dot == [k |-> "dot"]
Cls(neg, set) == [k |-> "cls", neg |-> neg, set |-> set]
Bol == [k |-> "bol"]
Eol == [k |-> "eol"]
Qn(kind, r) == [k |-> kind, r |-> r]
Alt(l, r) == [k |-> "alt", l |-> l, r |-> r]
Cat(l, r) == [k |-> "cat", l |-> l, r |-> r]
Grp(r) == [k |-> "grp", r |-> r]

\* ---- ordered sequences of positions
RECURSIVE UniqFrom(_, _)
UniqFrom(q, seen) == IF q = <<>> THEN <<>>
                     ELSE IF Head(q) \in seen THEN UniqFrom(Tail(q), seen)
                     ELSE <<Head(q)>> \o UniqFrom(Tail(q), seen \cup {Head(q)})
Uniq(q) == UniqFrom(q, {})
RECURSIVE Flat(_)
Flat(qq) == IF qq = <<>> THEN <<>> ELSE Head(qq) \o Flat(Tail(qq))

RECURSIVE Ends(_, _, _), StarEnds(_, _, _), Nullable(_)
\* can re match the empty string (anchors count: they consume nothing)
Nullable(re) ==
  CASE re.k \in {"lit", "dot", "cls"} -> FALSE
    [] re.k \in {"bol", "eol", "star", "opt"} -> TRUE
    [] re.k = "plus" -> Nullable(re.r)
    [] re.k = "grp" -> Nullable(re.r)
    [] re.k = "alt" -> Nullable(re.l) \/ Nullable(re.r)
    [] re.k = "cat" -> Nullable(re.l) /\ Nullable(re.r)

\* greedy star of r from i: iterate (only iterations that consume) before stopping
StarEnds(r, s, i) ==
  LET body == SelectSeq(Ends(r, s, i), LAMBDA e : e > i) IN
  Uniq(Flat([j \in DOMAIN body |-> StarEnds(r, s, body[j])]) \o <<i>>)

Ends(re, s, i) ==
  CASE re.k = "lit" -> (IF i <= Len(s) /\ s[i] = re.c THEN <<i + 1>> ELSE <<>>)
    [] re.k = "dot" -> (IF i <= Len(s) THEN <<i + 1>> ELSE <<>>)
    [] re.k = "cls" -> (IF i <= Len(s) /\ ((s[i] \in re.set) # re.neg) THEN <<i + 1>> ELSE <<>>)
    [] re.k = "bol" -> (IF i = 1 THEN <<i>> ELSE <<>>)
    [] re.k = "eol" -> (IF i = Len(s) + 1 THEN <<i>> ELSE <<>>)
    [] re.k = "grp" -> Ends(re.r, s, i)
    [] re.k = "alt" -> Uniq(Ends(re.l, s, i) \o Ends(re.r, s, i))
    [] re.k = "cat" -> (LET a == Ends(re.l, s, i) IN Uniq(Flat([j \in DOMAIN a |-> Ends(re.r, s, a[j])])))
    [] re.k = "opt" -> Uniq(Ends(re.r, s, i) \o <<i>>)
    [] re.k = "star" -> StarEnds(re.r, s, i)
    [] re.k = "plus" -> (LET a == Ends(re.r, s, i) IN
                         Uniq(Flat([j \in DOMAIN a |-> IF a[j] > i THEN StarEnds(re.r, s, a[j]) ELSE <<a[j]>>])))

\* ---- declarative cross-check: the SET of ends by language membership, no order, no loop rule
RECURSIVE EndSet(_, _, _), Closure(_, _, _)
Closure(r, s, S) == LET nxt == S \cup UNION {EndSet(r, s, e) : e \in S} IN IF nxt = S THEN S ELSE Closure(r, s, nxt)
EndSet(re, s, i) ==
  CASE re.k \in {"lit", "dot", "cls", "bol", "eol"} -> {Ends(re, s, i)[j] : j \in DOMAIN Ends(re, s, i)}
    [] re.k = "grp" -> EndSet(re.r, s, i)
    [] re.k = "alt" -> EndSet(re.l, s, i) \cup EndSet(re.r, s, i)
    [] re.k = "cat" -> UNION {EndSet(re.r, s, e) : e \in EndSet(re.l, s, i)}
    [] re.k = "opt" -> EndSet(re.r, s, i) \cup {i}
    [] re.k = "star" -> Closure(re.r, s, {i})
    [] re.k = "plus" -> Closure(re.r, s, EndSet(re.r, s, i))
SeqSet(q) == {q[j] : j \in DOMAIN q}

\* ---- search
None == <<0, 0>>                       \* no match; a match is <<start position, length>>
RECURSIVE FirstMatch(_, _, _)
FirstMatch(re, s, from) ==
  IF from > Len(s) + 1 THEN None
  ELSE LET e == Ends(re, s, from) IN
       IF e # <<>> THEN <<from, e[1] - from>> ELSE FirstMatch(re, s, from + 1)
\* all matches left to right from `from` (non-overlapping; an empty match advances the search by one)
RECURSIVE AllMatches(_, _, _)
AllMatches(re, s, from) ==
  LET m == FirstMatch(re, s, from) IN
  IF m = None THEN <<>>
  ELSE <<m>> \o AllMatches(re, s, IF m[2] = 0 THEN m[1] + 1 ELSE m[1] + m[2])
Nth(ms, n) == IF n >= 1 /\ n <= Len(ms) THEN ms[n] ELSE None
NthMatch(re, s, from, n) == Nth(AllMatches(re, s, from), n)

Take(s, n) == SubSeq(s, 1, n)
Drop(s, n) == SubSeq(s, n + 1, Len(s))
\* s with the listed matches (ordered, non-overlapping) replaced by repl; `at` = first position of s not yet copied
RECURSIVE Rebuild(_, _, _, _)
Rebuild(s, ms, repl, at) ==
  IF ms = <<>> THEN SubSeq(s, at, Len(s))
  ELSE SubSeq(s, at, ms[1][1] - 1) \o repl \o Rebuild(s, Tail(ms), repl, ms[1][1] + ms[1][2])

\* ---- the four SQL functions (non-NULL arguments, 1 <= pos <= Len(s) + 1, occurrence >= 1 / >= 0 for REPLACE),
\* first in terms of ms = AllMatches(re, s, pos), then directly
InstrM(ms, occ, ro) == LET m == Nth(ms, occ) IN IF m = None THEN 0 ELSE IF ro = 0 THEN m[1] ELSE m[1] + m[2]
FoundM(ms, occ) == Nth(ms, occ) # None
SubstrM(s, ms, occ) == LET m == Nth(ms, occ) IN SubSeq(s, m[1], m[1] + m[2] - 1)
ReplaceM(s, ms, repl, occ) ==
  IF occ = 0 THEN Rebuild(s, ms, repl, 1)
  ELSE LET m == Nth(ms, occ) IN IF m = None THEN s ELSE Rebuild(s, <<m>>, repl, 1)

Like(re, s) == FirstMatch(re, s, 1) # None
Instr(re, s, pos, occ, ro) == InstrM(AllMatches(re, s, pos), occ, ro)
SubstrFound(re, s, pos, occ) == FoundM(AllMatches(re, s, pos), occ)
Substr(re, s, pos, occ) == SubstrM(s, AllMatches(re, s, pos), occ)
Replace(re, s, repl, pos, occ) == ReplaceM(s, AllMatches(re, s, pos), repl, occ)
ReplaceAll(re, s, from, repl) == Replace(re, s, repl, from, 0)

\* ---- laws of the definitions (checked by TLC on every enumerated case)
MatchesWellFormed(re, s, from) ==
  LET ms == AllMatches(re, s, from) IN
  /\ \A j \in DOMAIN ms : ms[j][1] >= from /\ ms[j][2] >= 0 /\ ms[j][1] + ms[j][2] <= Len(s) + 1
                          /\ (ms[j][1] + ms[j][2]) \in EndSet(re, s, ms[j][1])
  /\ \A j \in 1..(Len(ms) - 1) : ms[j + 1][1] > ms[j][1] /\ ms[j + 1][1] >= ms[j][1] + ms[j][2]
  /\ (ms = <<>> <=> \A p \in from..(Len(s) + 1) : EndSet(re, s, p) = {})
  /\ (ms # <<>> => \A p \in from..(ms[1][1] - 1) : EndSet(re, s, p) = {})
OrderedEndsComplete(re, s) == \A i \in 1..(Len(s) + 1) : SeqSet(Ends(re, s, i)) = EndSet(re, s, i)
=============================================================================
