------------------------------- MODULE MC_Eq -------------------------------
(* Binding A of property C07 and the design-level laws behind it.

   Enumerates every value multiset of <= MaxN values over a small alphabet of one comparison family
   x collation:  strings {NULL,'a','A','b','a '} under "bin" and "ci" (utf8mb4_0900_bin / _ai_ci),
   integers {NULL,0,1}, decimals {NULL,0,1,1.5 (as 150/100)}.  For each multiset v and its shifted copy
   w (every value replaced by the next one of the alphabet) TLC
     - checks that the specification's equality (SQLSem!CmpNN = 0) is an equivalence relation, that
       "ci" only merges classes of "bin", and that the de-duplicating operators of the query
       specification (SELECT DISTINCT, GROUP BY, COUNT(DISTINCT), UNION, INTERSECT, EXCEPT of
       SQLSem!Rows) produce exactly one row per class (+ one for NULL): the law C07 states, on the
       specification itself;
     - emits the case (tables v and w, the expected partition of the rows 1..|v|+|w| into '='-classes)
       for execution on the engine by harness/cmd/c07 -mode exec; spec/Trace_Eq.tla then checks the
       engine's matrix against the expected partition and every hashing operator against the matrix.

   The family is chosen in Init and the multiset in Next (TLC computes initial states on one thread). *)
EXTENDS SQLSem, Json

CONSTANT MaxN

StrAlpha == << NULL, S(<<97>>), S(<<65>>), S(<<98>>), S(<<97, 32>>) >>
IntAlpha == << NULL, I(0), I(1) >>
DecAlpha == << NULL, Q(0, 100), Q(100, 100), Q(150, 100) >>
Fams == { [fam |-> "str", coll |-> "bin"], [fam |-> "str", coll |-> "ci"],
          [fam |-> "int", coll |-> "none"], [fam |-> "dec", coll |-> "none"] }
Alpha(f) == IF f.fam = "str" THEN StrAlpha ELSE IF f.fam = "int" THEN IntAlpha ELSE DecAlpha

\* multisets as non-decreasing index sequences
Multi(k) == UNION {{s \in [1..n -> 1..k] : \A i \in 1..(n - 1) : s[i] <= s[i + 1]} : n \in 0..MaxN}

VARIABLES f, ix, phase
vars == <<f, ix, phase>>

Init == f \in Fams /\ ix = <<>> /\ phase = 0
Next == phase = 0 /\ phase' = 1 /\ ix' \in Multi(Len(Alpha(f))) /\ UNCHANGED f
\* sampling variant for -simulate
\* (TLC evaluates the initial predicate once per run, so the family is drawn in the step as well)
SInit == f = [fam |-> "int", coll |-> "none"] /\ ix = <<>> /\ phase = 0
SNext == phase = 0 /\ phase' = 1 /\ f' = RandomElement(Fams) /\ ix' = RandomElement(Multi(Len(Alpha(f'))))

VF(F, s) == [i \in DOMAIN s |-> Alpha(F)[s[i]]]
WF(F, s) == [i \in DOMAIN s |-> Alpha(F)[(s[i] % Len(Alpha(F))) + 1]]      \* the shifted copy
V(s) == VF(f, s)
W(s) == WF(f, s)
All(s) == V(s) \o W(s)

Eq(a, b) == ~IsN(a) /\ ~IsN(b) /\ CmpNN(a, b, f.coll) = 0
EqBin(a, b) == ~IsN(a) /\ ~IsN(b) /\ CmpNN(a, b, "bin") = 0
ClassesF(F, vals) == LET nn == {i \in DOMAIN vals : ~IsN(vals[i])} IN {{j \in nn : CmpNN(vals[i], vals[j], F.coll) = 0} : i \in nn}
ClassesOf(vals) == ClassesF(f, vals)
HasNull(vals) == \E i \in DOMAIN vals : IsN(vals[i])
NRows(vals) == Cardinality(ClassesOf(vals)) + (IF HasNull(vals) THEN 1 ELSE 0)

\* ---- the laws, on the specification itself
Col1 == [k |-> "col", d |-> 0, i |-> 1, c |-> f.coll]
Tb(name) == [k |-> "table", name |-> name]
DB(s) == [v |-> [w |-> 1, rows |-> [i \in DOMAIN s |-> <<V(s)[i]>>]], w |-> [w |-> 1, rows |-> [i \in DOMAIN s |-> <<W(s)[i]>>]]]
SelX(t) == Sel(Tb(t), TT, <<Col1>>)
SetOp(op, l, r) == [k |-> "setop", op |-> op, all |-> FALSE, l |-> l, r |-> r, colls |-> <<f.coll>>, order |-> <<>>, limit |-> -1, offset |-> 0]
NR(q, s) == Len(Rows(q, <<>>, DB(s)))
Agg(fn, dist) == [k |-> "agg", f |-> fn, arg |-> Col1, dist |-> dist]

EquivalenceLaw(s) ==
  LET a == All(s) nn == {i \in DOMAIN a : ~IsN(a[i])} IN
  /\ \A i \in nn : Eq(a[i], a[i])
  /\ \A i \in nn : \A j \in nn : Eq(a[i], a[j]) = Eq(a[j], a[i])
  /\ \A i \in nn : \A j \in nn : \A k \in nn : Eq(a[i], a[j]) /\ Eq(a[j], a[k]) => Eq(a[i], a[k])
  /\ f.fam = "str" => \A i \in nn : \A j \in nn : EqBin(a[i], a[j]) => Eq(a[i], a[j])     \* ci only merges

OperatorLaw(s) ==
  LET inL(c) == \E i \in c : i <= Len(s)
      inR(c) == \E i \in c : i > Len(s)
      cls == ClassesOf(All(s))
      nullL == HasNull(V(s))
      nullR == HasNull(W(s))
      b2n(b) == IF b THEN 1 ELSE 0
  IN /\ NR([SelX("v") EXCEPT !.distinct = TRUE], s) = NRows(V(s))
     /\ NR([SelX("v") EXCEPT !.grouped = TRUE, !.group = <<Col1>>, !.proj = <<Agg("countstar", FALSE)>>], s) = NRows(V(s))
     /\ Rows([Sel(Tb("v"), TT, <<Agg("count", TRUE)>>) EXCEPT !.grouped = TRUE], <<>>, DB(s)) = << <<I(Cardinality(ClassesOf(V(s))))>> >>
     /\ NR(SetOp("union", SelX("v"), SelX("w")), s) = NRows(All(s))
     /\ NR(SetOp("intersect", SelX("v"), SelX("w")), s) = Cardinality({c \in cls : inL(c) /\ inR(c)}) + b2n(nullL /\ nullR)
     /\ NR(SetOp("except", SelX("v"), SelX("w")), s) = Cardinality({c \in cls : inL(c) /\ ~inR(c)}) + b2n(nullL /\ ~nullR)

Laws == phase = 1 => EquivalenceLaw(ix) /\ OperatorLaw(ix)

\* ---- the case for the engine
Emit == LET F == f' IN
        PrintT("CASE " \o ToJson([fam |-> F.fam, coll |-> F.coll, v |-> VF(F, ix'), w |-> WF(F, ix'),
                                   expcls |-> ClassesF(F, VF(F, ix') \o WF(F, ix'))]))
=============================================================================
