---------------------------- MODULE MC_CharsetLaws ----------------------------
(* C30, design half, the laws themselves.  Over EVERY table T from a subset of the code points
   {62, 63, 64} to the non-empty byte strings of length <= 2 over {0, 1} (343 tables) TLC checks:

   * for an injective T with non-empty code words:  T is prefix-free  <=>  the on-the-fly decoder
     returns s for the encoding of every string s (length <= 3) over T's code points.  So prefix
     freeness is exactly what unambiguous decoding of strings needs, and it is sufficient;
   * with the laws and '?' in the table: the lenient encoding of ANY string over {62, 63, 64} decodes
     to the string with '?' substituted for the characters outside the table; the strict encoding
     fails exactly when such a character occurs;
   * string encoding is concatenation: TEncStr(T, s \o t) = TEncStr(T, s) \o TEncStr(T, t). *)
EXTENDS Charset

Universe == {62, 63, 64}
Words == {<<a>> : a \in {0, 1}} \cup {<<a, b>> : a \in {0, 1}, b \in {0, 1}}
Tables == UNION {[D -> Words] : D \in SUBSET Universe}
StrsOver(A, n) == UNION {[1..k -> A] : k \in 0..n}

VARIABLES T
Init == T \in Tables
Next == UNCHANGED T

RoundTrips(t) == \A s \in StrsOver(DOMAIN t, 3) : TDec(t, TEncStr(t, s)) = s

PrefixFreeIsTheCondition ==
    (Injective(T) /\ NonEmptyWords(T)) => (PrefixFree(T) <=> RoundTrips(T))

ReplacementLaw ==
    (Laws(T) /\ QMark \in DOMAIN T) =>
        \A s \in StrsOver(Universe, 3) :
            /\ TDec(T, TEncStrReplace(T, s)) = TReplaced(T, s)
            /\ (TEncStr(T, s) = None <=> \E i \in DOMAIN s : s[i] \notin DOMAIN T)
            /\ (TEncStr(T, s) # None => TEncStr(T, s) = TEncStrReplace(T, s))

Concatenation ==
    \A s \in StrsOver(DOMAIN T, 2) : \A t \in StrsOver(DOMAIN T, 1) :
        TEncStr(T, s \o t) = TEncStr(T, s) \o TEncStr(T, t)

\* the laws are not vacuous: some tables satisfy them, some injective ones do not
Witnesses == /\ \E t \in Tables : Laws(t) /\ DOMAIN t = Universe
             /\ \E t \in Tables : Injective(t) /\ ~PrefixFree(t)
ASSUME Witnesses

LawsOK == PrefixFreeIsTheCondition /\ ReplacementLaw /\ Concatenation
=============================================================================
