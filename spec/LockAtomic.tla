----------------------------- MODULE LockAtomic -----------------------------
(* C38.  The sequential meaning of the named-lock operations: every operation is ONE atomic step
   on  own[n] (holder of lock n, 0 = nobody)  and  cnt[n] (re-entrancy count).

     try(n)     TryLock / GET_LOCK(n, 0):  nobody or the caller holds n -> caller holds it,
                count + 1, "true";  somebody else -> "false", no effect.
     lock(n,t)  Lock / GET_LOCK(n, t):  like try when it can acquire ("ok"); otherwise it waits:
                t = "inf" (timeout < 0) is simply not enabled while somebody else holds n,
                a finite timeout ("zero": exactly one attempt, "fin": any number of attempts) may
                give up with "timeout" and no effect.
     unlock(n)  RELEASE_LOCK: by the holder: count - 1, freed at 0, "ok"; by anybody else
                "fail" without effect (the code distinguishes "lock never created" from "not the
                owner"; the property does not, see LockSubsystem!ProjRet).
     state(n)   IS_FREE_LOCK / IS_USED_LOCK: "free" or "used" + the holder.
     relall     RELEASE_ALL_LOCKS / disconnect: every lock of the caller freed whatever its
                count; returns the number of locks freed.

   The same operators (Apply, Enabled) are used by LockSubsystem.tla (ghost state updated at the
   linearisation points) and by Trace_Locks.tla (linearisation search over recorded histories). *)
EXTENDS Integers, FiniteSets

CONSTANTS Sess,     \* session ids: positive integers
          Names     \* lock names: strings

VARIABLE ast        \* [own : [Names -> Sess \cup {0}], cnt : [Names -> Nat]]

NoName == "-"
R(x, i) == [s |-> x, i |-> i]          \* a return value: a word and a number

AInit == [own |-> [n \in Names |-> 0], cnt |-> [n \in Names |-> 0]]

Owned(st, s) == {n \in Names : st.own[n] = s}
Acquire(st, s, n) == [own |-> [st.own EXCEPT ![n] = s], cnt |-> [st.cnt EXCEPT ![n] = @ + 1]]
FreeAll(st, ns) == [own |-> [n \in Names |-> IF n \in ns THEN 0 ELSE st.own[n]],
                    cnt |-> [n \in Names |-> IF n \in ns THEN 0 ELSE st.cnt[n]]]

TimeoutClasses == {"inf", "zero", "fin"}
AllOps == [k : {"try", "unlock", "state"}, n : Names, t : {"na"}]
          \cup [k : {"lock"}, n : Names, t : TimeoutClasses]
          \cup {[k |-> "relall", n |-> NoName, t |-> "na"]}

\* an untimed Lock is blocked (not enabled) while somebody else holds the lock
Enabled(st, s, o) == ~(o.k = "lock" /\ o.t = "inf" /\ st.own[o.n] \notin {0, s})

\* the atomic effect and reply of operation o by session s in state st
Apply(st, s, o) ==
    CASE o.k = "try" ->
            (IF st.own[o.n] \in {0, s} THEN [st |-> Acquire(st, s, o.n), ret |-> R("true", 0)]
             ELSE [st |-> st, ret |-> R("false", 0)])
      [] o.k = "lock" ->
            (IF st.own[o.n] \in {0, s} THEN [st |-> Acquire(st, s, o.n), ret |-> R("ok", 0)]
             ELSE [st |-> st, ret |-> R("timeout", 0)])
      [] o.k = "unlock" ->
            (IF st.own[o.n] = s
             THEN [st |-> IF st.cnt[o.n] > 1 THEN [st EXCEPT !.cnt[o.n] = @ - 1] ELSE FreeAll(st, {o.n}),
                   ret |-> R("ok", 0)]
             ELSE [st |-> st, ret |-> R("fail", 0)])
      [] o.k = "state" ->
            [st |-> st, ret |-> IF st.own[o.n] = 0 THEN R("free", 0) ELSE R("used", st.own[o.n])]
      [] o.k = "relall" ->
            [st |-> FreeAll(st, Owned(st, s)), ret |-> R("count", Cardinality(Owned(st, s)))]

Init == ast = AInit
Op(s, o) == Enabled(ast, s, o) /\ ast' = Apply(ast, s, o).st
Next == \E s \in Sess, o \in AllOps : Op(s, o)
Spec == Init /\ [][Next]_ast

\* The weaker reading of RELEASE_ALL_LOCKS used to keep checking everything else while the strict
\* one is a known finding: the locks of the caller are freed one after the other, each atomically.
RelOne(s, n) == ast.own[n] = s /\ ast' = FreeAll(ast, {n})
NextSplit == Next \/ \E s \in Sess, n \in Names : RelOne(s, n)
SpecSplit == Init /\ [][NextSplit]_ast

\* ---- what the sequential meaning guarantees by itself -------------------------------------
TypeOK == /\ ast.own \in [Names -> Sess \cup {0}]
          /\ \A n \in Names : ast.cnt[n] \in Nat
CountPositiveWhenOwned == \A n \in Names : (ast.own[n] = 0) <=> (ast.cnt[n] = 0)
\* a failing unlock / try and every state query leave the state alone; only the holder's own
\* operations take a lock away from its holder
OnlyHolderReleases ==
    [][\A n \in Names : (ast.own[n] # 0 /\ ast'.own[n] # ast.own[n]) =>
            (ast'.own[n] = 0 /\ \E o \in AllOps : o.k \in {"unlock", "relall"} /\ Op(ast.own[n], o))
            \/ RelOne(ast.own[n], n)]_ast
CntBound == \A n \in Names : ast.cnt[n] <= 3
=============================================================================
