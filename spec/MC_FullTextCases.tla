--------------------------- MODULE MC_FullTextCases ---------------------------
(* C51, binding A.  Sampling (`-simulate`): small tables of documents built from a vocabulary of 4
   words (+ one too-short word) and a set of separators, or raw strings over the alphabet of
   MC_FullText, with queries and the row ids TLC expects (MatchIds).  Emit prints them as cases for the
   real engine.  All random choices are drawn in the step. *)
EXTENDS FullText, Json

Alpha == {97, 98, 39, 32, 95, 49, 65}           \* a b ' space _ 1 A
MaxLen == 6

\* ---- sampling (binding A) -------------------------------------------------------------------------
Vocab == << <<97, 98, 99>>, <<65, 98, 99>>, <<98, 39, 97, 49>>, <<97, 95, 49>>, <<97, 98>> >>   \* abc Abc b'a1 a_1 ab(short)
Seps == << <<32>>, <<44>>, <<39, 39>>, <<39>>, <<45>>, <<46, 32>>, <<32, 39>>, <<10>> >>
\* words at the upper length boundary of the index: 83, 84 (two of them), 85 characters, and one in capitals
LongVocab == << Rep(83, 113), Rep(84, 113), <<90>> \o Rep(83, 107), Rep(85, 113), Rep(84, 81) >>
RandWord(x) == IF RandomElement(1..5) = 1 THEN LongVocab[RandomElement(1..Len(LongVocab))]
               ELSE Vocab[RandomElement(1..Len(Vocab))]
RandSep(x) == Seps[RandomElement(1..Len(Seps))]
RECURSIVE RandToks(_)
RandToks(n) == IF n = 0 THEN <<>> ELSE RandWord(n) \o (IF n > 1 THEN RandSep(n) ELSE <<>>) \o RandToks(n - 1)
RandRaw(x) == LET n == RandomElement(0..MaxLen) IN [j \in 1..n |-> RandomElement(Alpha)]
RandText(x) ==
    LET k == RandomElement(1..10) IN
    IF k <= 2 THEN RandRaw(x)
    ELSE (IF RandomElement(1..4) = 1 THEN RandSep(x) ELSE <<>>) \o RandToks(RandomElement(1..3))
         \o (IF RandomElement(1..4) = 1 THEN RandSep(x) ELSE <<>>)
RandCol(x) == IF RandomElement(1..8) = 1 THEN [n |-> TRUE, v |-> <<>>] ELSE [n |-> FALSE, v |-> RandText(x)]
RandQuery(x) ==
    LET k == RandomElement(1..10) IN
    IF k <= 2 THEN RandRaw(x) ELSE RandToks(RandomElement(1..2))

VARIABLES d, phase, tb, coll, multi, qs
svars == <<d, phase, tb, coll, multi, qs>>

SInit == d = <<>> /\ phase = 0 /\ tb = <<>> /\ coll = "ci" /\ multi = FALSE /\ qs = <<>>
SNext == /\ phase = 0
         /\ phase' = 1
         /\ d' = RandRaw(0)
         /\ coll' = RandomElement({"ci", "bin"})
         /\ multi' = RandomElement({TRUE, FALSE})
         /\ LET n == RandomElement(2..5) IN
            tb' = [i \in 1..n |-> [id |-> i, cols |-> IF multi' THEN <<RandCol(i), RandCol(i + 10)>> ELSE <<RandCol(i)>>]]
         /\ qs' = [i \in 1..4 |-> RandQuery(i)]

SModelOK == TokenizerSane(d) /\ \A i \in DOMAIN qs : (Len(qs[i]) <= 30 => TokenizerSane(qs[i]))

\* the word set of every row and of every query is computed once (MatchIdsW = MatchIds, see FullText)
RowDoc(r, mu) == IF mu THEN Doc(r.cols) ELSE Doc(<<r.cols[1]>>)
Emit == LET dw == TLCEval([k \in DOMAIN tb' |-> Words(RowDoc(tb'[k], multi'), coll')])
            qw == TLCEval([i \in DOMAIN qs' |-> Words(qs'[i], coll')])
        IN PrintT("CASE " \o ToJson([coll |-> coll', multi |-> multi', rows |-> tb',
                                     qs |-> [i \in DOMAIN qs' |-> [q |-> qs'[i], exp |-> MatchIdsW(tb', dw, qw[i]), words |-> qw[i]]]]))
=============================================================================
