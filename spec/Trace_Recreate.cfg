CONSTANTS
  Universe = {}
INIT TInit
NEXT TNext
CONSTRAINT HW
POSTCONDITION Accepted
CHECK_DEADLOCK FALSE
