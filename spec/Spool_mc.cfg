\* C35 quick: no external cancel; every fault position; all properties incl. the strict refinement.
CONSTANTS
  BatchSize = 2
  RowCap = 2
  ResCap = 1
  MaxRows = 5
  Kills = FALSE
  Timeouts = FALSE
  CtxAwareIter = TRUE
  Faults = TRUE
INIT Init
NEXT Next
INVARIANTS TypeOK InOrder BatchSizes MoreFlags Conservation OkComplete ErrorReturned NoSendOnClosed Joined
PROPERTY Refines
CHECK_DEADLOCK TRUE
