CONSTANT Big = FALSE
INIT Init
NEXT Next
INVARIANT Laws
ACTION_CONSTRAINT Emit
CHECK_DEADLOCK FALSE
