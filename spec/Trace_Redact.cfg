CONSTANTS
  Clients = {c1}
  Lexemes = {a}
  MaxCalls = 0
  Recheck = TRUE
INIT TInit
NEXT TNext
CONSTRAINT HW
POSTCONDITION Accepted
CHECK_DEADLOCK FALSE
