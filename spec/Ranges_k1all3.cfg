\* thorough: one column, every pair of cuts, all lists of <= 3
CONSTANTS
  NV = 3
  K = 1
  MaxLen = 3
  Class = "all"
  MaxTree = 0
  MinRem = 1
INIT InitEnum
NEXT NextEnum
VIEW ViewEnum
INVARIANTS TypeEnum DenseAgree FastAgree
ACTION_CONSTRAINT EmitEnum
CHECK_DEADLOCK FALSE
