---------------------------- MODULE Trace_Tables ----------------------------
(* Binding B for the data-modification properties (C13, C14, C16, C19, C20): validates histories
   recorded from the real engine against SQLTables.  trace.ndjson lines:
     {"ev":"schema","h":n,"tabs":{<t>:{cols,checks,pk,uniq,rows}},"autoinc":{<t>:0}}
          -- a fresh engine with these tables (also the boundary between histories)
     {"ev":"stmt","id":n,"stmt":<statement AST>,
      "reply":{"kind":"ok|err|rows|panic","class":"|dup|notnull|check|other","affected":n,"insert_id":n,"val":n},
      "post":{<t>:[rows as SELECT * shows them]},
      "probes":[{"q":<query AST>,"res":{"kind":"rows","rows":[..]}}..]}
     {"ev":"reset"}
   A stmt event is accepted iff (reply, post) is one of the pairs SQLTables!Outcomes allows from the
   current specification state; table contents are compared as BAGS of collation-normalised rows.
   Otherwise one `MM <json>` line says what disagrees (what = list of
     "kind"       no allowed outcome has this ok/err kind and error class
     "post"       the kind is allowed but not with these table contents
     "affected"   kind and contents are allowed but not with this affected-row count
     "insert_id"  ... not with this insert id / LAST_INSERT_ID() value
     "inv:pk" "inv:uniq" "inv:notnull" "inv:check" "inv:gen"
                  the LOGGED tables newly break an integrity invariant (evaluated on the log itself;
                  inv:check = some enforced CHECK is FALSE for a logged row as logged, or for the row with
                  its generated columns recomputed from the logged base columns)
     "probe"      an index-driven lookup returned rows that are not the filter over the logged rows)
   plus binok: the logged outcome is exactly what the specification allows when the _ai_ci
   collations of the table's columns are replaced by binary ones (classification only),
   plus preok / postok: do the logged tables before / after the statement satisfy all integrity
   invariants (a disagreement that starts from tables the engine had already corrupted is a
   consequence of the earlier, reported one),
   and the specification state is RESYNCHRONISED to the logged tables, so the rest of the history
   is still checked.  Each property reads its own projection of `what` (run/dmlcommon.py). *)
EXTENDS SQLTables, Json

TraceLog == ndJsonDeserialize("trace.ndjson")

VARIABLES l, st
vars == <<l, st>>

Init == l = 1 /\ st = [tabs |-> <<>>, autoinc |-> <<>>, lastid |-> 0]

AutoVals(T, rows) == LET ac == AutoCol(T) IN
                     IF ac = 0 THEN {} ELSE {rows[i][ac].v : i \in {j \in DOMAIN rows : rows[j][ac].t = "i"}}

UniqAfter(T, stmt, kind) ==
  IF kind # "ok" THEN T.uniq
  ELSE IF stmt.k = "createindex" /\ stmt.unique THEN Append(T.uniq, [name |-> stmt.name, parts |-> stmt.parts])
  ELSE IF stmt.k = "dropindex" THEN SelectSeq(T.uniq, LAMBDA u : u.name # stmt.name)
  ELSE T.uniq

Judge(e) ==
  LET stmt == e.stmt
      tn == stmt.t
      G == IF tn # "" THEN AutoVals(st.tabs[tn], e.post[tn]) ELSE {}
      outs == Outcomes(st, stmt, G)
      r == e.reply
      KindOK(o) == o.reply.kind = r.kind /\ (r.kind = "err" => o.reply.class = r.class)
      PostOK(o) == \A t \in DOMAIN st.tabs :
                      BagEqRows(e.post[t], IF t = o.t THEN o.rows ELSE st.tabs[t].rows, CollsOf(st.tabs[t]))
      AffOK(o) == r.kind = "ok" => (o.reply.lo <= r.affected /\ r.affected <= o.reply.hi)
      IdOK(o) == /\ (r.kind = "ok" /\ o.reply.id > 0) => r.insert_id = o.reply.id
                 /\ r.kind = "rows" => (o.reply.val = -1 \/ r.val = o.reply.val)
      L1 == {o \in outs : KindOK(o)}
      L2 == {o \in L1 : PostOK(o)}
      L3 == {o \in L2 : AffOK(o) /\ IdOK(o)}
      best == IF L3 # {} THEN L3 ELSE IF L2 # {} THEN L2 ELSE L1
      \* the state the rest of the history is judged from: the logged tables
      tabs2 == [t \in DOMAIN st.tabs |->
                  [st.tabs[t] EXCEPT !.rows = e.post[t],
                                     !.uniq = IF t = tn THEN UniqAfter(st.tabs[t], stmt, r.kind) ELSE @]]
      auto2 == [t \in DOMAIN st.tabs |->
                  IF t # tn THEN st.autoinc[t]
                  ELSE IF L2 # {} THEN SetMin({o.hi : o \in best})
                  ELSE IF L1 # {} THEN Max2(SetMin({o.hi : o \in L1}), MaxAuto(st.tabs[t], e.post[t]))
                  ELSE Max2(st.autoinc[t], MaxAuto(st.tabs[t], e.post[t]))]
      last2 == IF L2 # {} THEN SetMin({o.lastid : o \in best})
               ELSE IF r.kind = "ok" /\ stmt.k = "insert" /\ r.insert_id > 0 THEN r.insert_id   \* resynchronise to the log
               ELSE st.lastid
      Broke(P(_, _)) == \E t \in DOMAIN st.tabs : P(st.tabs[t], st.tabs[t].rows) /\ ~P(tabs2[t], tabs2[t].rows)
      db == [t \in DOMAIN tabs2 |-> [w |-> NCols(tabs2[t]), rows |-> tabs2[t].rows]]
      badp == {i \in DOMAIN e.probes : ~(e.probes[i].res.kind = "rows" /\ ResultOK(e.probes[i].q, db, e.probes[i].res.rows))}
      what == (IF L1 = {} THEN <<"kind">>
               ELSE IF L2 = {} THEN <<"post">>
               ELSE IF L3 # {} THEN <<>>
               ELSE (IF \E o \in L2 : AffOK(o) THEN <<>> ELSE <<"affected">>)
                    \o (IF \E o \in L2 : IdOK(o) THEN <<>> ELSE <<"insert_id">>)
                    \o (IF (\E o \in L2 : AffOK(o)) /\ (\E o \in L2 : IdOK(o)) THEN <<"affected", "insert_id">> ELSE <<>>))
              \o (IF Broke(PKUniqueT) THEN <<"inv:pk">> ELSE <<>>)
              \o (IF Broke(UniqueIdxT) THEN <<"inv:uniq">> ELSE <<>>)
              \o (IF Broke(NotNullT) THEN <<"inv:notnull">> ELSE <<>>)
              \o (IF Broke(ChecksBothT) THEN <<"inv:check">> ELSE <<>>)
              \o (IF Broke(GenT) THEN <<"inv:gen">> ELSE <<>>)
              \o (IF badp # {} THEN <<"probe">> ELSE <<>>)
      \* would the logged outcome be allowed if every key / row comparison ignored the _ai_ci collations?
      \* (classifies a disagreement as "explained by collation-blind keys"; never used for acceptance)
      binst == [st EXCEPT !.tabs = [t \in DOMAIN st.tabs |->
                  [st.tabs[t] EXCEPT !.cols = [j \in DOMAIN st.tabs[t].cols |->
                      [st.tabs[t].cols[j] EXCEPT !.coll = IF @ = "ci" THEN "bin" ELSE @]]]]]
      binok == \E o \in Outcomes(binst, stmt, G) :
                  /\ KindOK(o) /\ AffOK(o) /\ IdOK(o)
                  /\ \A t \in DOMAIN st.tabs :
                        BagEqRows(e.post[t], IF t = o.t THEN o.rows ELSE st.tabs[t].rows, CollsOf(binst.tabs[t]))
      Sound(tb) == \A t \in DOMAIN tb : /\ KeysOK(tb[t], tb[t].rows) /\ NotNullT(tb[t], tb[t].rows)
                                         /\ ChecksBothT(tb[t], tb[t].rows) /\ GenT(tb[t], tb[t].rows)
      report == IF what = <<>> THEN TRUE ELSE
                PrintT("MM " \o ToJson([l |-> l, id |-> e.id, what |-> what, badprobes |-> badp,
                                         preok |-> Sound(st.tabs), postok |-> Sound(tabs2), binok |-> binok,
                                         exp |-> {[reply |-> o.reply, t |-> o.t, rows |-> o.rows] : o \in outs},
                                         expprobe |-> IF badp = {} THEN <<>>
                                                      ELSE Rows(e.probes[CHOOSE i \in badp : TRUE].q, <<>>, db)]))
  IN /\ report
     /\ st' = [tabs |-> tabs2, autoinc |-> auto2, lastid |-> last2]

Next ==
  /\ l <= Len(TraceLog)
  /\ l' = l + 1
  /\ LET e == TraceLog[l] IN
     CASE e.ev = "schema" -> st' = [tabs |-> e.tabs, autoinc |-> e.autoinc, lastid |-> 0]
       [] e.ev = "stmt" -> Judge(e)
       [] OTHER -> st' = [tabs |-> <<>>, autoinc |-> <<>>, lastid |-> 0]

HW == TLCSet(1, l)
Accepted == TLCGet(1) = Len(TraceLog) + 1
=============================================================================
