\* exhaustive, <= 3 calls per session, ReleaseAll read as one RelOne per freed lock
CONSTANTS
  Sess = {1, 2, 3}
  Names = {"a", "b"}
  Budget <- B3
  Timeouts = {"inf", "fin"}
  Monitor = FALSE
  Record = TRUE
INIT Init
NEXT Next
VIEW View
INVARIANTS TypeOK AtMostOneOwner HoldersIsOwner CountPositiveWhenOwned OwnedImpliesRegistered CreatedOK Linearizable GhostIsReal
PROPERTIES RefinesSplit FailNoEffect
CHECK_DEADLOCK FALSE
