\* C35 binding B: recorded executions of the real handler, real batch size.
CONSTANTS
  TB = 128
  EnumMaxRows = 0
  EnumKills = FALSE
  EnumTimeouts = FALSE
INIT Init
NEXT Next
CONSTRAINT HW
POSTCONDITION Accepted
CHECK_DEADLOCK FALSE
