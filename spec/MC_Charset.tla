------------------------------ MODULE MC_Charset ------------------------------
(* C30, design half.  TLC checks the algorithmic character sets of Charset.tla against the codec laws:

   * over WINDOWS of code points around every boundary (7F/80, 7FF/800, FFF/1000, D7FF/D800, DFFF/E000,
     FFFF/10000, 103FF/10400, 3FFFF/40000, 10FFFF/110000, '?') and for every PAIR in the windows:
       Representable <=> a code word exists;  Dec(Enc(cp)) = cp;  the code word is well-formed by the
       independent byte-range definition;  Enc is injective and prefix-free;  same-length code words
       of the big-endian sets are ordered like their code points;  nothing outside the scalar values
       has a code word;
   * over ALL byte strings up to MaxBytes over an alphabet of lead / continuation / surrogate / limit
     bytes:  Dec accepts exactly the strings that are well-formed by the independent definition
     (truncated sequences, overlong forms, lone surrogates, values above 10FFFF, 4-byte sequences in
     utf8mb3 are rejected), and an accepted string re-encodes to itself;
   * over all strings up to length 3 over a pool of boundary code points: Dec(EncStr(s)) = s, the
     lenient encoding is the strict encoding of the string with '?' substituted, and the generic
     on-the-fly table decoder TDec over the set's own table agrees;
   * (config full) every code point 0..10FFFF + a margin, one by one.

   Emit (simulate mode, SInit/SNext) prints random strings x engine-supported algorithmic character
   sets with the code words the specification expects (binding A). *)
EXTENDS Charset, Json

CONSTANTS Radius,      \* half width of the code point windows
          MaxB8, MaxB16, MaxB32,   \* longest byte string per family (utf8*, ascii / utf16*, ucs2 / utf32)
          U8A, U16A, U32A, AscA,   \* byte alphabets
          Full         \* TRUE: sweep every code point instead of the windows (no pair laws)

Boundaries == {0, 63, 127, 128, 2047, 2048, 4095, 4096, 55295, 55296, 56319, 56320, 57343, 57344,
               65535, 65536, 66559, 66560, 262143, 262144, 1114111, 1114112}
Window == {c \in UNION {(b - Radius)..(b + Radius) : b \in Boundaries} : c >= -2 /\ c <= MaxCP + Radius}
Pool == {0, 63, 65, 127, 128, 233, 2047, 2048, 8364, 55295, 57344, 65533, 65535, 65536, 1114111}

Alpha(c) == CASE c \in {"utf8mb4", "utf8mb3"} -> U8A
              [] c \in {"utf16", "utf16le", "ucs2"} -> U16A
              [] c = "utf32" -> U32A
              [] c = "ascii" -> AscA

Strs(A, n) == UNION {[1..k -> A] : k \in 0..n}

VARIABLES cs, x, tape
vars == <<cs, x, tape>>

MaxBytes(c) == CASE c \in {"utf8mb4", "utf8mb3", "ascii"} -> MaxB8
                 [] c \in {"utf16", "utf16le", "ucs2"} -> MaxB16
                 [] c = "utf32" -> MaxB32

StartsOf(c) == IF Full THEN {<<"hi", h>> : h \in 0..4352}
               ELSE {<<"cps">>, <<"strs">>, <<"bs", <<>>>>} \cup {<<"b0", k>> : k \in Alpha(c)}

Init == \E c \in AlgSets : cs = c /\ x \in StartsOf(c) /\ tape = <<>>

Next ==
    /\ cs' = cs
    /\ tape' = tape
    /\ \/ x[1] = "cps" /\ \E c \in Window : x' = <<"cp", c>>
       \/ x[1] = "hi" /\ \E lo \in 0..15 : x' = <<"blk", x[2] * 256 + lo * 16>>      \* a block of 16 code points
       \/ x[1] = "strs" /\ \E s \in Strs(Pool, 3) : x' = <<"str", s>>
       \/ x[1] = "b0" /\ \E t \in Strs(Alpha(cs), MaxBytes(cs) - 1) : x' = <<"bs", <<x[2]>> \o t>>

\* known answers (the definitions are not vacuous and mean what they should)
ASSUME /\ Enc("utf8mb4", 8364) = <<226, 130, 172>>                    \* EURO SIGN
       /\ Enc("utf8mb4", 1114111) = <<244, 143, 191, 191>>
       /\ Enc("utf8mb3", 65536) = None /\ Enc("ucs2", 65536) = None /\ Enc("ascii", 128) = None
       /\ Enc("utf16", 65536) = <<216, 0, 220, 0>> /\ Enc("utf16", 1114111) = <<219, 255, 223, 255>>
       /\ Enc("utf16le", 8364) = <<172, 32>> /\ Enc("utf32", 128512) = <<0, 1, 246, 0>>
       /\ Enc("utf8mb4", 55296) = None /\ Enc("utf16", 57343) = None
       /\ Dec("utf8mb4", <<240, 144, 128, 128>>) = <<65536>>
       /\ Dec("utf8mb3", <<240, 144, 128, 128>>) = Illformed          \* utf8mb3 rejects 4-byte sequences
       /\ Dec("utf8mb4", <<237, 160, 128>>) = Illformed               \* encoded surrogate
       /\ Dec("utf8mb4", <<192, 128>>) = Illformed /\ Dec("utf8mb4", <<224, 159, 191>>) = Illformed   \* overlong
       /\ Dec("utf8mb4", <<244, 144, 128, 128>>) = Illformed          \* above 10FFFF
       /\ Dec("utf8mb4", <<226, 130>>) = Illformed                    \* truncated
       /\ Dec("utf16", <<216, 0>>) = Illformed /\ Dec("utf16", <<220, 0, 216, 0>>) = Illformed /\ Dec("utf16", <<0>>) = Illformed
       /\ Dec("utf16", <<216, 61, 222, 0>>) = <<128512>>
       /\ Dec("utf32", <<0, 17, 0, 0>>) = Illformed /\ Dec("utf32", <<0, 0, 216, 0>>) = Illformed
       /\ Dec("ascii", <<65, 128>>) = Illformed /\ Dec("utf8mb4", <<>>) = <<>>
       /\ EncStrReplace("ascii", <<65, 233, 66>>) = <<65, 63, 66>> /\ EncStr("ascii", <<65, 233, 66>>) = None

KeyLess(k, m) == k[1] < m[1] \/ (k[1] = m[1] /\ k[2] < m[2])

\* one code point
Cp1Law(c) ==
    LET w == Enc(cs, c)
    IN /\ (Representable(cs, c) <=> w # None)
       /\ (~IsScalar(c) => w = None)
       /\ (w # None => /\ Len(w) >= 1 /\ Len(w) <= MaxLen(cs)
                       /\ \A i \in DOMAIN w : InR(w[i], 0, 255)
                       /\ Dec(cs, w) = <<c>>
                       /\ WfLen(cs, w, 1) = Len(w))
\* a code point against every code point of the windows
PairLaw(c) ==
    LET w == Enc(cs, c)
    IN \A d \in Window :
         LET v == Enc(cs, d)
         IN (w # None /\ v # None /\ c # d) =>
              /\ w # v
              /\ ~IsPrefix(w, v)
              /\ (c < d /\ Len(w) = Len(v) /\ cs # "utf16le" => KeyLess(WordKey(w), WordKey(v)))

\* a byte string
BsLaw(b) ==
    LET d == Dec(cs, b)
    IN /\ (d # Illformed <=> WellFormed(cs, b))
       /\ (d # Illformed => /\ AllRepresentable(cs, d)
                            /\ EncStr(cs, d) = b)
       /\ (d = Illformed <=> IllClass(cs, b) # "wellformed")          \* the diagnostic classifier is total

\* a string of code points
StrLaw(s) ==
    LET T == AlgTable(cs, Pool)
        r == Replaced(cs, s)
    IN /\ (AllRepresentable(cs, s) => Dec(cs, EncStr(cs, s)) = s /\ TDec(T, EncStr(cs, s)) = s /\ TEncStr(T, s) = EncStr(cs, s))
       /\ (~AllRepresentable(cs, s) => EncStr(cs, s) = None /\ TEncStr(T, s) = None)
       /\ AllRepresentable(cs, r)
       /\ EncStrReplace(cs, s) = EncStr(cs, r)
       /\ Dec(cs, EncStrReplace(cs, s)) = r
       /\ Len(r) = Len(s)
       /\ \A i \in DOMAIN s : r[i] = s[i] \/ (r[i] = QMark /\ ~Representable(cs, s[i]))

ModelOK ==
    /\ (x[1] = "cp" => Cp1Law(x[2]) /\ PairLaw(x[2]))
    /\ (x[1] = "blk" => \A c \in x[2]..(x[2] + 15) : Cp1Law(c))
    /\ (x[1] = "bs" => BsLaw(x[2]))
    /\ (x[1] = "str" => StrLaw(x[2]))
    /\ (x[1] = "strs" => Laws(AlgTable(cs, Pool)))

\* ---- sampling for binding A (`-simulate`): one random tape per step, everything derived from it ----
EngineAlg == <<"utf8mb4", "utf8mb3", "utf16", "utf32", "ascii", "binary">>
PoolSeq == <<0, 63, 65, 127, 128, 233, 255, 256, 2047, 2048, 4095, 4096, 8364, 55295, 57344, 65533, 65535,
             65536, 66559, 66560, 131071, 262143, 262144, 1114110, 1114111>>
CaseOf(t) ==
    LET c == EngineAlg[1 + Mod(t[1], Len(EngineAlg))]
        n == Mod(t[2], 6)
        ch(v) == IF Mod(v, 3) # 2 THEN PoolSeq[1 + Mod(Div(v, 3), Len(PoolSeq))]
                 ELSE LET p == Mod(Div(v, 3), MaxCP + 1) IN IF IsSurrogate(p) THEN p - 2048 ELSE p
        s == [i \in 1..n |-> ch(t[2 + i])]
    IN [cs |-> c, s |-> s, strict |-> EncStr(c, s), repl |-> EncStrReplace(c, s), back |-> Replaced(c, s)]

SInit == cs = "utf8mb4" /\ x = <<"sim">> /\ tape = <<>>
SNext == /\ x = <<"sim">>
         /\ x' = <<"done">>
         /\ cs' = cs
         /\ tape' = [i \in 1..8 |-> RandomElement(0..2000000000)]
Emit == PrintT("CASE " \o ToJson(CaseOf(tape')))
=============================================================================
