INIT Init
NEXT SimNext
CONSTANTS
  NS = 2
  Mech = "private"
  MaxLog = 2
  Vals = {0, 1}
CONSTRAINT StepBound
ACTION_CONSTRAINT Emit
CHECK_DEADLOCK FALSE
