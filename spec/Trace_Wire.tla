----------------------------- MODULE Trace_Wire -----------------------------
(* C28, binding B.  Every event is one stored value of one column, as the real server sent it:

     {"ev":"val","id":..,"ty":{k,bits,uns,p,s,n,cs,mem},          the column (from the driver's DDL)
      "st":{...},                                                  the stored value (engine's row, projected)
      "tf":{len,type,flags,dec,cs}, "trow":[bytes],                text protocol: column definition + row packet
      "bf":{len,type,flags,dec,cs}, "brow":[bytes]}                prepared statement: column definition + binary row packet

   TLC decodes the row packets (framing, NULL marker / NULL bitmap), checks the text against the
   grammar of the column type (WireFormat!Parse), compares the denoted value with the stored value,
   checks Len(text) <= announced length, decodes the binary value according to the ANNOUNCED type code
   and UNSIGNED flag (what a client would do) and compares again.  The character set used to decode
   text is the one announced in the column definition.

   Stored values (projections of the engine's Go values, no formatting on the Go side):
     {"t":"n"}                                  NULL
     {"t":"i","be":[8 bytes big endian],"sg":b} integer kinds: the two's complement bytes of the int64 / uint64
     {"t":"d","neg":b,"cb":[bytes],"exp":n}     DECIMAL: big-endian bytes of the coefficient's magnitude, exponent
     {"t":"t","y","mo","d","h","mi","s","us"}   DATE / DATETIME / TIMESTAMP fields
     {"t":"ts","neg":b,"secs":n,"us":n}         TIME
     {"t":"s","u8":[bytes]}                     character kinds: the stored UTF-8 bytes
     {"t":"b","b":[bytes]}                      binary kinds
     {"t":"e","i":n}  {"t":"m","m":[indexes]}   ENUM index, SET member indexes
     {"t":"f","repr":[bytes],"bits":[bytes]}    FLOAT / DOUBLE: shortest round-trip numeral (strconv), IEEE bytes little endian
     {"t":"j","leaves":[{"p":[[..]..],"l":[..]}]}  JSON: (path, leaf) pairs of the stored document *)
EXTENDS WireFormat, Json

TraceLog == ndJsonDeserialize("trace.ndjson")
VARIABLE l

\* ---- JSON text -> set of <<path, leaf>> ------------------------------------------------------------
\* path step: <<0>> \o key code points | <<1, index>>;  leaf: <<0>> \o string | <<1, neg, e + 2000>> \o digits |
\* <<2>> true | <<3>> false | <<4>> null | <<5>> {} | <<6>> []
JBad == [ok |-> FALSE, i |-> 0, s |-> {}]
IsWs(c) == c \in {32, 9, 10, 13}
RECURSIVE SkipWs(_, _)
SkipWs(c, i) == IF i <= Len(c) /\ IsWs(c[i]) THEN SkipWs(c, i + 1) ELSE i
HexVal(x) == IF x >= 48 /\ x <= 57 THEN x - 48 ELSE IF x >= 97 /\ x <= 102 THEN x - 87 ELSE IF x >= 65 /\ x <= 70 THEN x - 55 ELSE -1
Hex4(c, i) == IF i + 3 > Len(c) \/ \E k \in 0..3 : HexVal(c[i + k]) < 0 THEN -1
              ELSE HexVal(c[i]) * 4096 + HexVal(c[i + 1]) * 256 + HexVal(c[i + 2]) * 16 + HexVal(c[i + 3])
\* string body from i (after the opening quote): [ok, i = position after the closing quote, v = code points]
RECURSIVE JStrBody(_, _, _)
JStrBody(c, i, acc) ==
    IF i > Len(c) THEN [ok |-> FALSE, i |-> i, v |-> acc]
    ELSE IF c[i] = 34 THEN [ok |-> TRUE, i |-> i + 1, v |-> acc]
    ELSE IF c[i] < 32 THEN [ok |-> FALSE, i |-> i, v |-> acc]
    ELSE IF c[i] # 92 THEN JStrBody(c, i + 1, Append(acc, c[i]))
    ELSE IF i + 1 > Len(c) THEN [ok |-> FALSE, i |-> i, v |-> acc]
    ELSE LET e == c[i + 1] IN
         IF e \in {34, 92, 47} THEN JStrBody(c, i + 2, Append(acc, e))
         ELSE IF e = 98 THEN JStrBody(c, i + 2, Append(acc, 8))
         ELSE IF e = 102 THEN JStrBody(c, i + 2, Append(acc, 12))
         ELSE IF e = 110 THEN JStrBody(c, i + 2, Append(acc, 10))
         ELSE IF e = 114 THEN JStrBody(c, i + 2, Append(acc, 13))
         ELSE IF e = 116 THEN JStrBody(c, i + 2, Append(acc, 9))
         ELSE IF e = 117 THEN
              LET h == Hex4(c, i + 2) IN
              IF h < 0 THEN [ok |-> FALSE, i |-> i, v |-> acc]
              ELSE IF h >= 55296 /\ h < 56320 /\ i + 7 <= Len(c) /\ c[i + 6] = 92 /\ c[i + 7] = 117 /\ Hex4(c, i + 8) >= 56320 /\ Hex4(c, i + 8) < 57344
                   THEN JStrBody(c, i + 12, Append(acc, 65536 + (h - 55296) * 1024 + (Hex4(c, i + 8) - 56320)))
              ELSE JStrBody(c, i + 6, Append(acc, h))
         ELSE [ok |-> FALSE, i |-> i, v |-> acc]
NumChar(x) == (x >= 48 /\ x <= 57) \/ x \in {45, 43, 46, 101, 69}
RECURSIVE NumEnd(_, _)
NumEnd(c, i) == IF i <= Len(c) /\ NumChar(c[i]) THEN NumEnd(c, i + 1) ELSE i
NumLeaf(bytes) == LET r == Numeral(bytes) IN
                  IF ~r.ok THEN <<-1>> ELSE IF r.v.m = <<>> THEN <<1, 0, 2000>> ELSE <<1, IF r.v.neg THEN 1 ELSE 0, r.v.e + 2000>> \o r.v.m
IsLit(c, i, w) == i + Len(w) - 1 <= Len(c) /\ \A k \in 1..Len(w) : c[i + k - 1] = w[k]

RECURSIVE JVal(_, _, _), JMembers(_, _, _, _, _), JElems(_, _, _, _, _)
JVal(c, i0, path) ==
    LET i == SkipWs(c, i0) IN
    IF i > Len(c) THEN JBad
    ELSE IF c[i] = 123 THEN
         LET j == SkipWs(c, i + 1) IN
         IF j <= Len(c) /\ c[j] = 125 THEN [ok |-> TRUE, i |-> j + 1, s |-> {<<path, <<5>> >>}]
         ELSE JMembers(c, j, path, {}, {})
    ELSE IF c[i] = 91 THEN
         LET j == SkipWs(c, i + 1) IN
         IF j <= Len(c) /\ c[j] = 93 THEN [ok |-> TRUE, i |-> j + 1, s |-> {<<path, <<6>> >>}]
         ELSE JElems(c, j, path, 0, {})
    ELSE IF c[i] = 34 THEN
         LET r == JStrBody(c, i + 1, <<>>) IN
         IF ~r.ok THEN JBad ELSE [ok |-> TRUE, i |-> r.i, s |-> {<<path, <<0>> \o r.v>>}]
    ELSE IF IsLit(c, i, <<116, 114, 117, 101>>) THEN [ok |-> TRUE, i |-> i + 4, s |-> {<<path, <<2>> >>}]
    ELSE IF IsLit(c, i, <<102, 97, 108, 115, 101>>) THEN [ok |-> TRUE, i |-> i + 5, s |-> {<<path, <<3>> >>}]
    ELSE IF IsLit(c, i, <<110, 117, 108, 108>>) THEN [ok |-> TRUE, i |-> i + 4, s |-> {<<path, <<4>> >>}]
    ELSE IF NumChar(c[i]) THEN
         LET j == NumEnd(c, i)
             leaf == NumLeaf(SubSeq(c, i, j - 1)) IN
         IF leaf = <<-1>> THEN JBad ELSE [ok |-> TRUE, i |-> j, s |-> {<<path, leaf>>}]
    ELSE JBad
\* at a member's opening quote; keys = the keys seen so far (a repeated key is rejected)
JMembers(c, i, path, acc, keys) ==
    IF i > Len(c) \/ c[i] # 34 THEN JBad
    ELSE LET k == JStrBody(c, i + 1, <<>>) IN
         IF ~k.ok \/ k.v \in keys THEN JBad
         ELSE LET j == SkipWs(c, k.i) IN
              IF j > Len(c) \/ c[j] # 58 THEN JBad
              ELSE LET r == JVal(c, j + 1, Append(path, <<0>> \o k.v)) IN
                   IF ~r.ok THEN JBad
                   ELSE LET m == SkipWs(c, r.i) IN
                        IF m > Len(c) THEN JBad
                        ELSE IF c[m] = 125 THEN [ok |-> TRUE, i |-> m + 1, s |-> acc \cup r.s]
                        ELSE IF c[m] = 44 THEN JMembers(c, SkipWs(c, m + 1), path, acc \cup r.s, keys \cup {k.v})
                        ELSE JBad
JElems(c, i, path, n, acc) ==
    LET r == JVal(c, i, Append(path, <<1, n>>)) IN
    IF ~r.ok THEN JBad
    ELSE LET m == SkipWs(c, r.i) IN
         IF m > Len(c) THEN JBad
         ELSE IF c[m] = 93 THEN [ok |-> TRUE, i |-> m + 1, s |-> acc \cup r.s]
         ELSE IF c[m] = 44 THEN JElems(c, m + 1, path, n + 1, acc \cup r.s)
         ELSE JBad
\* a whole document: one value, then only white space
ParseJson(bytes) ==
    LET c == Utf8Dec(bytes, 1) IN
    IF ~GoodChars(c) THEN Bad
    ELSE LET r == JVal(c, 1, <<>>) IN
         IF ~r.ok THEN Bad ELSE IF SkipWs(c, r.i) # Len(c) + 1 THEN Bad ELSE Ok(r.s)
\* the stored document's leaves (numbers arrive as <<1>> \o numeral bytes and are normalised here)
StoredLeaves(st) == {<<st.leaves[i].p, IF st.leaves[i].l[1] = 1 THEN NumLeaf(Tail(st.leaves[i].l)) ELSE st.leaves[i].l>> : i \in DOMAIN st.leaves}

\* ---- the stored value as an abstract value ---------------------------------------------------------
\* the engine keeps the zero date as Go's time.Date(0,0,0,...) = year -1, November 30
StoredDt(st) == IF st.y = -1 /\ st.mo = 11 /\ st.d = 30 /\ st.h + st.mi + st.s + st.us = 0 THEN DtV(0, 0, 0, 0, 0, 0, 0)
                ELSE DtV(st.y, st.mo, st.d, st.h, st.mi, st.s, st.us)
StoredTime(st) == [neg |-> st.neg /\ (st.secs + st.us > 0), h |-> Div(st.secs, 3600), mi |-> Mod(Div(st.secs, 60), 60), s |-> Mod(st.secs, 60), us |-> st.us]

\* does the denoted value v (of column type ty) equal the stored value?
Denotes(ty, v, st) ==
    CASE ty.k \in IntKinds -> st.t = "i" /\ NormInt(v) = NormInt(IntOfBE(st.be, st.sg))
      [] ty.k = "dec" -> st.t = "d" /\ NormDec(v) = DecOfCoeff(st.neg, BytesToDigits(st.cb), st.exp)
      [] ty.k \in DtKinds -> st.t = "t" /\ v = StoredDt(st)
      [] ty.k = "time" -> st.t = "ts" /\ v = StoredTime(st)
      [] ty.k \in CharKinds -> st.t = "s" /\ v = Utf8Dec(st.u8, 1)
      [] ty.k \in ByteKinds -> st.t = "b" /\ v = st.b
      [] ty.k = "enum" -> st.t = "e" /\ v = st.i
      [] ty.k = "set" -> st.t = "m" /\ v = {st.m[i] : i \in DOMAIN st.m}
      [] ty.k \in FloatKinds -> st.t = "f" /\ LET r == Numeral(st.repr) IN r.ok /\ SameNumber(v, r.v)
      [] OTHER -> FALSE
ParseText(ty, b, cs) == IF ty.k = "json" THEN ParseJson(b) ELSE Parse(ty, b, cs)
DenotesText(ty, v, st) == IF ty.k = "json" THEN st.t = "j" /\ v = StoredLeaves(st) ELSE Denotes(ty, v, st)
\* binary protocol: FLOAT / DOUBLE are compared as IEEE bytes, everything else through its abstract value
ParseB(ty, code, uns, b, cs) ==
    IF ty.k = "json" THEN (IF ClassOfCode(code) # "str" THEN Bad
                           ELSE LET le == LenEnc(b) IN IF ~le.ok THEN Bad ELSE IF le.rest # <<>> THEN Bad ELSE ParseJson(le.v))
    ELSE ParseBin(ty, code, uns, b, cs)
DenotesBin(ty, v, st) == IF ty.k \in FloatKinds THEN st.t = "f" /\ v = st.bits ELSE DenotesText(ty, v, st)

Unsigned(f) == Mod(Div(f.flags, 32), 2) = 1
\* the set of failure tags of one event
Judge(e) ==
    LET ty == e.ty
        isnull == e.st.t = "n"
        tr == TextRow(e.trow)
        br == BinRow(e.brow)
        tcs == TextCs(ty, CsOfColl(e.tf.cs))
        bcs == TextCs(ty, CsOfColl(e.bf.cs))
        pt == IF tr.ok /\ ~tr.null THEN ParseText(ty, tr.v, tcs) ELSE Bad
        pb == IF br.ok /\ ~br.null THEN ParseB(ty, e.bf.type, Unsigned(e.bf), br.v, bcs) ELSE Bad
        tlive == e.terr = ""            \* the server answered the text query with a result set
        blive == e.berr = ""
    IN  (IF ~tlive THEN {"text-error"} ELSE {})
        \cup (IF tlive /\ ~tr.ok THEN {"text-frame"} ELSE {})
        \cup (IF tlive /\ tr.ok /\ tr.null # isnull THEN {"text-null"} ELSE {})
        \cup (IF tlive /\ tr.ok /\ ~tr.null /\ ~isnull /\ ~pt.ok THEN {"text-grammar"} ELSE {})
        \cup (IF tlive /\ tr.ok /\ ~tr.null /\ ~isnull /\ pt.ok THEN (IF DenotesText(ty, pt.v, e.st) THEN {} ELSE {"text-denote"}) ELSE {})
        \cup (IF tlive /\ tr.ok /\ ~tr.null /\ Len(tr.v) > e.tf.len THEN {"text-length"} ELSE {})
        \cup (IF ~blive THEN {"bin-error"} ELSE {})
        \cup (IF blive /\ ~br.ok THEN {"bin-frame"} ELSE {})
        \cup (IF blive /\ br.ok /\ br.null # isnull THEN {"bin-null"} ELSE {})
        \cup (IF blive /\ br.ok /\ ~br.null /\ ~isnull /\ ~pb.ok THEN {"bin-form"} ELSE {})
        \cup (IF blive /\ br.ok /\ ~br.null /\ ~isnull /\ pb.ok THEN (IF DenotesBin(ty, pb.v, e.st) THEN {} ELSE {"bin-denote"}) ELSE {})
TextLen(e) == LET tr == TextRow(e.trow) IN IF e.terr = "" /\ tr.ok THEN Len(tr.v) ELSE 0
SpecLen(e) == IF e.terr = "" THEN Announced(e.ty, TextCs(e.ty, CsOfColl(e.tf.cs))) ELSE 0

Init == l = 1
Next ==
    /\ l <= Len(TraceLog)
    /\ l' = l + 1
    /\ LET e == TraceLog[l] IN
       IF e.ev = "val"
       THEN LET tags == Judge(e) IN
            /\ (IF tags # {} THEN PrintT("MM " \o ToJson([l |-> l, id |-> e.id, tags |-> tags, tlen |-> TextLen(e), announced |-> e.tf.len, announced_spec |-> SpecLen(e)]))
                ELSE TRUE)
            \* once per column: the engine's announcement against the specification's formula (an observation, not a verdict)
            /\ (IF e.first /\ e.terr = "" /\ e.tf.len # SpecLen(e)
                THEN PrintT("NOTE " \o ToJson([ddl |-> e.ddl, sess |-> e.sess, announced |-> e.tf.len, spec |-> SpecLen(e)]))
                ELSE TRUE)
       ELSE TRUE

HW == TLCSet(1, l)
Accepted == TLCGet(1) = Len(TraceLog) + 1
=============================================================================
