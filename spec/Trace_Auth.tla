--------------------------- MODULE Trace_Auth ---------------------------
(* C40, binding B.  auth_trace.ndjson: one line per connection attempt made against the real server
   (in-process engine with the privilege database enabled, behind the real TCP listener, running in a
   child process):
       [id, accts, att, out]
   accts / att   the account set and the attempt exactly as Auth.tla printed them (the driver created
                 the accounts with CREATE USER .. and logged in / spoke the handshake as described),
   out           [o, cu, code]:  o = "accept" (cu = SELECT CURRENT_USER(), "" for the raw client)
                                   | "reject" (an ERR packet; code = its number)
                                   | "dropped" (connection closed without OK/ERR: the listener's
                                     panic handler) | "crash" (the server process died).
   Step l loads line l into Auth's variables; the constraint Judge decides whether the recorded
   outcome is one Auth!Authenticate allows.  Disagreements are printed as  MM <json>. *)
EXTENDS Auth

TraceLog == ndJsonDeserialize("auth_trace.ndjson")

VARIABLE l

AcctOf(x) == [user |-> x.user, host |-> x.host, pw |-> x.pw, plugin |-> x.plugin, locked |-> x.locked]
AttOf(x) == [user |-> x.user, tls |-> x.tls, proof |-> [k |-> x.proof.k, pw |-> x.proof.pw, n |-> x.proof.n, base |-> x.proof.base]]

TInit == l = 1 /\ accts = {} /\ att = NoAtt
TNext == /\ l <= Len(TraceLog)
         /\ accts' = {AcctOf(x) : x \in RangeOf(TraceLog[l].accts)}
         /\ att' = AttOf(TraceLog[l].att)
         /\ l' = l + 1

Ok(out) ==
    \/ out.o = "accept" /\ WellFormed(att.proof) /\ [o |-> "accept", cu |-> out.cu] \in Exp
    \/ out.o = "accept" /\ ~WellFormed(att.proof) /\ \E e \in Exp : e.o = "accept"    \* (never: malformed is rejected)
    \/ out.o = "reject" /\ [o |-> "reject", cu |-> ""] \in Exp
\* how the matched account(s) look, for the signature of a mismatch
Cand == Candidates(accts, att.user)
Judge ==
    l > 1 =>
        LET e == TraceLog[l - 1] IN
        /\ (IF accts \subseteq Account /\ ValidSet(accts) /\ att \in Attempts THEN TRUE
            ELSE PrintT("BADCASE " \o ToJson([l |-> l - 1, id |-> e.id])))
        /\ (IF Ok(e.out) THEN TRUE
            ELSE PrintT("MM " \o ToJson([l |-> l - 1, id |-> e.id, att |-> att, got |-> e.out, allowed |-> Exp, cand |-> Cand])))
        /\ PrintT("ST " \o ToJson([l |-> l - 1, cands |-> Cardinality(Cand), outcomes |-> Cardinality(Exp),
                                    accept |-> \E x \in Exp : x.o = "accept", pattern |-> \E a \in Cand : a.host \notin {"localhost"},
                                    k |-> att.proof.k,
                                    class |-> {Class(att.proof, a.plugin) : a \in Cand},
                                    natpw |-> \E a \in Cand : a.plugin = "native" /\ a.pw = "pw1" /\ a.locked = "no",
                                    natnopw |-> \E a \in Cand : a.plugin = "native" /\ a.pw = "none" /\ a.locked = "no"]))
HW == TLCSet(1, l)
Accepted == TLCGet(1) = Len(TraceLog) + 1
=============================================================================
