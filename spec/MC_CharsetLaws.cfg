INIT Init
NEXT Next
INVARIANT LawsOK
CHECK_DEADLOCK FALSE
