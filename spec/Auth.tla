------------------------------ MODULE Auth ------------------------------
(* C40.  Which connection attempts the server accepts, and as which account.

   The client always connects over TCP from 127.0.0.1.  An account is
       [user, host, pw, plugin, locked]
     user    account user name, "" = the anonymous user
     host    account host value (a literal or a pattern with %)
     pw      password LABEL: "none" (no password) | "pw1"       (the SHA arithmetic is outside TLA+:
             knowing a password = presenting the same label)
     plugin  "native" (mysql_native_password) | "sha2" (caching_sha2_password)
     locked  "no" | "create" (CREATE USER .. ACCOUNT LOCK) | "update" (mysql.user.account_locked = 'Y')
   An attempt is [user, tls, proof]; proof =
       [k |-> "password", pw |-> label, n |-> 0, base |-> ""]   a well-formed client that was given the
                                                    password with that label ("none" = empty password)
       [k |-> "short" | "long" | "garbage", n, base]    a raw client answering mysql_native_password with n
                                                    bytes: base = "right" - the first n bytes of the correct
                                                    scramble for pw1, continued with junk beyond 20;
                                                    base = "junk" - n arbitrary bytes.  n # 20 or junk.
   Account matching follows mysql_db.GetUser: a loopback client is looked up as 'localhost' first
   (exact), then the entries with the attempt's user name whose host matches, then the anonymous
   entries whose host matches; WHICH of several matching entries of one tier is taken is not
   specified (TODO in GetUser; MySQL takes the most specific) and left open here.

   TLC enumerates every (account set, attempt) of the bounded vocabulary as one state, checks the
   property-level invariants on it, and prints the account sets (ACCTS) and the attempts (ATTEMPTS)
   for the binding. *)
EXTENDS Integers, FiniteSets, Sequences, TLC, Json

CONSTANTS AcctUsers,      \* e.g. {"alice", ""}
          AcctHosts,      \* e.g. {"localhost", "127.0.0.1", "%", "10.%", "127.0.0.%"}
          Plugins,        \* {"native", "sha2"}
          LockKinds,      \* {"no", "create", "update"}
          MaxAccts,       \* account sets of 1..MaxAccts accounts
          AttemptUsers,   \* e.g. {"alice", "bob"}
          Lens            \* response lengths of the malformed proofs (subset of 1..40 \ {20})

RangeOf(s) == {s[i] : i \in DOMAIN s}

\* Does an account host value match a client at 127.0.0.1 (which the server also knows as
\* localhost)?  Written out for the host values used (manual: "Specifying Account Names" - % matches
\* any sequence of characters).
KnownHosts == {"localhost", "127.0.0.1", "::1", "%", "127.0.0.%", "127.%", "10.%", "192.168.1.%", "example.com"}
MatchesClient(h) == h \in {"localhost", "127.0.0.1", "::1", "%", "127.0.0.%", "127.%"}
ExactLoopback(h) == h = "localhost"

Account == [user : AcctUsers, host : AcctHosts, pw : {"none", "pw1"}, plugin : Plugins, locked : LockKinds]
KeyOf(a) == <<a.user, a.host>>
ValidSet(S) == \A a, b \in S : KeyOf(a) = KeyOf(b) => a = b
Keys == AcctUsers \X AcctHosts
KeySets == {K \in SUBSET Keys : Cardinality(K) >= 1 /\ Cardinality(K) <= MaxAccts}

Pw(l) == [k |-> "password", pw |-> l, n |-> 0, base |-> ""]
Proofs == {Pw("pw1"), Pw("pw2"), Pw("none")}
              \cup {[k |-> IF n < 20 THEN "short" ELSE "long", pw |-> "", n |-> n, base |-> b] : n \in Lens, b \in {"right", "junk"}}
              \cup {[k |-> "garbage", pw |-> "", n |-> 20, base |-> "junk"]}
WellFormed(p) == p.k = "password"
Attempts == {[user |-> u, tls |-> t, proof |-> p] : u \in AttemptUsers, t \in BOOLEAN, p \in Proofs}
\* the raw client speaks mysql_native_password without TLS
RunnableAttempts == {a \in Attempts : WellFormed(a.proof) \/ ~a.tls}

\* ---- account matching (GetUser) ----------------------------------------------------------------
Candidates(accts, user) ==
    LET exact == {a \in accts : a.user = user /\ ExactLoopback(a.host)}
        named == {a \in accts : a.user = user /\ MatchesClient(a.host)}
        anon == {a \in accts : a.user = "" /\ MatchesClient(a.host)}
    IN IF exact # {} THEN exact ELSE IF named # {} THEN named ELSE anon

\* ---- the decision for one matched account ---------------------------------------------------------
\* caching_sha2_password needs a secure transport here (the server offers no RSA key exchange)
PluginUsable(a, att) == a.plugin = "native" \/ att.tls
KnowsPassword(a, att) ==
    /\ WellFormed(att.proof)
    /\ att.proof.pw = a.pw             \* "none" = no password on the account and none presented
Decide(a, att) ==
    IF a.locked # "no" THEN "reject"
    ELSE IF ~PluginUsable(a, att) THEN "reject"
    ELSE IF KnowsPassword(a, att) THEN "accept"
    ELSE "reject"                      \* wrong, missing or malformed credentials

CurrentUser(a) == a.user \o "@" \o a.host
Outcome(a, att) == IF Decide(a, att) = "accept" THEN [o |-> "accept", cu |-> CurrentUser(a)] ELSE [o |-> "reject", cu |-> ""]
Authenticate(accts, att) ==
    IF Candidates(accts, att.user) = {} THEN {[o |-> "reject", cu |-> ""]}
    ELSE {Outcome(a, att) : a \in Candidates(accts, att.user)}

\* ---- enumeration ----------------------------------------------------------------------------------
VARIABLES accts, att
vars == <<accts, att>>
NoAtt == [user |-> "-", tls |-> FALSE, proof |-> Pw("-")]

\* one key set per initial state; the attributes of its accounts and the attempt are chosen in Next
\* (TLC computes initial states on one thread)
Init == /\ \E K \in KeySets : accts = {[user |-> k[1], host |-> k[2], pw |-> "?", plugin |-> "?", locked |-> "?"] : k \in K}
        /\ att = NoAtt
Filled(S) == \A a \in S : a.pw # "?"
Fill == /\ ~Filled(accts)
        /\ \E f \in [accts -> [pw : {"none", "pw1"}, plugin : Plugins, locked : LockKinds]] :
              accts' = {[user |-> a.user, host |-> a.host, pw |-> f[a].pw, plugin |-> f[a].plugin, locked |-> f[a].locked] : a \in accts}
        /\ UNCHANGED att
Try == /\ Filled(accts) /\ att = NoAtt
       /\ \E x \in RunnableAttempts : att' = x
       /\ UNCHANGED accts
Next == Fill \/ Try
Spec == Init /\ [][Next]_vars

Judged == Filled(accts) /\ att # NoAtt
Exp == Authenticate(accts, att)

\* ---- the property, stated declaratively, holds of Authenticate on every enumerated case -------------
TypeOK == accts \subseteq [user : AcctUsers, host : AcctHosts, pw : {"none", "pw1", "?"}, plugin : Plugins \cup {"?"}, locked : LockKinds \cup {"?"}]
                /\ ValidSet(accts)
\* accepted only as an unlocked matching account whose password the client knows under a usable plugin
AcceptSound == Judged => \A e \in Exp : e.o = "accept" =>
    \E a \in accts : /\ CurrentUser(a) = e.cu /\ MatchesClient(a.host) /\ a.user \in {att.user, ""}
                     /\ a.locked = "no" /\ KnowsPassword(a, att) /\ PluginUsable(a, att)
\* malformed proofs, wrong passwords and locked / absent accounts are rejected
MalformedRejected == Judged /\ ~WellFormed(att.proof) => Exp = {[o |-> "reject", cu |-> ""]}
WrongRejected == Judged /\ att.proof = Pw("pw2") => Exp = {[o |-> "reject", cu |-> ""]}
NoAccountRejected == Judged /\ (\A a \in accts : ~MatchesClient(a.host) \/ a.user \notin {att.user, ""}) => Exp = {[o |-> "reject", cu |-> ""]}
AllLockedRejected == Judged /\ (\A a \in accts : a.locked # "no") => Exp = {[o |-> "reject", cu |-> ""]}
\* a single matching unlocked account with the right credentials is accepted, as that account
AcceptComplete == Judged =>
    \A a \in accts :
        (/\ Candidates(accts, att.user) = {a} /\ a.locked = "no" /\ KnowsPassword(a, att) /\ PluginUsable(a, att))
        => Exp = {[o |-> "accept", cu |-> CurrentUser(a)]}
\* an exact 'localhost' entry of the user shadows every pattern entry
ExactFirst == Judged => \A a \in accts : (a.user = att.user /\ a.host = "localhost") => Candidates(accts, att.user) = {a}

\* ---- what the binding needs: the account sets and the attempts --------------------------------------
AcctList(S) == S
Emit == IF Filled(accts') /\ ~Filled(accts) THEN PrintT("ACCTS " \o ToJson([accts |-> accts'])) ELSE TRUE
ASSUME PrintT("ATTEMPTS " \o ToJson([attempts |-> RunnableAttempts]))
=============================================================================
