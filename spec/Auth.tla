------------------------------ MODULE Auth ------------------------------
(* C40.  Which connection attempts the server accepts, and as which account.

   The client always connects over TCP from 127.0.0.1.  An account is
       [user, host, pw, plugin, locked]
     user    account user name, "" = the anonymous user
     host    account host value (a literal or a pattern with %)
     pw      password LABEL: "none" (no password) | "pw1"       (the SHA arithmetic is outside TLA+:
             knowing a password = presenting the same label)
     plugin  "native" (mysql_native_password) | "sha2" (caching_sha2_password)
     locked  "no" | "create" (CREATE USER .. ACCOUNT LOCK) | "update" (mysql.user.account_locked = 'Y')
   An attempt is [user, tls, proof]; proof =
       [k |-> "password", pw |-> label, n |-> 0, base |-> ""]   a well-formed client that was given the
                                                    password with that label ("none" = empty password)
       [k |-> "short" | "long" | "garbage", n, base]    a raw client answering mysql_native_password with n
                                                    bytes: base = "right" - the first n bytes of the correct
                                                    scramble for pw1, continued with junk beyond 20;
                                                    base = "junk" - n arbitrary bytes.  n # 20 or junk.
       [k |-> "exact", n |-> 20, base |-> "end0" | "start0"]   the raw client answering with exactly the
                                                    correct 20-byte scramble for pw1, on a handshake whose
                                                    salt makes that scramble END (resp. START) with the byte
                                                    0x00 (the driver reconnects until the salt is such a one)
       [k |-> "padded", n, base |-> "trail" | "lead"]   the correct scramble for pw1 followed (preceded) by
                                                    n - 20 bytes 0x00
       [k |-> "allnul", n, base |-> "nul"]          n bytes 0x00 (n >= 1)
       [k |-> "empty", n |-> 0, base |-> ""]        a zero-length auth response
   What such bytes ARE is the abstract class of the proof under the plugin that judges it (Class): the
   MySQL protocol knows, for mysql_native_password, the empty response (no password) and the 20-byte
   scramble; everything else is malformed (native_password_authenticate answers it with a handshake
   error).  For caching_sha2_password the empty response and a lone 0x00 (what its clients send for an
   empty password) say "no password".  The SHA arithmetic stays outside: "exact" IS the valid proof
   of pw1, the driver computes it.
   A raw client over TLS announces caching_sha2_password and is generated only with the two proofs
   that are decided without a further round trip (empty, lone NUL).
   Account matching follows mysql_db.GetUser: a loopback client is looked up as 'localhost' first
   (exact), then the entries with the attempt's user name whose host matches, then the anonymous
   entries whose host matches; WHICH of several matching entries of one tier is taken is not
   specified (TODO in GetUser; MySQL takes the most specific) and left open here.

   TLC enumerates every (account set, attempt) of the bounded vocabulary as one state, checks the
   property-level invariants on it, and prints the account sets (ACCTS) and the attempts (ATTEMPTS)
   for the binding. *)
EXTENDS Integers, FiniteSets, Sequences, TLC, Json

CONSTANTS AcctUsers,      \* e.g. {"alice", ""}
          AcctHosts,      \* e.g. {"localhost", "127.0.0.1", "%", "10.%", "127.0.0.%"}
          Plugins,        \* {"native", "sha2"}
          LockKinds,      \* {"no", "create", "update"}
          MaxAccts,       \* account sets of 1..MaxAccts accounts
          AttemptUsers,   \* e.g. {"alice", "bob"}
          Lens,           \* response lengths of the malformed proofs (subset of 1..40 \ {20})
          NulLens,        \* lengths of the all-NUL responses, e.g. {1, 19, 20, 21, 32}
          PadLens         \* numbers of NUL bytes added to the correct scramble, e.g. {1, 12}

RangeOf(s) == {s[i] : i \in DOMAIN s}

\* Does an account host value match a client at 127.0.0.1 (which the server also knows as
\* localhost)?  Written out for the host values used (manual: "Specifying Account Names" - % matches
\* any sequence of characters).
KnownHosts == {"localhost", "127.0.0.1", "::1", "%", "127.0.0.%", "127.%", "10.%", "192.168.1.%", "example.com"}
MatchesClient(h) == h \in {"localhost", "127.0.0.1", "::1", "%", "127.0.0.%", "127.%"}
ExactLoopback(h) == h = "localhost"

Account == [user : AcctUsers, host : AcctHosts, pw : {"none", "pw1"}, plugin : Plugins, locked : LockKinds]
KeyOf(a) == <<a.user, a.host>>
ValidSet(S) == \A a, b \in S : KeyOf(a) = KeyOf(b) => a = b
Keys == AcctUsers \X AcctHosts
KeySets == {K \in SUBSET Keys : Cardinality(K) >= 1 /\ Cardinality(K) <= MaxAccts}

Pw(l) == [k |-> "password", pw |-> l, n |-> 0, base |-> ""]
Proofs == {Pw("pw1"), Pw("pw2"), Pw("none")}
              \cup {[k |-> IF n < 20 THEN "short" ELSE "long", pw |-> "", n |-> n, base |-> b] : n \in Lens, b \in {"right", "junk"}}
              \cup {[k |-> "garbage", pw |-> "", n |-> 20, base |-> "junk"]}
              \cup {[k |-> "exact", pw |-> "", n |-> 20, base |-> b] : b \in {"end0", "start0"}}
              \cup {[k |-> "padded", pw |-> "", n |-> 20 + j, base |-> b] : j \in PadLens, b \in {"trail", "lead"}}
              \cup {[k |-> "allnul", pw |-> "", n |-> n, base |-> "nul"] : n \in NulLens}
              \cup {[k |-> "empty", pw |-> "", n |-> 0, base |-> ""]}
WellFormed(p) == p.k = "password"            \* made by a client library that was given a password
LoneNul(p) == p.k = "allnul" /\ p.n = 1
Attempts == {[user |-> u, tls |-> t, proof |-> p] : u \in AttemptUsers, t \in BOOLEAN, p \in Proofs}
\* the raw client speaks mysql_native_password without TLS, and caching_sha2_password over TLS with the
\* two proofs that need no further round trip
RunnableAttempts == {a \in Attempts : WellFormed(a.proof) \/ ~a.tls \/ a.proof.k = "empty" \/ LoneNul(a.proof)}

\* ---- what the bytes of a proof are, under the plugin that judges them ----------------------------
\* "valid" (a proof of knowledge of the password labelled Proven), "empty" (no password presented),
\* "malformed" (neither)
Class(p, plugin) ==
    CASE p.k = "password" -> (IF p.pw = "none" THEN "empty" ELSE "valid")
      [] p.k = "exact" -> (IF plugin = "native" THEN "valid" ELSE "malformed")
      [] p.k = "empty" -> "empty"
      [] p.k = "allnul" -> (IF p.n = 1 /\ plugin = "sha2" THEN "empty" ELSE "malformed")
      [] OTHER -> "malformed"
Proven(p) == IF p.k = "password" THEN p.pw ELSE IF p.k = "exact" THEN "pw1" ELSE ""

\* ---- account matching (GetUser) ----------------------------------------------------------------
Candidates(accts, user) ==
    LET exact == {a \in accts : a.user = user /\ ExactLoopback(a.host)}
        named == {a \in accts : a.user = user /\ MatchesClient(a.host)}
        anon == {a \in accts : a.user = "" /\ MatchesClient(a.host)}
    IN IF exact # {} THEN exact ELSE IF named # {} THEN named ELSE anon

\* ---- the decision for one matched account ---------------------------------------------------------
\* caching_sha2_password needs a secure transport here (the server offers no RSA key exchange)
PluginUsable(a, att) == a.plugin = "native" \/ att.tls
\* the client proves knowledge of the account's password, or the account has none and none is presented
KnowsPassword(a, att) ==
    LET c == Class(att.proof, a.plugin) IN
    IF a.pw = "none" THEN c = "empty" ELSE (c = "valid" /\ Proven(att.proof) = a.pw)
Decide(a, att) ==
    IF a.locked # "no" THEN "reject"
    ELSE IF ~PluginUsable(a, att) THEN "reject"
    ELSE IF KnowsPassword(a, att) THEN "accept"
    ELSE "reject"                      \* wrong, missing or malformed credentials

CurrentUser(a) == a.user \o "@" \o a.host
Outcome(a, att) == IF Decide(a, att) = "accept" THEN [o |-> "accept", cu |-> CurrentUser(a)] ELSE [o |-> "reject", cu |-> ""]
Authenticate(accts, att) ==
    IF Candidates(accts, att.user) = {} THEN {[o |-> "reject", cu |-> ""]}
    ELSE {Outcome(a, att) : a \in Candidates(accts, att.user)}

\* ---- enumeration ----------------------------------------------------------------------------------
VARIABLES accts, att
vars == <<accts, att>>
NoAtt == [user |-> "-", tls |-> FALSE, proof |-> Pw("-")]

\* one key set per initial state; the attributes of its accounts and the attempt are chosen in Next
\* (TLC computes initial states on one thread)
Init == /\ \E K \in KeySets : accts = {[user |-> k[1], host |-> k[2], pw |-> "?", plugin |-> "?", locked |-> "?"] : k \in K}
        /\ att = NoAtt
Filled(S) == \A a \in S : a.pw # "?"
Fill == /\ ~Filled(accts)
        /\ \E f \in [accts -> [pw : {"none", "pw1"}, plugin : Plugins, locked : LockKinds]] :
              accts' = {[user |-> a.user, host |-> a.host, pw |-> f[a].pw, plugin |-> f[a].plugin, locked |-> f[a].locked] : a \in accts}
        /\ UNCHANGED att
Try == /\ Filled(accts) /\ att = NoAtt
       /\ \E x \in RunnableAttempts : att' = x
       /\ UNCHANGED accts
Next == Fill \/ Try
Spec == Init /\ [][Next]_vars

Judged == Filled(accts) /\ att # NoAtt
Exp == Authenticate(accts, att)

\* ---- the property, stated declaratively, holds of Authenticate on every enumerated case -------------
TypeOK == accts \subseteq [user : AcctUsers, host : AcctHosts, pw : {"none", "pw1", "?"}, plugin : Plugins \cup {"?"}, locked : LockKinds \cup {"?"}]
                /\ ValidSet(accts)
\* accepted only as an unlocked matching account whose password the client knows under a usable plugin
AcceptSound == Judged => \A e \in Exp : e.o = "accept" =>
    \E a \in accts : /\ CurrentUser(a) = e.cu /\ MatchesClient(a.host) /\ a.user \in {att.user, ""}
                     /\ a.locked = "no" /\ KnowsPassword(a, att) /\ PluginUsable(a, att)
\* malformed proofs, wrong passwords and locked / absent accounts are rejected
MalformedRejected == Judged /\ (\A pl \in Plugins : Class(att.proof, pl) = "malformed") => Exp = {[o |-> "reject", cu |-> ""]}
\* presenting nothing opens only accounts without password; presenting something never opens those
EmptyOnlyPasswordless == Judged => \A a \in accts :
    (\E e \in Exp : e.o = "accept" /\ e.cu = CurrentUser(a)) /\ Candidates(accts, att.user) = {a}
        => (a.pw = "none" <=> Class(att.proof, a.plugin) = "empty")
\* the well-formed scramble is accepted whatever bytes it happens to consist of
ExactAccepted == Judged /\ att.proof.k = "exact" => \A a \in accts :
    (Candidates(accts, att.user) = {a} /\ a.locked = "no" /\ a.plugin = "native" /\ a.pw = "pw1")
        => Exp = {[o |-> "accept", cu |-> CurrentUser(a)]}
WrongRejected == Judged /\ att.proof = Pw("pw2") => Exp = {[o |-> "reject", cu |-> ""]}
NoAccountRejected == Judged /\ (\A a \in accts : ~MatchesClient(a.host) \/ a.user \notin {att.user, ""}) => Exp = {[o |-> "reject", cu |-> ""]}
AllLockedRejected == Judged /\ (\A a \in accts : a.locked # "no") => Exp = {[o |-> "reject", cu |-> ""]}
\* a single matching unlocked account with the right credentials is accepted, as that account
AcceptComplete == Judged =>
    \A a \in accts :
        (/\ Candidates(accts, att.user) = {a} /\ a.locked = "no" /\ KnowsPassword(a, att) /\ PluginUsable(a, att))
        => Exp = {[o |-> "accept", cu |-> CurrentUser(a)]}
\* an exact 'localhost' entry of the user shadows every pattern entry
ExactFirst == Judged => \A a \in accts : (a.user = att.user /\ a.host = "localhost") => Candidates(accts, att.user) = {a}

\* ---- what the binding needs: the account sets and the attempts --------------------------------------
AcctList(S) == S
Emit == IF Filled(accts') /\ ~Filled(accts) THEN PrintT("ACCTS " \o ToJson([accts |-> accts'])) ELSE TRUE
ASSUME PrintT("ATTEMPTS " \o ToJson([attempts |-> RunnableAttempts]))
=============================================================================
