INIT Init
NEXT Next
INVARIANTS TableFunctional RoDbWeaker
PROPERTIES WritesBlocked NothingElse
ACTION_CONSTRAINT Emit
CHECK_DEADLOCK FALSE
