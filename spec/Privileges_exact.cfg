\* account names are exact: the user name u1 at two hosts ("u1" = 'u1'@'localhost', "u1@%" = 'u1'@'%'),
\* accounts created and dropped along the way; random histories, stored state compared after every step
CONSTANTS
  Users = {"u1", "u1@%"}
  Roles = {"r1"}
  Dbs = {"d1"}
  Tbls = {"t1"}
  Privs = {"SELECT", "INSERT", "GRANT OPTION"}
  DynPrivs = {}
  MaxSet = 1
  WithAll = FALSE
  MaxStep = 100
  InitAll = FALSE
INIT Init
NEXT NextSimExact
VIEW View
INVARIANTS TypeOK NoOrphans
PROPERTIES DropForgets
ACTION_CONSTRAINT Emit
CHECK_DEADLOCK FALSE
