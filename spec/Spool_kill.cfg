\* C35: external cancel (KILL QUERY / disconnect) at any step; everything except "ok => complete".
CONSTANTS
  BatchSize = 2
  RowCap = 2
  ResCap = 1
  MaxRows = 5
  Kills = TRUE
  Timeouts = FALSE
  CtxAwareIter = TRUE
  Faults = TRUE
INIT Init
NEXT Next
INVARIANTS TypeOK InOrder BatchSizes MoreFlags Conservation ErrorReturned NoSendOnClosed Joined
PROPERTY RefinesNoOk
ACTION_CONSTRAINT SumEmit
CHECK_DEADLOCK TRUE
