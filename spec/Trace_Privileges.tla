------------------------ MODULE Trace_Privileges ------------------------
(* C39 / C41, binding B.  priv_trace.ndjson is what harness/cmd/priv recorded while it replayed
   TLC-generated histories on the real engine (privilege database enabled), one event per line:

     reset   st                       a new history starts in the abstract state st
     step    act ret msg st           the step as real SQL (run by a super user, SET ROLE in the user's own
                                      session); ret = ok | error | denied | panic; st = the engine's
                                      stored access-control state read back after the step
     matrix  rows st                  the probe matrix: one statement of every privilege class per
                                      object run as every user; row = [u, cls, db, tbl, out, unch]
                                      out = allow | deny | error | panic, unch = data projection
                                      after the statement equals the one before it; st = the stored
                                      access-control state read back after the probes (they do not
                                      change it: an allowed probe is undone, a denied one has no effect)
     reload  ret gb ga stb sta mb ma  C41: SHOW GRANTS of every account, stored state and probe matrix
                                      before (b) and after (a) persist -> load into a fresh engine

   The stored state of an account is [a, locked, pw, g, d]: g = the static grant atoms, d = the dynamic
   privileges it holds, each with its own grant-option flag.

   The steps are applied to the Privileges state with the specification's own actions; everything
   recorded is judged against that state (constraint Judge).  Disagreements are printed as
   MM <json> and validation continues: after a step whose recorded state differs, the next trace
   step first re-synchronises the specification state to the recorded one.  Acceptance is the
   high-water mark of l. *)
EXTENDS Privileges

TraceLog == ndJsonDeserialize("priv_trace.ndjson")

VARIABLE l
tvars == <<exists, grants, dyn, edges, locked, pw, active, defrole, act, ret, eff, step, l>>

\* ---- recorded state <-> specification state -----------------------------------------------------
Known(g) == {y \in RangeOf(g) : y.p \in AllPrivs}           \* privileges outside the model are not compared
KnownDyn(d) == {[p |-> y.p, wgo |-> y.wgo] : y \in {z \in RangeOf(d) : z.p \in DynPrivs}}   \* name and OWN flag
LogAccts(st) == {[a |-> x.a, locked |-> x.locked, pw |-> x.pw, g |-> Known(x.g), d |-> KnownDyn(x.d)] : x \in RangeOf(st.accts)}
LogEdges(st) == {[r |-> x.r, to |-> x.to, adm |-> x.adm] : x \in RangeOf(st.edges)}
SpecAccts == {[a |-> a, locked |-> locked[a], pw |-> pw[a], g |-> grants[a], d |-> dyn[a]] : a \in exists}
SameState(st) == LogAccts(st) = SpecAccts /\ LogEdges(st) = edges
\* which components differ (for the signature of a mismatch)
DiffWhat(A, B, EA, EB) ==
    (IF {x.a : x \in A} # {x.a : x \in B} THEN {"accounts"} ELSE {})
    \cup (IF {<<x.a, x.g>> : x \in A} # {<<x.a, x.g>> : x \in B} THEN {"grants"} ELSE {})
    \cup (IF {<<x.a, {y.p : y \in x.d}>> : x \in A} # {<<x.a, {y.p : y \in x.d}>> : x \in B} THEN {"dynamic"}
          ELSE IF {<<x.a, x.d>> : x \in A} # {<<x.a, x.d>> : x \in B} THEN {"dynamic-grant-option"} ELSE {})
    \cup (IF {<<x.a, x.locked>> : x \in A} # {<<x.a, x.locked>> : x \in B} THEN {"locked"} ELSE {})
    \cup (IF {<<x.a, x.pw>> : x \in A} # {<<x.a, x.pw>> : x \in B} THEN {"password"} ELSE {})
    \cup (IF {<<e.r, e.to>> : e \in EA} # {<<e.r, e.to>> : e \in EB} THEN {"role-edges"}
          ELSE IF EA # EB THEN {"admin-option"} ELSE {})

Pick(S, a, dflt, f) == IF \E x \in S : x.a = a THEN (CHOOSE x \in S : x.a = a)[f] ELSE dflt
LoadAccts(A, E) ==
    /\ exists' = {x.a : x \in A} \cap Accts
    /\ grants' = [a \in Accts |-> Pick(A, a, {}, "g")]
    /\ dyn' = [a \in Accts |-> Pick(A, a, {}, "d")]
    /\ locked' = [a \in Accts |-> Pick(A, a, FALSE, "locked")]
    /\ pw' = [a \in Accts |-> Pick(A, a, "none", "pw")]
    /\ edges' = {e \in E : e.r \in Roles /\ e.to \in Users}

\* ---- the trace steps ------------------------------------------------------------------------------
Obj(a) == [db |-> a.db, tbl |-> a.tbl]
StepDefined(a) ==
    CASE a.name = "RevokePriv" -> RevokeDefined(a.a, Obj(a), RangeOf(a.ps))
      [] a.name = "GrantPriv" -> GrantOptionDefined(a.a, Obj(a), RangeOf(a.ps))
      [] a.name = "GrantDyn" -> DynGrantDefined(a.a, RangeOf(a.ps), a.wgo)
      [] a.name = "GrantRole" -> GrantRoleDefined(a.r, a.a, a.adm)
      [] a.name \in {"SetRole", "SetDefaultRole", "Reconnect"} -> a.a \in exists
      [] OTHER -> TRUE
Skip(a) == /\ act' = a /\ ret' = "undefined" /\ eff' = "none" /\ step' = step + 1
           /\ UNCHANGED stvars
ApplyAct(a) ==
    IF ~StepDefined(a) THEN Skip(a)
    ELSE \/ a.name = "CreateUser" /\ CreateUser(a.a, a.pw)
         \/ a.name = "CreateRole" /\ CreateRole(a.a)
         \/ a.name = "DropAcct" /\ DropAcct(a.a)
         \/ a.name = "GrantPriv" /\ GrantPriv(a.a, Obj(a), RangeOf(a.ps))
         \/ a.name = "RevokePriv" /\ RevokePriv(a.a, Obj(a), RangeOf(a.ps))
         \/ a.name = "GrantDyn" /\ GrantDyn(a.a, RangeOf(a.ps), a.wgo)
         \/ a.name = "RevokeDyn" /\ RevokeDyn(a.a, RangeOf(a.ps))
         \/ a.name = "GrantRole" /\ GrantRole(a.r, a.a, a.adm)
         \/ a.name = "RevokeRole" /\ RevokeRole(a.r, a.a)
         \/ a.name = "SetRole" /\ SetRole(a.a, a.m)
         \/ a.name = "SetDefaultRole" /\ SetDefaultRole(a.a, a.m)
         \/ a.name = "Reconnect" /\ Reconnect(a.a)
         \/ a.name = "PersistReload" /\ PersistReload

Prev == TraceLog[l - 1]
HasSt(e) == e.ev = "step" \/ (e.ev = "matrix" /\ "st" \in DOMAIN e)
NeedResync == l > 1 /\ HasSt(Prev) /\ act.name # "resynced" /\ ~SameState(Prev.st)
Resync ==
    /\ LoadAccts(LogAccts(Prev.st), LogEdges(Prev.st))
    /\ act' = [name |-> "resynced"]
    /\ UNCHANGED <<active, defrole, ret, eff, step, l>>

TInit == Init /\ l = 1
TNext ==
    IF NeedResync THEN Resync
    ELSE /\ l <= Len(TraceLog)
         /\ l' = l + 1
         /\ LET e == TraceLog[l] IN
            \/ /\ e.ev = "reset"
               /\ LoadAccts(LogAccts(e.st), LogEdges(e.st))
               /\ active' = [u \in Users |-> IF u \in DOMAIN e.st.active THEN e.st.active[u] ELSE "all"]
               /\ defrole' = [u \in Users |-> IF u \in DOMAIN e.st.defrole THEN e.st.defrole[u] ELSE "all"]
               /\ act' = [name |-> "reset"] /\ ret' = "none" /\ eff' = "none" /\ step' = 0
            \/ e.ev = "step" /\ ApplyAct(e.act)
            \/ /\ e.ev \in {"matrix", "reload"}
               /\ act' = [name |-> e.ev]
               /\ UNCHANGED <<exists, grants, dyn, edges, locked, pw, active, defrole, ret, eff, step>>

\* ---- judging what was recorded (CONSTRAINT, evaluated on the state reached by line l - 1) ---------
MM(r) == PrintT("MM " \o ToJson(r))

JudgeStep(i, e) ==
    /\ (IF ret = "undefined" THEN PrintT("UNDEF " \o ToJson([l |-> i, h |-> e.h, act |-> e.act.name])) ELSE TRUE)
    /\ (IF e.ret = ret \/ ret = "undefined" THEN TRUE
        \* a REVOKE of something not held may answer either way (the state is judged below)
        ELSE IF ret = "ok|error" /\ e.ret \in {"ok", "error"} THEN TRUE
        ELSE MM([l |-> i, h |-> e.h, kind |-> "ret", act |-> e.act.name, engine |-> e.ret, msg |-> IF "msg" \in DOMAIN e THEN e.msg ELSE "", spec |-> ret]))
    /\ (IF SameState(e.st) THEN TRUE
        ELSE MM([l |-> i, h |-> e.h, kind |-> "state", act |-> e.act.name, actrec |-> e.act,
                 what |-> DiffWhat(SpecAccts, LogAccts(e.st), edges, LogEdges(e.st)),
                 spec |-> [accts |-> SpecAccts, edges |-> edges],
                 engine |-> [accts |-> LogAccts(e.st), edges |-> LogEdges(e.st)]]))

RowBad(r) ==
    LET req == Requirement(r.cls, r.db, r.tbl)
        dev == Allowed(r.u, req)
        strict == AllowedStrict(r.u, req)
        want == IF dev THEN "allow" ELSE "deny"
    IN IF ~ProbeDefined(r.cls, r.db) THEN "ok"
       ELSE IF r.out # want THEN "probe"
       ELSE IF r.out = "allow" /\ ~strict THEN "nonactive-role"
       ELSE IF r.out # "allow" /\ ~r.unch THEN "effect"
       ELSE "ok"
RowMM(i, h, r, pfx) ==
    LET req == Requirement(r.cls, r.db, r.tbl) IN
    MM([l |-> i, h |-> h, kind |-> pfx \o RowBad(r), u |-> r.u, cls |-> r.cls, db |-> r.db, tbl |-> r.tbl,
        engine |-> r.out, unch |-> r.unch,
        sat |-> Satisfied(r.u, Eff(r.u, AllGrantedRolesActive(r.u)), req),
        allroles |-> IF Allowed(r.u, req) THEN "allow" ELSE "deny",
        strict |-> IF AllowedStrict(r.u, req) THEN "allow" ELSE "deny"])
JudgeRows(i, h, rows, pfx) ==
    /\ \A k \in DOMAIN rows : (RowBad(rows[k]) = "ok" \/ RowMM(i, h, rows[k], pfx))
    /\ PrintT("ST " \o ToJson([l |-> i, h |-> h, rows |-> Len(rows),
                                allowed |-> Cardinality({k \in DOMAIN rows : Allowed(rows[k].u, Requirement(rows[k].cls, rows[k].db, rows[k].tbl))})]))

\* running statements as the users leaves the stored access-control state alone
JudgeMatrixState(i, e) ==
    IF ~HasSt(e) \/ SameState(e.st) THEN TRUE
    ELSE MM([l |-> i, h |-> e.h, kind |-> "matrix-state", act |-> "matrix",
             what |-> DiffWhat(SpecAccts, LogAccts(e.st), edges, LogEdges(e.st)),
             spec |-> [accts |-> SpecAccts, edges |-> edges],
             engine |-> [accts |-> LogAccts(e.st), edges |-> LogEdges(e.st)]])

GSet(gs) == {[a |-> x.a, g |-> RangeOf(x.g)] : x \in RangeOf(gs)}
\* the dynamic privileges SHOW GRANTS prints for the model's accounts (sd = the replayer's reading of the
\* lines that name dynamic privileges: name and whether that line ends in WITH GRANT OPTION)
ShownDyn(gs) == {[a |-> x.a, d |-> KnownDyn(x.sd)] : x \in {y \in RangeOf(gs) : y.a \in Accts}}
SpecDyn == {[a |-> a, d |-> dyn[a]] : a \in exists}
RowKey(r) == <<r.u, r.cls, r.db, r.tbl>>
JudgeReload(i, e) ==
    /\ (IF e.ret = "ok" THEN TRUE ELSE MM([l |-> i, h |-> e.h, kind |-> "reload-error", msg |-> IF "msg" \in DOMAIN e THEN e.msg ELSE ""]))
    \* the same SHOW GRANTS output for every account
    /\ (IF GSet(e.gb) = GSet(e.ga) THEN TRUE
        ELSE MM([l |-> i, h |-> e.h, kind |-> "reload-showgrants",
                 before |-> GSet(e.gb) \ GSet(e.ga), after |-> GSet(e.ga) \ GSet(e.gb)]))
    \* ... which, for the dynamic privileges, is what the specification state says (before and after)
    /\ (IF ShownDyn(e.gb) = SpecDyn THEN TRUE
        ELSE MM([l |-> i, h |-> e.h, kind |-> "showgrants-dyn", shown |-> ShownDyn(e.gb) \ SpecDyn, spec |-> SpecDyn \ ShownDyn(e.gb)]))
    /\ (IF e.ret # "ok" \/ ShownDyn(e.ga) = SpecDyn THEN TRUE
        ELSE MM([l |-> i, h |-> e.h, kind |-> "reload-showgrants-dyn", shown |-> ShownDyn(e.ga) \ SpecDyn, spec |-> SpecDyn \ ShownDyn(e.ga)]))
    \* the same stored state, and the one the specification is in (Reload = identity)
    /\ (IF LogAccts(e.stb) = LogAccts(e.sta) /\ LogEdges(e.stb) = LogEdges(e.sta) THEN TRUE
        ELSE MM([l |-> i, h |-> e.h, kind |-> "reload-state",
                 what |-> DiffWhat(LogAccts(e.stb), LogAccts(e.sta), LogEdges(e.stb), LogEdges(e.sta)),
                 before |-> [accts |-> LogAccts(e.stb) \ LogAccts(e.sta), edges |-> LogEdges(e.stb) \ LogEdges(e.sta)],
                 after |-> [accts |-> LogAccts(e.sta) \ LogAccts(e.stb), edges |-> LogEdges(e.sta) \ LogEdges(e.stb)]]))
    /\ (IF SameState(e.sta) THEN TRUE
        ELSE MM([l |-> i, h |-> e.h, kind |-> "reload-state-spec",
                 what |-> DiffWhat(SpecAccts, LogAccts(e.sta), edges, LogEdges(e.sta))]))
    \* the same allow/deny decisions, and the ones the specification gives
    /\ \A k \in DOMAIN e.mb :
          (k \in DOMAIN e.ma /\ RowKey(e.ma[k]) = RowKey(e.mb[k]) /\ e.ma[k].out = e.mb[k].out)
          \/ MM([l |-> i, h |-> e.h, kind |-> "reload-matrix", u |-> e.mb[k].u, cls |-> e.mb[k].cls, db |-> e.mb[k].db,
                 tbl |-> e.mb[k].tbl, before |-> e.mb[k].out, after |-> IF k \in DOMAIN e.ma THEN e.ma[k].out ELSE "missing"])
    /\ JudgeRows(i, e.h, e.mb, "reload-before-")
    /\ JudgeRows(i, e.h, e.ma, "reload-after-")

Judge ==
    (l > 1 /\ ~(act.name = "resynced")) =>
        LET e == Prev IN
        CASE e.ev = "step" -> JudgeStep(l - 1, e)
          [] e.ev = "matrix" -> JudgeRows(l - 1, e.h, e.rows, "") /\ JudgeMatrixState(l - 1, e)
          [] e.ev = "reload" -> JudgeReload(l - 1, e)
          [] OTHER -> TRUE
HW == TLCSet(1, l)                          \* high-water mark of the validated prefix
Accepted == TLCGet(1) = Len(TraceLog) + 1   \* POSTCONDITION
=============================================================================
