--------------------------- MODULE Trace_StrFuncs ---------------------------
(* C34, binding B: laws on RECORDED values.  trace.ndjson lines (written by harness/cmd/c34 gen/exec):
     {"ev": kind, "id": n, "tag": .., "in": {inputs}, "r": {name: tagged value}}
   kinds: str (string-function identities), nullarg (NULL propagation), hex, b64, conv, inet, inet6,
   zip (inverse pairs), round (ROUND / TRUNCATE / FLOOR / CEIL bounds on integers scaled by 10^4).
   Tagged values: {"t":"n"} NULL, {"t":"i","i":n}, {"t":"s","s":[code points]}, {"t":"x","x":[bytes]},
   {"t":"e"} error, {"t":"o","o":text} anything else.
   Every line is consumed; the failed laws of a line are printed as  MM {l, id, ev, tag, bad}  and
   every line prints  ST {l, nt}  (nt = the line exercises at least one law non-trivially). *)
EXTENDS StrFuncs, Json

TraceLog == ndJsonDeserialize("trace.ndjson")

VARIABLES l
vars == <<l>>

IsS(v) == v.t = "s"
IsI(v) == v.t = "i"
IsNull(v) == v.t = "n"
IntEq(v, n) == v.t = "i" /\ v.i = n
StrEq(v, s) == v.t = "s" /\ v.s = s
BytesEq(v, b) == (v.t = "x" /\ v.x = b) \/ (v.t = "s" /\ Bytes(v.s) = b)
AllS(r, names) == \A n \in names : IsS(r[n])
AllI(r, names) == \A n \in names : IsI(r[n])
Abs(x) == IF x < 0 THEN -x ELSE x

\* ------------------------------------------------------------------ reference encodings
RECURSIVE Digits(_)
Digits(n) == IF n < 10 THEN <<48 + n>> ELSE Digits(n \div 10) \o <<48 + (n % 10)>>
Dig(d) == IF d < 10 THEN 48 + d ELSE 55 + d                 \* 0-9 A-Z
RECURSIVE ToBase(_, _)
ToBase(n, b) == IF n < b THEN <<Dig(n)>> ELSE ToBase(n \div b, b) \o <<Dig(n % b)>>
HexOfByte(x) == <<Dig(x \div 16), Dig(x % 16)>>
RECURSIVE HexOf(_)
HexOf(bs) == IF bs = <<>> THEN <<>> ELSE HexOfByte(Head(bs)) \o HexOf(Tail(bs))
Dotted(q) == Digits(q[1]) \o <<46>> \o Digits(q[2]) \o <<46>> \o Digits(q[3]) \o <<46>> \o Digits(q[4])
RECURSIVE GroupBytes(_)
GroupBytes(g) == IF g = <<>> THEN <<>> ELSE <<Head(g) \div 256, Head(g) % 256>> \o GroupBytes(Tail(g))
\* base 64 (RFC 4648 alphabet, '=' padding), as the manual describes TO_BASE64
B64Char(v) == IF v < 26 THEN 65 + v ELSE IF v < 52 THEN 71 + v ELSE IF v < 62 THEN v - 4 ELSE IF v = 62 THEN 43 ELSE 47
RECURSIVE B64(_)
B64(bs) ==
  IF bs = <<>> THEN <<>>
  ELSE IF Len(bs) = 1 THEN <<B64Char(bs[1] \div 4), B64Char((bs[1] % 4) * 16), 61, 61>>
  ELSE IF Len(bs) = 2 THEN <<B64Char(bs[1] \div 4), B64Char((bs[1] % 4) * 16 + (bs[2] \div 16)), B64Char((bs[2] % 16) * 4), 61>>
  ELSE <<B64Char(bs[1] \div 4), B64Char((bs[1] % 4) * 16 + (bs[2] \div 16)),
         B64Char((bs[2] % 16) * 4 + (bs[3] \div 64)), B64Char(bs[3] % 64)>> \o B64(SubSeq(bs, 4, Len(bs)))
Pow10(n) == CASE n = 0 -> 1 [] n = 1 -> 10 [] n = 2 -> 100 [] n = 3 -> 1000 [] n = 4 -> 10000
              [] n = 5 -> 100000 [] n = 6 -> 1000000 [] n = 7 -> 10000000

\* ------------------------------------------------------------------ laws: <<name, holds>> pairs per event
NoOcc(u, s, from, to) == \A q \in from..to : ~OccursAt(u, s, q)

StrLaws(i, r) ==
  LET s == i.s  t == i.t  u == i.u  sp == i.sp  n == i.n  m == i.m  ls == Len(s) IN
  << <<"charlen", IntEq(r.cl_s, ls) /\ IntEq(r.cl_t, Len(t)) /\ IntEq(r.cl_u, Len(u))>>,
     <<"bytelen", IntEq(r.bl_s, ByteLen(s)) /\ IntEq(r.bl_t, ByteLen(t))>>,
     <<"concat-charlen", AllI(r, {"cl_st", "cl_s", "cl_t"}) /\ r.cl_st.i = r.cl_s.i + r.cl_t.i>>,
     <<"concat-bytelen", AllI(r, {"bl_st", "bl_s", "bl_t"}) /\ r.bl_st.i = r.bl_s.i + r.bl_t.i>>,
     <<"concat-value", StrEq(r.cat, s \o t)>>,
     <<"reverse-involution", StrEq(r.revrev, s) /\ IsS(r.rev) /\ Len(r.rev.s) = ls /\ IntEq(r.cl_rev, ls)>>,
     <<"left-rest", AllS(r, {"left", "rest"}) /\ r.left.s \o r.rest.s = s /\ Len(r.left.s) = Min2(n, ls)>>,
     <<"right-subneg", IsS(r.right) /\ Len(r.right.s) = Min2(n, ls) /\ IsSuffix(r.right.s, s)
                       /\ (n >= 1 /\ n <= ls => StrEq(r.subneg, r.right.s))>>,
     <<"substring3", IsS(r.sub3) /\ (IF m <= ls THEN IsPrefix(r.sub3.s, Drop(s, m - 1)) /\ Len(r.sub3.s) = Min2(n, ls - m + 1)
                                     ELSE r.sub3.s = <<>>)>>,
     <<"locate-substring", IsI(r.loc) /\ (IF r.loc.i = 0 THEN u # <<>> /\ NoOcc(u, s, 1, ls)
                                          ELSE OccursAt(u, s, r.loc.i) /\ NoOcc(u, s, 1, r.loc.i - 1) /\ StrEq(r.at, u))>>,
     <<"locate-instr-position", AllI(r, {"loc", "instr", "pos"}) /\ r.instr.i = r.loc.i /\ r.pos.i = r.loc.i>>,
     <<"locate-from", u # <<>> => IsI(r.loc3) /\ (IF r.loc3.i = 0 THEN NoOcc(u, s, m, ls)
                                                   ELSE r.loc3.i >= m /\ OccursAt(u, s, r.loc3.i) /\ NoOcc(u, s, m, r.loc3.i - 1)
                                                        /\ StrEq(r.at3, u))>>,
     <<"insert-composition", IF m <= ls THEN AllS(r, {"ins", "insl", "insr"}) /\ r.ins.s = r.insl.s \o t \o r.insr.s
                             ELSE StrEq(r.ins, s)>>,
     <<"huge-count-saturates", AllS(r, {"left_h", "right_h", "sub3_h", "ins_h"})   \* a count beyond the string length acts like the length
                               /\ r.left_h.s = s /\ r.right_h.s = s
                               /\ r.sub3_h.s = (IF m <= ls THEN Drop(s, m - 1) ELSE <<>>)
                               /\ r.ins_h.s = (IF m <= ls THEN Take(s, m - 1) \o t ELSE s)>>,
     <<"lpad", (u # <<>> \/ n <= ls) =>
                 /\ IsS(r.lpad) /\ Len(r.lpad.s) = n /\ IntEq(r.cl_lpad, n)
                 /\ (n <= ls => r.lpad.s = Take(s, n))
                 /\ (n > ls => IsSuffix(s, r.lpad.s) /\ IsPrefix(Take(r.lpad.s, n - ls), Rep(u, n)))>>,
     <<"rpad", (u # <<>> \/ n <= ls) =>
                 /\ IsS(r.rpad) /\ Len(r.rpad.s) = n /\ IntEq(r.cl_rpad, n)
                 /\ (n <= ls => r.rpad.s = Take(s, n))
                 /\ (n > ls => IsPrefix(s, r.rpad.s) /\ IsPrefix(Drop(r.rpad.s, ls), Rep(u, n)))>>,
     <<"replace-length", u # <<>> => AllI(r, {"cl_s", "cl_rep", "cl_rep0"}) /\
                           LET k == r.cl_s.i - r.cl_rep0.i IN
                           k >= 0 /\ k % Len(u) = 0 /\ r.cl_rep.i = r.cl_s.i + (k \div Len(u)) * (Len(t) - Len(u))>>,
     <<"replace-occurrences", u # <<>> => AllS(r, {"rep", "rep0"}) /\ (r.rep0.s = s <=> NoOcc(u, s, 1, ls))
                                          /\ (NoOcc(u, s, 1, ls) => r.rep.s = s)>>,
     <<"replace-identity", StrEq(r.repid, s)>>,
     <<"trim", AllS(r, {"trim", "ltrim", "rtrim", "lrtrim"}) /\ r.trim.s = r.lrtrim.s /\
               LET a == Len(sp) - Len(r.ltrim.s)  b == Len(sp) - Len(r.rtrim.s) IN
               /\ a >= 0 /\ r.ltrim.s = Drop(sp, a) /\ (\A j \in 1..a : sp[j] = 32) /\ (r.ltrim.s = <<>> \/ r.ltrim.s[1] # 32)
               /\ b >= 0 /\ r.rtrim.s = Take(sp, Len(sp) - b) /\ (\A j \in (Len(sp) - b + 1)..Len(sp) : sp[j] = 32)
               /\ (r.rtrim.s = <<>> \/ r.rtrim.s[Len(r.rtrim.s)] # 32)
               /\ (r.trim.s = <<>> \/ (r.trim.s[1] # 32 /\ r.trim.s[Len(r.trim.s)] # 32))
               /\ (r.ltrim.s # <<>> => Len(r.trim.s) = Len(sp) - a - b)>>,
     <<"repeat", IsS(r["repeat"]) /\ Len(r["repeat"].s) = n * Len(u) /\ IntEq(r.cl_repeat, n * Len(u))
                 /\ (u # <<>> => StrEq(r.unrep, <<>>))>>,
     <<"case-mapping", AllS(r, {"low", "lowup", "uplow", "up"}) /\ r.lowup.s = r.low.s /\ r.uplow.s = r.up.s /\ Len(r.up.s) = ls>> >>

NullLaws(i, r) == << <<"null-propagation", \A n \in DOMAIN r : IsNull(r[n])>> >>

HexLaws(i, r) ==
  << <<"hex-digits", StrEq(r.h, HexOf(i.x)) /\ StrEq(r.hs, HexOf(Bytes(i.s)))>>,
     <<"unhex-inverse", BytesEq(r.u, i.x) /\ BytesEq(r.ul, i.x) /\ BytesEq(r.us, Bytes(i.s))>>,
     <<"unhex-invalid-null", "bad" \in DOMAIN r => IsNull(r.bad)>> >>

B64Laws(i, r) ==
  << <<"b64-inverse", BytesEq(r.back, i.x)>>,
     <<"b64-encoding", IsS(r.b) /\ SelectSeq(r.b.s, LAMBDA c : c # 10) = B64(i.x)
                       /\ (\A j \in DOMAIN r.b.s : r.b.s[j] = 10 <=> j % 77 = 0) /\ (r.b.s = <<>> \/ Len(r.b.s) % 77 # 0)>>,
     <<"b64-invalid-null", IsNull(r.bad_char) /\ IsNull(r.bad_len)>>,
     <<"b64-valid-decodes", r.good.t = "x" /\ Len(r.good.x) * 4 = 3 * (4 * (1 + (i.p % 3)))>> >>

ConvLaws(i, r) ==
  << <<"conv-digits", StrEq(r.c, ToBase(i.n, i.b)) /\ StrEq(r.cs, ToBase(i.n, i.b))>>,
     <<"conv-inverse", StrEq(r.back, Digits(i.n)) /\ StrEq(r.backl, Digits(i.n))>> >>

InetLaws(i, r) ==
  << <<"aton-value", IntEq(r.hi, i.q[1] * 256 + i.q[2]) /\ IntEq(r.lo, i.q[3] * 256 + i.q[4])>>,
     <<"ntoa-inverse", StrEq(r.ntoa, Dotted(i.q))>>,
     <<"aton-invalid-null", IsNull(r.bad)>> >>

Inet6Laws(i, r) ==
  << <<"inet6-aton-bytes", StrEq(r.hx, HexOf(GroupBytes(i.g)))>>,
     <<"inet6-inverse", IsS(r.nt) /\ StrEq(r.back, HexOf(GroupBytes(i.g)))>> >>

ZipLaws(i, r) ==
  << <<"uncompress-inverse", BytesEq(r.u, Bytes(i.s))>>,
     <<"uncompressed-length", IntEq(r.ul, ByteLen(i.s)) /\ IntEq(r.bl, ByteLen(i.s))>>,
     <<"compress-empty", IntEq(r.ce, 0)>> >>

\* X = the argument scaled by 10^4; P = 10^(4 - d): one unit of the last kept digit, scaled
RoundLaws(i, r) ==
  LET X == (IF i.neg THEN -1 ELSE 1) * (i.ip * 10000 + i.fv * Pow10(4 - i.fd))
      P == Pow10(4 - i.d)
      U == 10000 IN
  << <<"round-half-unit", IsI(r.rd) /\ r.rd.i % P = 0 /\ 2 * Abs(r.rd.i - X) <= P
                          /\ (2 * Abs(r.rd.i - X) = P => Abs(r.rd.i) > Abs(X))>>,
     <<"round-default-scale", IsI(r.r0) /\ r.r0.i % U = 0 /\ 2 * Abs(r.r0.i - X) <= U
                              /\ (2 * Abs(r.r0.i - X) = U => Abs(r.r0.i) > Abs(X))>>,
     <<"truncate-toward-zero", IsI(r.tr) /\ r.tr.i % P = 0 /\ Abs(r.tr.i) <= Abs(X) /\ Abs(X) - Abs(r.tr.i) < P
                               /\ (r.tr.i = 0 \/ (r.tr.i > 0 <=> X > 0))>>,
     <<"floor", IsI(r.fl) /\ r.fl.i % U = 0 /\ r.fl.i <= X /\ X < r.fl.i + U>>,
     <<"ceil", AllI(r, {"ce", "cg"}) /\ r.ce.i % U = 0 /\ r.ce.i >= X /\ X > r.ce.i - U /\ r.cg.i = r.ce.i>> >>

LawsOf(e) ==
  CASE e.ev = "str" -> StrLaws(e.in, e.r)
    [] e.ev = "nullarg" -> NullLaws(e.in, e.r)
    [] e.ev = "hex" -> HexLaws(e.in, e.r)
    [] e.ev = "b64" -> B64Laws(e.in, e.r)
    [] e.ev = "conv" -> ConvLaws(e.in, e.r)
    [] e.ev = "inet" -> InetLaws(e.in, e.r)
    [] e.ev = "inet6" -> Inet6Laws(e.in, e.r)
    [] e.ev = "zip" -> ZipLaws(e.in, e.r)
    [] e.ev = "round" -> RoundLaws(e.in, e.r)

\* non-trivial: the line exercises its laws on a non-degenerate input
NonTrivial(e) ==
  CASE e.ev = "str" -> e.in.s # <<>> /\ e.in.u # <<>>
    [] e.ev \in {"hex", "b64"} -> e.in.x # <<>>
    [] e.ev = "conv" -> e.in.n >= e.in.b
    [] e.ev = "zip" -> e.in.s # <<>>
    [] e.ev = "round" -> e.in.fd > 0 /\ e.in.fv # 0
    [] OTHER -> TRUE

Init == l = 1
Next ==
  /\ l <= Len(TraceLog)
  /\ l' = l + 1
  /\ LET e == TraceLog[l]
         laws == LawsOf(e)
         bad == {laws[k][1] : k \in {k \in DOMAIN laws : ~laws[k][2]}} IN
     /\ (bad = {} \/ PrintT("MM " \o ToJson([l |-> l, id |-> e.id, ev |-> e.ev, tag |-> e.tag, bad |-> bad])))
     /\ PrintT("ST " \o ToJson([l |-> l, nt |-> NonTrivial(e)]))

HW == TLCSet(1, l)
Accepted == TLCGet(1) = Len(TraceLog) + 1
=============================================================================
