\* random behaviours for the gated replay (tlc -simulate): 4 calls per session, Lock timeouts that the
\* replay can control (< 0 and 0); every invariant is checked along the behaviours too.
CONSTANTS
  Sess = {1, 2, 3}
  Names = {"a", "b"}
  Budget <- B4
  Timeouts = {"inf", "zero"}
  Monitor = FALSE
  Record = TRUE
INIT Init
NEXT Next
INVARIANTS TypeOK AtMostOneOwner HoldersIsOwner CountPositiveWhenOwned OwnedImpliesRegistered CreatedOK Linearizable GhostIsReal
ACTION_CONSTRAINT Emit
CHECK_DEADLOCK FALSE
