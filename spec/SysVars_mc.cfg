CONSTANTS
  Sessions = {1, 2}
  ModelVars = {"big_tables", "max_connections"}
  UserVars = {"u1"}
  MaxSteps = 3
INIT Init
NEXT Next
INVARIANTS TypeOK
PROPERTIES SessionIsolation GlobalNotSession GlobalSeenByNew RejectedHasNoEffect
CHECK_DEADLOCK FALSE
