CONSTANT Family = "cast"
INIT SInit
NEXT SNext
INVARIANT CasesOK
ACTION_CONSTRAINT Emit
CHECK_DEADLOCK FALSE
