---------------------------- MODULE Trace_Locks ----------------------------
(* C38, binding B.  Recorded histories of calls on the real sql.LockSubsystem are checked for
   linearizability against LockAtomic: TLC searches an order of the calls that (1) respects real
   time - a call that returned before another one started comes first (start/end stamps are taken
   from ONE atomic counter around the real call, so they never tie) - and (2) makes every call
   return exactly what LockAtomic!Apply returns in that order.

   TraceLog is ndjson, ONE HISTORY PER LINE:  {"h": id, "calls": [call, ...]},
   call = {s, k, n, t, st, en, rs, ri, p}: session, kind, name, timeout class, start stamp, end stamp,
   reply word, reply number, pending (invoked but not returned when the recording stopped: it may
   have taken effect or not, its reply is unknown).
   Every history is an initial state (instead of a chain with reset events), so one run judges all
   histories independently: a history is linearizable iff TLC reaches a state where all its calls
   are placed, which prints "LIN <h>".  The caller compares the set of printed ids with the file.

   split = TRUE is the weaker reading of ReleaseAll (its locks are freed one after the other, each
   atomically, anywhere inside the call); it is only used to classify a history that fails the
   strict reading and prints "LINS <h>".  Modes = {FALSE} judges the strict reading only,
   {FALSE, TRUE} both in one run. *)
EXTENDS LockAtomic, Sequences, TLC, Json

CONSTANTS Modes      \* subset of BOOLEAN: the readings of ReleaseAll to try (FALSE = atomic, TRUE = lock by lock)
TraceLog == ndJsonDeserialize("trace_locks.ndjson")

VARIABLES h,      \* index of the history in TraceLog
          split,  \* the reading of ReleaseAll used for this search
          done,   \* calls already placed in the linearisation
          part    \* lock-by-lock reading: part[i] = locks already freed by the running ReleaseAll number i
tvars == <<ast, h, split, done, part>>

C == TraceLog[h].calls
N == Len(C)
OpOf(c) == [k |-> c.k, n |-> c.n, t |-> c.t]

\* the reply as LockAtomic words it (see LockSubsystem!ProjRet)
Reply(c) ==
    IF c.k = "unlock" /\ c.rs \in {"noexist", "notowned"} THEN R("fail", 0)
    ELSE IF c.k = "state" /\ c.rs = "noexist" THEN R("free", 0)
    ELSE R(c.rs, c.ri)

\* i may be placed next: everything that returned before i started is already placed
Ready(i) == /\ i \notin done
            /\ \A j \in 1..N : (j \notin done /\ j # i) => ~(C[j].en < C[i].st)

TInit == /\ h \in 1..Len(TraceLog)
         /\ split \in Modes
         /\ done = {}
         /\ ast = AInit
         /\ part = [i \in 1..Len(TraceLog[h].calls) |-> 0]

Place(i) ==
    /\ Ready(i)
    /\ ~(split /\ C[i].k = "relall")
    /\ Enabled(ast, C[i].s, OpOf(C[i]))
    /\ LET a == Apply(ast, C[i].s, OpOf(C[i])) IN
       /\ C[i].p \/ a.ret = Reply(C[i])
       /\ ast' = a.st
    /\ done' = done \cup {i}
    /\ UNCHANGED <<h, split, part>>

\* lock-by-lock reading of ReleaseAll: free one lock of the caller ...
RelPart(i, n) ==
    /\ split /\ Ready(i) /\ C[i].k = "relall"
    /\ ast.own[n] = C[i].s
    /\ ast' = FreeAll(ast, {n})
    /\ part' = [part EXCEPT ![i] = @ + 1]
    /\ UNCHANGED <<h, split, done>>
\* ... and return once nothing is left, with the number freed
RelEnd(i) ==
    /\ split /\ Ready(i) /\ C[i].k = "relall"
    /\ C[i].p \/ (Owned(ast, C[i].s) = {} /\ part[i] = C[i].ri)
    /\ done' = done \cup {i}
    /\ UNCHANGED <<ast, h, split, part>>

TNext == \E i \in 1..N : Place(i) \/ RelEnd(i) \/ \E n \in Names : RelPart(i, n)

\* a pending call need not be placed at all
Complete == \A i \in 1..N : i \in done \/ C[i].p
Report == ~Complete \/ PrintT((IF split THEN "LINS " ELSE "LIN ") \o ToString(TraceLog[h].h))
=============================================================================
