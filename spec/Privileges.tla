--------------------------- MODULE Privileges ---------------------------
(* C39, C41 (C40's account matching lives in Auth.tla).  The access-control state of the `mysql`
   privilege database and the rule that decides whether a statement is allowed.

   Accounts are names; users are  name@localhost , roles are  name@%  (what CREATE ROLE makes).
   An object is [db, tbl]:  *.*  = [db |-> "*", tbl |-> "*"],  d.*  = [db |-> d, tbl |-> "*"],
   d.t = [db |-> d, tbl |-> t].  A grant atom is [db, tbl, p].

   Everything below the line "what a statement requires" is written from the MySQL reference manual
   (GRANT: "Permissible Static Privileges", "Privileges Provided by MySQL", the statements' own
   pages), NOT from sql/planbuilder/auth_default.go.

   Two documented engine behaviours are named operators, so that what is judged under them is
   explicit:
     AllGrantedRolesActive   go-mysql-server has no SET ROLE: every granted role is always active
                             (TODO in mysql_db.go UserActivePrivilegeSet).  `Allowed` uses it;
                             `AllowedStrict` uses the session's active roles as MySQL defines them.
                             The trace specification reports an engine "allow" that only
                             `Allowed` explains (a non-active role) as its own kind of mismatch.
     SuperAllowsEverything   a holder of the global SUPER privilege passes every check.
     GlobalAllIsStaticOnly   GRANT ALL ON *.* grants the static global privileges only (comment of
                             grantAllGlobalPrivileges in sql/plan/grant.go); MySQL's ALL at the
                             global level also covers the registered dynamic privileges.

   Dynamic privileges (DynPrivs; the engine accepts REPLICATION_SLAVE_ADMIN and CLONE_ADMIN) exist at
   the global level only.  Each one an account holds carries its OWN grant-option flag (MySQL:
   mysql.global_grants.WITH_GRANT_OPTION):  dyn[a]  is a set of [p, wgo] with at most one record per
   name.  GRANT <dyn,..> ON *.* TO a [WITH GRANT OPTION], REVOKE <dyn,..> ON *.* FROM a; REVOKE ALL ON
   *.* takes them away too; SHOW GRANTS prints them on their own line(s), one line per flag value.
   Left out of the generated domain (not settled by the manual, not judged): granting a dynamic
   privilege WITHOUT grant option to an account that holds it WITH grant option, and GRANT / REVOKE
   naming the static GRANT OPTION at the global level while the account holds dynamic privileges.

   act / ret / eff / step are output-only (hidden by View). *)
EXTENDS Integers, FiniteSets, Sequences, TLC, Json

CONSTANTS Users,        \* e.g. {"u1", "u2"}
          Roles,        \* e.g. {"r1"}
          Dbs,          \* e.g. {"d1", "d2"}
          Tbls,         \* e.g. {"t1", "t2"}
          Privs,        \* the privileges GRANT/REVOKE range over (subset of AllPrivs)
          DynPrivs,     \* the dynamic privileges GRANT/REVOKE range over (may be {})
          MaxSet,       \* GRANT/REVOKE name 1..MaxSet privileges (or ALL when WithAll)
          WithAll,      \* BOOLEAN: generate GRANT ALL / REVOKE ALL
          MaxStep,      \* history length bound (state constraint)
          InitAll       \* BOOLEAN: the initial state has every account created (else none)

Accts == Users \cup Roles
RangeOf(s) == {s[i] : i \in DOMAIN s}

\* ---- static privileges and the levels they can be granted at (manual: GRANT, table
\* "Permissible Static Privileges for GRANT and REVOKE") -------------------------------------
TblPrivs == {"SELECT", "INSERT", "UPDATE", "DELETE", "CREATE", "DROP", "ALTER", "INDEX", "GRANT OPTION"}
DbPrivs == TblPrivs \cup {"EXECUTE"}
GlobalPrivs == DbPrivs \cup {"CREATE USER", "SUPER"}
AllPrivs == GlobalPrivs

Global == [db |-> "*", tbl |-> "*"]
DbObj(d) == [db |-> d, tbl |-> "*"]
TblObj(d, t) == [db |-> d, tbl |-> t]
Objs == {Global} \cup {DbObj(d) : d \in Dbs} \cup {TblObj(d, t) : d \in Dbs, t \in Tbls}
Level(o) == IF o.db = "*" THEN "global" ELSE IF o.tbl = "*" THEN "db" ELSE "tbl"
LevelPrivs(o) == IF Level(o) = "global" THEN GlobalPrivs ELSE IF Level(o) = "db" THEN DbPrivs ELSE TblPrivs
Applicable(o) == LevelPrivs(o) \cap Privs
\* "ALL [PRIVILEGES]: all privileges at the specified access level except GRANT OPTION and PROXY"
AllOf(o) == LevelPrivs(o) \ {"GRANT OPTION"}
Atom(o, p) == [db |-> o.db, tbl |-> o.tbl, p |-> p]
AtomsAt(G, o) == {x \in G : x.db = o.db /\ x.tbl = o.tbl}

VARIABLES exists,     \* SUBSET Accts
          grants,     \* [Accts -> SUBSET atoms]
          dyn,        \* [Accts -> SUBSET [p : DynPrivs, wgo : BOOLEAN]]  dynamic privileges, own flag each
          edges,      \* set of [r, to, adm]: role r granted to account `to` (WITH ADMIN OPTION = adm)
          locked,     \* [Accts -> BOOLEAN]   (CREATE ROLE makes a locked account)
          pw,         \* [Accts -> password label]  "none" | "pw1" | "pw2"
          active,     \* [Users -> "all" | "none"]  the session's active roles (SET ROLE ALL | NONE)
          defrole,    \* [Users -> "all" | "none"]  SET DEFAULT ROLE ALL | NONE
          act, ret, eff, step
acvars == <<exists, grants, dyn, edges, locked, pw, defrole>>     \* the persistent access-control state
vars == <<exists, grants, dyn, edges, locked, pw, active, defrole, act, ret, eff, step>>
stvars == <<exists, grants, dyn, edges, locked, pw, active, defrole>>      \* everything but the outputs

StateRec == [exists |-> exists, grants |-> grants, dyn |-> dyn, edges |-> edges, locked |-> locked, pw |-> pw,
             active |-> active, defrole |-> defrole]

Init ==
    /\ exists = IF InitAll THEN Accts ELSE {}
    /\ grants = [a \in Accts |-> {}]
    /\ dyn = [a \in Accts |-> {}]
    /\ edges = {}
    /\ locked = [a \in Accts |-> InitAll /\ a \in Roles]
    /\ pw = [a \in Accts |-> "none"]
    /\ active = [u \in Users |-> "all"]
    /\ defrole = [u \in Users |-> "all"]
    /\ act = [name |-> "init"] /\ ret = "none" /\ eff = "none" /\ step = 0

\* C39, transition dump "around the table overlap": initial states in which a user and a role hold
\* different table-level privileges on one table, with and without the role being granted to the user
InitOv ==
    /\ exists = Accts
    /\ \E u \in Users, r \in Roles, d \in Dbs, t \in Tbls, e \in BOOLEAN :
          \E p1 \in (TblPrivs \cap Privs) \ {"GRANT OPTION"}, p2 \in (TblPrivs \cap Privs) \ {"GRANT OPTION"} :
              /\ p1 # p2
              /\ grants = [a \in Accts |-> IF a = u THEN {Atom(TblObj(d, t), p1)} ELSE IF a = r THEN {Atom(TblObj(d, t), p2)} ELSE {}]
              /\ edges = IF e THEN {[r |-> r, to |-> u, adm |-> FALSE]} ELSE {}
    /\ dyn = [a \in Accts |-> {}]
    /\ locked = [a \in Accts |-> a \in Roles]
    /\ pw = [a \in Accts |-> "none"]
    /\ active = [u \in Users |-> "all"]
    /\ defrole = [u \in Users |-> "all"]
    /\ act = [name |-> "init"] /\ ret = "none" /\ eff = "none" /\ step = 0

Out(a, r) == act' = a /\ ret' = r /\ eff' = "none" /\ step' = step + 1

\* ---- accounts --------------------------------------------------------------------------------
\* CREATE USER u@localhost [IDENTIFIED BY label]
CreateUser(u, label) ==
    LET a == [name |-> "CreateUser", a |-> u, pw |-> label] IN
    IF u \in exists
    THEN Out(a, "error") /\ UNCHANGED stvars
    ELSE /\ Out(a, "ok")
         /\ exists' = exists \cup {u}
         /\ grants' = [grants EXCEPT ![u] = {}]
         /\ dyn' = [dyn EXCEPT ![u] = {}]
         /\ locked' = [locked EXCEPT ![u] = FALSE]
         /\ pw' = [pw EXCEPT ![u] = label]
         /\ active' = [active EXCEPT ![u] = "all"]
         /\ defrole' = [defrole EXCEPT ![u] = "all"]
         /\ UNCHANGED edges

\* CREATE ROLE r  (an account r@% that is locked and has no password)
CreateRole(r) ==
    LET a == [name |-> "CreateRole", a |-> r] IN
    IF r \in exists
    THEN Out(a, "error") /\ UNCHANGED stvars
    ELSE /\ Out(a, "ok")
         /\ exists' = exists \cup {r}
         /\ grants' = [grants EXCEPT ![r] = {}]
         /\ dyn' = [dyn EXCEPT ![r] = {}]
         /\ locked' = [locked EXCEPT ![r] = TRUE]
         /\ pw' = [pw EXCEPT ![r] = "none"]
         /\ UNCHANGED <<edges, active, defrole>>

\* DROP USER u@localhost / DROP ROLE r: the account, everything granted to it, and every role edge
\* from or to it disappear.
DropAcct(x) ==
    LET a == [name |-> "DropAcct", a |-> x] IN
    IF x \notin exists
    THEN Out(a, "error") /\ UNCHANGED stvars
    ELSE /\ Out(a, "ok")
         /\ exists' = exists \ {x}
         /\ grants' = [grants EXCEPT ![x] = {}]
         /\ dyn' = [dyn EXCEPT ![x] = {}]
         /\ edges' = {e \in edges : e.r # x /\ e.to # x}
         /\ locked' = [locked EXCEPT ![x] = FALSE]
         /\ pw' = [pw EXCEPT ![x] = "none"]
         /\ active' = [u \in Users |-> IF u = x THEN "all" ELSE active[u]]
         /\ defrole' = [u \in Users |-> IF u = x THEN "all" ELSE defrole[u]]

\* ---- GRANT / REVOKE of privileges ------------------------------------------------------------
\* ps is a set of privilege names, or {"ALL"}.
Expand(o, ps) == IF ps = {"ALL"} THEN AllOf(o) ELSE ps
GrantF(G, x, o, ps) == [G EXCEPT ![x] = @ \cup {Atom(o, p) : p \in Expand(o, ps)}]
RevokeF(G, x, o, ps) == [G EXCEPT ![x] = @ \ {Atom(o, p) : p \in Expand(o, ps)}]
Held(x, o, ps) == {p \in Expand(o, ps) : Atom(o, p) \in grants[x]}

\* "GRANT OPTION granted at the global level for any global privilege applies to all global
\* privileges" (manual, GRANT, Global Privileges); what a GRANT / REVOKE that names the static GRANT
\* OPTION at the global level does to the flags of the dynamic privileges the account holds is not
\* settled there: such statements are generated only for accounts without dynamic privileges.
GrantOptionDefined(x, o, ps) == ~(o = Global /\ "GRANT OPTION" \in ps /\ dyn[x] # {})
GrantPriv(x, o, ps) ==
    LET a == [name |-> "GrantPriv", a |-> x, db |-> o.db, tbl |-> o.tbl, ps |-> ps] IN
    /\ GrantOptionDefined(x, o, ps)
    /\ IF x \notin exists                      \* MySQL 8: GRANT does not create accounts
       THEN Out(a, "error") /\ UNCHANGED stvars
       ELSE /\ Out(a, "ok")
            /\ grants' = GrantF(grants, x, o, ps)      \* GlobalAllIsStaticOnly: dyn is not touched by ALL
            /\ UNCHANGED <<exists, dyn, edges, locked, pw, active, defrole>>

\* When nothing named is held MySQL answers "no such grant" at the database and table level and OK
\* at the global level; the reply of such a REVOKE is "ok|error" (either), the state is what it was.
\* REVOKE ALL ON <level> is generated only while GRANT OPTION is not held at that level (whether
\* ALL covers it there is not something the manual settles; left out, not judged).
\* REVOKE ALL ON *.* takes the dynamic privileges away as well (they are global privileges).
RevokeDefined(x, o, ps) == /\ ps = {"ALL"} => Atom(o, "GRANT OPTION") \notin grants[x]
                           /\ GrantOptionDefined(x, o, ps)
RevokePriv(x, o, ps) ==
    LET a == [name |-> "RevokePriv", a |-> x, db |-> o.db, tbl |-> o.tbl, ps |-> ps]
        alldyn == o = Global /\ ps = {"ALL"}
    IN
    /\ RevokeDefined(x, o, ps)
    /\ IF x \notin exists
       THEN Out(a, "error") /\ UNCHANGED stvars
       ELSE /\ Out(a, IF Held(x, o, ps) = {} /\ ~(alldyn /\ dyn[x] # {}) THEN "ok|error" ELSE "ok")
            /\ grants' = RevokeF(grants, x, o, ps)
            /\ dyn' = IF alldyn THEN [dyn EXCEPT ![x] = {}] ELSE dyn
            /\ UNCHANGED <<exists, edges, locked, pw, active, defrole>>

\* ---- GRANT / REVOKE of dynamic privileges (global level only) -----------------------------------
\* ps is a non-empty set of dynamic privilege names; one statement gives all of them the same flag.
HeldDyn(x) == {d.p : d \in dyn[x]}
DynGrantF(D, ps, wgo) == {d \in D : d.p \notin ps}
                         \cup {[p |-> p, wgo |-> wgo \/ \E d \in D : d.p = p /\ d.wgo] : p \in ps}
DynRevokeF(D, ps) == {d \in D : d.p \notin ps}
\* GRANT never takes a grant option away in MySQL; go-mysql-server overwrites the flag.  Granting a
\* held-with-grant-option privilege again without it is not generated (not judged).
\* (no disjunction here: TLC would enumerate it as two sub-actions)
DynGrantDefined(x, ps, wgo) == \A d \in dyn[x] : (d.p \in ps /\ d.wgo) => wgo
\* GRANT <dyn,..> ON *.* TO x [WITH GRANT OPTION].  WITH GRANT OPTION at the global level also is the
\* static global GRANT OPTION ("applies to all global privileges").
GrantDyn(x, ps, wgo) ==
    LET a == [name |-> "GrantDyn", a |-> x, ps |-> ps, wgo |-> wgo] IN
    /\ DynGrantDefined(x, ps, wgo)
    /\ IF x \notin exists
       THEN Out(a, "error") /\ UNCHANGED stvars
       ELSE /\ Out(a, "ok")
            /\ dyn' = [dyn EXCEPT ![x] = DynGrantF(@, ps, wgo)]
            /\ grants' = IF wgo THEN [grants EXCEPT ![x] = @ \cup {Atom(Global, "GRANT OPTION")}] ELSE grants
            /\ UNCHANGED <<exists, edges, locked, pw, active, defrole>>
\* REVOKE <dyn,..> ON *.* FROM x  (reply as for a static privilege at the global level)
RevokeDyn(x, ps) ==
    LET a == [name |-> "RevokeDyn", a |-> x, ps |-> ps] IN
    IF x \notin exists
    THEN Out(a, "error") /\ UNCHANGED stvars
    ELSE /\ Out(a, IF HeldDyn(x) \cap ps = {} THEN "ok|error" ELSE "ok")
         /\ dyn' = [dyn EXCEPT ![x] = DynRevokeF(@, ps)]
         /\ UNCHANGED <<exists, grants, edges, locked, pw, active, defrole>>

\* ---- roles -----------------------------------------------------------------------------------
EdgesOf(r, u) == {e \in edges : e.r = r /\ e.to = u}
\* GRANT r TO u [WITH ADMIN OPTION].  Re-granting with a different ADMIN OPTION is not generated.
GrantRoleDefined(r, u, adm) == \A e \in EdgesOf(r, u) : e.adm = adm
GrantRole(r, u, adm) ==
    LET a == [name |-> "GrantRole", r |-> r, a |-> u, adm |-> adm] IN
    /\ GrantRoleDefined(r, u, adm)
    /\ IF r \notin exists \/ u \notin exists
       THEN Out(a, "error") /\ UNCHANGED stvars
       ELSE /\ Out(a, "ok")
            /\ edges' = edges \cup {[r |-> r, to |-> u, adm |-> adm]}
            /\ UNCHANGED <<exists, grants, dyn, locked, pw, active, defrole>>

RevokeRole(r, u) ==
    LET a == [name |-> "RevokeRole", r |-> r, a |-> u] IN
    IF r \notin exists \/ u \notin exists
    THEN Out(a, "error") /\ UNCHANGED stvars
    ELSE /\ Out(a, IF EdgesOf(r, u) = {} THEN "ok|error" ELSE "ok")
         /\ edges' = edges \ EdgesOf(r, u)
         /\ UNCHANGED <<exists, grants, dyn, locked, pw, active, defrole>>

\* SET ROLE ALL | NONE in u's session;  SET DEFAULT ROLE ALL | NONE TO u;  a new connection of u.
SetRole(u, m) ==
    /\ u \in exists
    /\ Out([name |-> "SetRole", a |-> u, m |-> m], "ok")
    /\ active' = [active EXCEPT ![u] = m]
    /\ UNCHANGED <<exists, grants, dyn, edges, locked, pw, defrole>>
SetDefaultRole(u, m) ==
    /\ u \in exists
    /\ Out([name |-> "SetDefaultRole", a |-> u, m |-> m], "ok")
    /\ defrole' = [defrole EXCEPT ![u] = m]
    /\ UNCHANGED <<exists, grants, dyn, edges, locked, pw, active>>
Reconnect(u) ==
    /\ u \in exists
    /\ Out([name |-> "Reconnect", a |-> u], "ok")
    /\ active' = [active EXCEPT ![u] = defrole[u]]
    /\ UNCHANGED <<exists, grants, dyn, edges, locked, pw, defrole>>

\* C41: persisting the privilege database and loading it into a fresh server is the identity on the
\* access-control state (every session is a new one afterwards).
PersistReload ==
    /\ Out([name |-> "PersistReload"], "ok")
    /\ active' = [u \in Users |-> defrole[u]]
    /\ UNCHANGED acvars

\* ---- which privileges a session has ----------------------------------------------------------
GrantedRoles(u) == {e.r : e \in {x \in edges : x.to = u}}
AllGrantedRolesActive(u) == GrantedRoles(u)                                   \* documented deviation
ActiveRolesStrict(u) == IF u \in Users /\ active[u] = "none" THEN {} ELSE GrantedRoles(u)
\* a held dynamic privilege is a global atom of the effective set (its flag only matters for GRANT)
DynAtoms(x) == {Atom(Global, d.p) : d \in dyn[x]}
Eff(u, roles) == grants[u] \cup DynAtoms(u) \cup UNION {grants[r] \cup DynAtoms(r) : r \in roles}

\* the hierarchy global -> database -> table
HasPriv(G, p, db, tbl) ==
    \/ [db |-> "*", tbl |-> "*", p |-> p] \in G
    \/ db # "*" /\ [db |-> db, tbl |-> "*", p |-> p] \in G
    \/ db # "*" /\ tbl # "*" /\ [db |-> db, tbl |-> tbl, p |-> p] \in G
SuperAllowsEverything(G) == [db |-> "*", tbl |-> "*", p |-> "SUPER"] \in G   \* documented behaviour

\* ---- what a statement requires (MySQL reference manual) --------------------------------------
\* Requirement(cls, db, tbl) = [alts, adminOf]: the statement is allowed when all privileges of one
\* alternative are held for their objects, or (adminOf # "") the role was granted WITH ADMIN OPTION.
\*   SELECT   SELECT * FROM d.t                 SELECT for the table
\*   INSERT   INSERT INTO d.t VALUES ..         INSERT
\*   UPDATE   UPDATE d.t SET b = <const>        UPDATE (no column is read)
\*   DELETE   DELETE FROM d.t WHERE 1 = 1       DELETE (no column is read)
\*   CREATE   CREATE TABLE d.<new> (..)         CREATE for the table
\*   DROP     DROP TABLE d.t                    DROP
\*   ALTER    ALTER TABLE d.t ADD COLUMN ..     ALTER
\*   INDEX    CREATE INDEX .. ON d.t            INDEX
\*   CREATEUSER  CREATE USER ..                 global CREATE USER, or INSERT for the mysql schema
\*   GRANT    GRANT SELECT ON d.t TO ..         GRANT OPTION and the granted privilege, or UPDATE
\*                                              for the mysql schema
\*   GRANTROLE  GRANT r TO ..                   the role WITH ADMIN OPTION (or SUPER)
\*   REPLICA  STOP REPLICA                      the dynamic REPLICATION_SLAVE_ADMIN (or SUPER)
Need(p, db, tbl) == [p |-> p, db |-> db, tbl |-> tbl]
StmtClasses == {"SELECT", "INSERT", "UPDATE", "DELETE", "CREATE", "DROP", "ALTER", "INDEX",
                "CREATEUSER", "GRANT", "GRANTROLE", "REPLICA"}
Alt(n, need) == [n |-> n, need |-> need]
Requirement(cls, db, tbl) ==
    CASE cls \in {"SELECT", "INSERT", "UPDATE", "DELETE", "CREATE", "DROP", "ALTER", "INDEX"} ->
            [alts |-> {Alt("own", {Need(cls, db, tbl)})}, adminOf |-> ""]
      [] cls = "CREATEUSER" ->
            [alts |-> {Alt("own", {Need("CREATE USER", "*", "*")}), Alt("mysql-schema", {Need("INSERT", "mysql", "*")})},
             adminOf |-> ""]
      [] cls = "GRANT" ->
            [alts |-> {Alt("own", {Need("GRANT OPTION", db, tbl), Need("SELECT", db, tbl)}),
                       Alt("mysql-schema", {Need("UPDATE", "mysql", "*")})},
             adminOf |-> ""]
      [] cls = "GRANTROLE" -> [alts |-> {}, adminOf |-> db]          \* db carries the role name
      [] cls = "REPLICA" -> [alts |-> {Alt("own", {Need("REPLICATION_SLAVE_ADMIN", "*", "*")})}, adminOf |-> ""]
      [] OTHER -> [alts |-> {}, adminOf |-> ""]

\* the ways a requirement is met by the privilege set G of account u ("super", the names of the
\* satisfied alternatives, "admin-option")
Satisfied(u, G, req) ==
    (IF SuperAllowsEverything(G) THEN {"super"} ELSE {})
    \cup {alt.n : alt \in {x \in req.alts : \A n \in x.need : HasPriv(G, n.p, n.db, n.tbl)}}
    \cup (IF req.adminOf # "" /\ \E e \in edges : e.r = req.adminOf /\ e.to = u /\ e.adm THEN {"admin-option"} ELSE {})
AllowedWith(u, roles, req) == u \in exists /\ Satisfied(u, Eff(u, roles), req) # {}
Allowed(u, req) == AllowedWith(u, AllGrantedRolesActive(u), req)
AllowedStrict(u, req) == AllowedWith(u, ActiveRolesStrict(u), req)

\* A probe of class GRANTROLE only has a defined outcome while the role exists.
ProbeDefined(cls, db) == cls = "GRANTROLE" => db \in exists

\* What an allowed statement of the class changes (only its kind matters here).
Effect(cls) == IF cls \in {"SELECT", "REPLICA"} THEN "none" ELSE IF cls \in {"CREATEUSER", "GRANT", "GRANTROLE"} THEN "accounts" ELSE "data"

\* A statement run by u.  The state does not move (the binding undoes the effect of an allowed
\* probe); the verdict and the effect are outputs.  "a denied statement has no effect".
ProbeObjs(cls) ==
    CASE cls \in {"SELECT", "INSERT", "UPDATE", "DELETE", "DROP", "ALTER", "INDEX", "GRANT"} -> {<<d, t>> : d \in Dbs, t \in Tbls}
      [] cls = "CREATE" -> {<<d, "n9">> : d \in Dbs}
      [] cls \in {"CREATEUSER", "REPLICA"} -> {<<"*", "*">>}
      [] OTHER -> {<<r, "">> : r \in Roles}
Stmt(u, cls, db, tbl) ==
    LET ok == Allowed(u, Requirement(cls, db, tbl)) IN
    /\ ProbeDefined(cls, db)
    /\ act' = [name |-> "Stmt", a |-> u, cls |-> cls, db |-> db, tbl |-> tbl]
    /\ ret' = IF ok THEN "allow" ELSE "deny"
    /\ eff' = IF ok THEN Effect(cls) ELSE "none"
    /\ step' = step + 1
    /\ UNCHANGED stvars

PrivSets(o) == {ps \in SUBSET Applicable(o) : Cardinality(ps) >= 1 /\ Cardinality(ps) <= MaxSet}
                   \cup (IF WithAll THEN {{"ALL"}} ELSE {})

AcctStep == \/ \E u \in Users, label \in {"none", "pw1"} : CreateUser(u, label)
            \/ \E r \in Roles : CreateRole(r)
            \/ \E x \in Accts : DropAcct(x)
RoleStep == \/ \E r \in Roles, u \in Users, adm \in BOOLEAN : GrantRole(r, u, adm)
            \/ \E r \in Roles, u \in Users : RevokeRole(r, u)
SessStep == \/ \E u \in Users, m \in {"all", "none"} : SetRole(u, m) \/ SetDefaultRole(u, m)
            \/ \E u \in Users : Reconnect(u)
PrivStep == \E x \in Accts, o \in Objs : \E ps \in PrivSets(o) : GrantPriv(x, o, ps) \/ RevokePriv(x, o, ps)
DynSets == SUBSET DynPrivs \ {{}}
DynStep == \E x \in Accts, ps \in DynSets : (\E w \in BOOLEAN : GrantDyn(x, ps, w)) \/ RevokeDyn(x, ps)

MutateCore == AcctStep \/ PrivStep \/ DynStep \/ RoleStep
Mutate == MutateCore \/ SessStep \/ PersistReload
Probe == \E u \in Users, cls \in StmtClasses : \E o \in ProbeObjs(cls) : Stmt(u, cls, o[1], o[2])

Next == Mutate \/ Probe                 \* exhaustive checking: probes are steps too
NextMutate == Mutate                    \* histories for the bindings (the replayer runs the probe matrix)
NextPlain == MutateCore                 \* transition dump: no session state, no reload
NextFirst == step = 0 /\ NextPlain      \* transition dump of the initial states only (InitOv)

\* The same steps with a different MIX for `-simulate`, which picks uniformly among the successor
\* states TLC enumerates (duplicates included): the few account / role / session steps are repeated
\* so that they are not drowned by the ~10^3 distinct GRANT statements, and a REVOKE is generated
\* mostly when it revokes something held.  (No constant guards here: TLC's simulator never takes a
\* disjunct of the form  CONSTANT /\ \E .. ; measured.)
Rep(n) == 1..n
UsefulRevoke == \E x \in Accts, o \in Objs : \E ps \in PrivSets(o) :
                    (x \in exists /\ Held(x, o, ps) # {}) /\ RevokePriv(x, o, ps)
NoopRevoke == \E x \in Accts, o \in {Global} \cup {DbObj(d) : d \in Dbs} : \E p \in Applicable(o) : RevokePriv(x, o, {p})
\* an account that holds one dynamic privilege gets another one with the OTHER flag value (the state
\* in which a mix-up of names and flags shows)
MixDyn == \E x \in Accts, p \in DynPrivs :
              (x \in exists /\ p \notin HeldDyn(x)) /\ \E d \in dyn[x] : GrantDyn(x, {p}, ~d.wgo)
SimCore ==
    \/ \E w \in Rep(25) : AcctStep
    \/ \E w \in Rep(8) : DynStep
    \/ \E x \in Accts, o \in Objs : \E ps \in PrivSets(o) : GrantPriv(x, o, ps)
    \/ \E w \in Rep(12) : UsefulRevoke
    \/ NoopRevoke
    \/ \E w \in Rep(60) : RoleStep
NextSim == SimCore \/ (\E w \in Rep(12) : SessStep)                 \* C39: with SET ROLE steps
NextSimReload == SimCore \/ (\E w \in Rep(60) : PersistReload)       \* C41: with Persist/Reload steps
                         \/ (\E w \in Rep(400) : MixDyn)
\* account-name exactness (vocabulary with the same user name at two hosts, e.g. "u1" = u1@localhost and
\* "u1@%"): statements naming an account act on exactly that account or fail
NextSimExact == (\E w \in Rep(4) : AcctStep)
                \/ (\E w \in Rep(3) : \E x \in Accts, o \in Objs : \E ps \in PrivSets(o) : GrantPriv(x, o, ps))
                \/ (\E w \in Rep(3) : UsefulRevoke) \/ NoopRevoke
                \/ (\E w \in Rep(4) : RoleStep)
\* C39: histories that reach, early, an account and one of its granted roles holding table-level
\* privileges on the SAME table (the session's privilege set is then the merge of two entries for one
\* table), and go on with role / account / revoke steps
TblP == (TblPrivs \cap Privs) \ {"GRANT OPTION"}
SeedTbl == \E x \in Accts, d \in Dbs, t \in Tbls, p \in TblP : x \in exists /\ GrantPriv(x, TblObj(d, t), {p})
Mirror == \E x \in Accts, y \in Accts, p \in TblP : \E g \in grants[x] :
              (g.tbl # "*" /\ x \in exists /\ y \in exists /\ ((x \in Roles) # (y \in Roles)) /\ p # g.p
                  /\ Atom(TblObj(g.db, g.tbl), p) \notin grants[y])
              /\ GrantPriv(y, TblObj(g.db, g.tbl), {p})
CompleteEdge == \E r \in Roles, u \in Users, adm \in BOOLEAN :
                    (EdgesOf(r, u) = {} /\ \E x \in grants[u], y \in grants[r] : x.tbl # "*" /\ x.db = y.db /\ x.tbl = y.tbl /\ x.p # y.p)
                    /\ GrantRole(r, u, adm)
NextSimOverlap == AcctStep \/ SeedTbl \/ (\E w \in Rep(20) : Mirror) \/ (\E w \in Rep(40) : CompleteEdge)
                  \/ (\E w \in Rep(6) : RoleStep) \/ UsefulRevoke
NextSimAll == SimCore \/ (\E w \in Rep(12) : SessStep) \/ (\E w \in Rep(60) : PersistReload)
                      \/ (\E w \in Rep(100) : MixDyn)

Spec == Init /\ [][Next]_vars

View == stvars
Bound == step < MaxStep          \* CONSTRAINT: histories of at most MaxStep steps

\* ---- properties TLC checks on the bounded model --------------------------------------------------
TypeOK ==
    /\ exists \subseteq Accts
    /\ \A a \in Accts : \A x \in grants[a] : x.p \in LevelPrivs([db |-> x.db, tbl |-> x.tbl])
    /\ \A e \in edges : e.r \in Roles /\ e.to \in Users /\ e.adm \in BOOLEAN
    /\ \A a \in Accts : \A d \in dyn[a] : d.p \in DynPrivs /\ d.wgo \in BOOLEAN
    /\ \A a \in Accts : \A d, e \in dyn[a] : d.p = e.p => d = e           \* one flag per held privilege
    /\ \A u \in Users : active[u] \in {"all", "none"} /\ defrole[u] \in {"all", "none"}
\* nothing is held by, and no edge touches, an account that does not exist
NoOrphans ==
    /\ \A a \in Accts \ exists : grants[a] = {} /\ dyn[a] = {}
    /\ \A e \in edges : e.r \in exists /\ e.to \in exists
\* revoke is the inverse of grant on the abstract state
RevokeInvertsGrant ==
    \A x \in exists, o \in Objs : \A ps \in PrivSets(o) :
        Held(x, o, ps) = {} => RevokeF(GrantF(grants, x, o, ps), x, o, ps) = grants
DynRevokeInvertsGrant ==
    \A x \in exists, ps \in DynSets, w \in BOOLEAN :
        HeldDyn(x) \cap ps = {} => DynRevokeF(DynGrantF(dyn[x], ps, w), ps) = dyn[x]
\* a dynamic privilege held WITH GRANT OPTION comes with the global GRANT OPTION (within the generated domain)
DynGrantOptionIsGlobal ==
    \A x \in Accts : (\E d \in dyn[x] : d.wgo) => Atom(Global, "GRANT OPTION") \in grants[x]
\* the hierarchy is monotone: what is allowed for a table through the table-level set stays allowed
\* when the same privilege is (also) held for the database or globally
HierarchyMonotone ==
    \A u \in Users \cap exists, d \in Dbs, t \in Tbls, p \in TblPrivs :
        LET G == Eff(u, AllGrantedRolesActive(u)) IN
        (HasPriv(G, p, d, "*") => HasPriv(G, p, d, t)) /\ (HasPriv(G, p, "*", "*") => HasPriv(G, p, d, "*"))
\* strict role activation never allows more than all-roles-active
StrictWithinDeviation ==
    \A u \in Users, cls \in StmtClasses : \A o \in ProbeObjs(cls) :
        AllowedStrict(u, Requirement(cls, o[1], o[2])) => Allowed(u, Requirement(cls, o[1], o[2]))
\* a denied statement has no effect
DeniedNoEffect == [][(act'.name = "Stmt" /\ ret' = "deny") => (eff' = "none" /\ UNCHANGED View)]_vars
\* C41: Persist/Reload leaves the access-control state unchanged
ReloadIdentity == [][act'.name = "PersistReload" => UNCHANGED acvars]_vars
\* an account that was dropped keeps nothing when it is created again
DropForgets == [][(act'.name = "DropAcct" /\ ret' = "ok") => (grants'[act'.a] = {} /\ dyn'[act'.a] = {} /\ \A e \in edges' : e.r # act'.a /\ e.to # act'.a)]_vars

\* ---- transition dump / behaviour dump (binding A) --------------------------------------------------
StJson(s) == [accts |-> {[a |-> a, locked |-> s.locked[a], pw |-> s.pw[a], g |-> s.grants[a], d |-> s.dyn[a]] : a \in s.exists},
              edges |-> s.edges, active |-> s.active, defrole |-> s.defrole]
\* (for sampling and coverage accounting only) an account and one of its granted roles hold different
\* table-level privileges on one table
TblOverlap(G, E) == \E e \in E : \E x \in G[e.to], y \in G[e.r] : x.tbl # "*" /\ x.db = y.db /\ x.tbl = y.tbl /\ x.p # y.p
Emit == PrintT("TR " \o ToJson([step |-> step', act |-> act', ret |-> ret', pre |-> StJson(StateRec),
                                 ov |-> [pre |-> TblOverlap(grants, edges), post |-> TblOverlap(grants', edges')]]))
=============================================================================
