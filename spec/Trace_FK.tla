------------------------------ MODULE Trace_FK ------------------------------
(* C18, binding B: validates the foreign-key histories recorded by harness/cmd/dml2 -prop c18 against
   SQLForeignKeys.  trace.ndjson lines:
     {"ev":"schema","h":n,"tabs":{..},"autoinc":{..},"fks":[{name,child,ccols,parent,pcols,ondel,onupd}..]}
     {"ev":"step","id":n,"op":"stmt"|"fkc","val":0|1,"stmt":<AST>,"reply":{kind,class,..},
      "pre":{<t>:[rows]},"post":{<t>:[rows]}}          -- ALL tables before / after the statement
   A step is accepted iff (reply kind, contents of every table) is one of SQLForeignKeys!FKOutcomes from
   the current state (bags of rows).  A disagreement prints `MK <json>` with what = list of
     "kind"      no allowed outcome has this ok / error kind (error classes: which of several applicable
                 errors is reported is left open)
     "post"      the kind is allowed but not with these table contents (wrong cascade / SET NULL / a
                 failed statement that changed something)
     "inv:ref"   while foreign_key_checks was never switched off: the LOGGED tables newly contain a child
                 row whose non-NULL key has no parent row (RefIntegrity, evaluated on the log itself)
   and the state is resynchronised to the logged tables.                                             *)
EXTENDS SQLForeignKeys, Json

TraceLog == ndJsonDeserialize("trace.ndjson")

VARIABLES l, st, cat, fkc, clean
vars == <<l, st, cat, fkc, clean>>

Init == l = 1 /\ st = [tabs |-> <<>>, autoinc |-> <<>>, lastid |-> 0] /\ cat = <<>> /\ fkc = TRUE /\ clean = TRUE

Judge(e) ==
  LET stmt == e.stmt
      outs == FKOutcomes(st, cat, fkc, stmt, {})
      r == e.reply
      KindOK(x) == x.reply.kind = r.kind
      PostOK(x) == \A t \in DOMAIN st.tabs : BagEqRows(e.post[t], x.rows[t], CollsOf(st.tabs[t]))
      L1 == {x \in outs : KindOK(x)}
      L2 == {x \in L1 : PostOK(x)}
      tabs2 == [t \in DOMAIN st.tabs |-> [st.tabs[t] EXCEPT !.rows = e.post[t]]]
      broke == clean /\ fkc /\ RefIntegrity(st.tabs, cat) /\ ~RefIntegrity(tabs2, cat)
      what == (IF L1 = {} THEN <<"kind">> ELSE IF L2 = {} THEN <<"post">> ELSE <<>>)
              \o (IF broke THEN <<"inv:ref">> ELSE <<>>)
      report == IF what = <<>> THEN TRUE ELSE
                PrintT("MK " \o ToJson([l |-> l, id |-> e.id, what |-> what, fkc |-> fkc, clean |-> clean,
                                         exp |-> {[kind |-> x.reply.kind, class |-> x.reply.class, rows |-> x.rows] : x \in outs}]))
  IN /\ report
     /\ st' = [st EXCEPT !.tabs = tabs2]

Next ==
  /\ l <= Len(TraceLog)
  /\ l' = l + 1
  /\ LET e == TraceLog[l] IN
     IF e.ev = "schema" THEN
        /\ st' = [tabs |-> e.tabs, autoinc |-> e.autoinc, lastid |-> 0]
        /\ cat' = e.fks
        /\ fkc' = TRUE
        /\ clean' = TRUE
     ELSE IF e.ev = "step" /\ e.op = "fkc" THEN
        /\ (IF e.reply.kind = "ok" THEN TRUE ELSE PrintT("MK " \o ToJson([l |-> l, id |-> e.id, what |-> <<"kind">>, fkc |-> fkc, clean |-> clean, exp |-> {}])))
        /\ fkc' = (e.val = 1)
        /\ clean' = (clean /\ e.val = 1)
        /\ UNCHANGED <<st, cat>>
     ELSE IF e.ev = "step" THEN
        /\ Judge(e)
        /\ clean' = (clean /\ fkc)
        /\ UNCHANGED <<cat, fkc>>
     ELSE UNCHANGED <<st, cat, fkc, clean>>

HW == TLCSet(1, l)
Accepted == TLCGet(1) = Len(TraceLog) + 1
=============================================================================
