---------------------------- MODULE Trace_Charset ----------------------------
(* C30, binding B: judges what harness/cmd/c30 recorded from the real encoders and the SQL layer.
   One trace = one or more character sets, each:  cfg, cs, [tab], range*, end, dec*, enc*, sql*;
   range / dec / enc / sql / unsup events come in batch lines {ev: batch, kind, items}.

   cs     a character set of sql.NewCharacterSetsIterator (enc = FALSE: no encoder -> `unsup` events: the
          SQL layer must refuse the set, never crash)
   tab    the full code-word table of a set with few code words: cps (increasing), words, dec (the
          code points the real Decode returns for each word)
   stripe count consecutive ranges of equal size and facts with equidistant first code words (second
          level of the run-length projection), judged as those ranges
   range  a maximal run lo..hi of code points with equal recorded facts and code words that are
          consecutive big-endian numbers; facts: st (Encode of the character alone), pad (Encode of
          the character followed by "AAA"; the code word is cut from this result), rep / rpad
          (EncodeReplaceUnknown alone / padded), dec (Decode of the code word), len, blo, bhi
   dec    a byte string through Decode (via = api) or through SELECT _cs X'..' (via = sql)
   enc    an arbitrary byte string (well-formed UTF-8 or not) through Encode / EncodeReplaceUnknown
   sql    a string through CONVERT(.. USING cs) (its value, HEX / CHAR_LENGTH / LENGTH of it, the nested
          conversion back), CAST(.. AS CHAR CHARACTER SET cs), and a VARCHAR column of the character set

   VERDICTS (all from Charset.tla):
   * the ranges tile 0..10FFFF exactly; no fact of any range is a panic; a range is either entirely
     "representable and round-trips" (ok, ok, same, same, id) or entirely "reported and replaced by '?'"
     (fail, fail, q, q); for the surrogate block only "no panic" is required (not characters);
   * algorithmic sets (AlgSets, binary): which of the two, the code word length and the code words at
     both ends -- and at sampled or all interior points -- are the specification's Representable / Enc;
   * table sets: the recorded table satisfies Laws (injective, prefix-free, non-empty words), every
     word decodes to its own code point, '?' is in the table, and the ranges agree with the table;
   * byte strings: never a panic; algorithmic: accepted iff Dec accepts and with Dec's code points;
     table sets: accepted iff the recorded table's on-the-fly decoder accepts, same code points, and
     the re-encoding gives the bytes back;
   * Encode of arbitrary bytes: never a panic; for well-formed UTF-8 the strict / lenient string law;
   * SQL: the string laws -- HEX shows EncStrReplace (the code words), LENGTH their number, CHAR_LENGTH the
     number of characters, and the value itself (also after converting back) is Replaced (the input with
     '?' substituted), independent of how the engine represents it; for the column: stored unchanged when every
     character is representable, otherwise refused or stored with '?'.
   A disagreement is printed as MM <json> with the set of deviating aspects (`bad`), then the
   validation goes on with the next event. *)
EXTENDS Charset, Json

TraceLog == ndJsonDeserialize("trace.ndjson")

VARIABLES l,      \* next event
          pos,    \* next code point a range must start with
          tab,    \* the table of the current character set (code point -> word), <<>> if none
          inv,    \* its inverse (word -> code point), computed once per table
          cfg     \* the cfg event in force
vars == <<l, pos, tab, inv, cfg>>

Kind(c) == IF c \in AlgSets THEN "alg" ELSE IF c \in PassThrough THEN "pass" ELSE "table"
HasTab == DOMAIN tab # {}

\* ---- expectations -------------------------------------------------------------------------------
Rep(c, cp) == IF Kind(c) = "table" THEN cp \in DOMAIN tab ELSE Representable(c, cp)
Word(c, cp) == IF Kind(c) = "table" THEN tab[cp] ELSE Enc(c, cp)
AllRep(c, s) == \A i \in DOMAIN s : Rep(c, s[i])
ExpStrict(c, s) == IF Kind(c) = "table" THEN TEncStr(tab, s) ELSE EncStr(c, s)
ExpReplaced(c, s) == IF Kind(c) = "table" THEN TReplaced(tab, s) ELSE Replaced(c, s)
ExpReplace(c, s) == IF Kind(c) = "table" THEN TEncStrReplace(tab, s) ELSE EncStrReplace(c, s)
ExpDec(c, b) == IF Kind(c) = "table" THEN TDecFrom(inv, b, 1) ELSE IF Kind(c) = "pass" THEN b ELSE Dec(c, b)

Tag(cond, t) == IF cond THEN {} ELSE {t}
\* got is what is wanted cut off right after a '?'  (diagnosis of one known failure shape)
CutAfterQMark(got, want) == Len(got) >= 1 /\ Len(got) < Len(want) /\ IsPrefix(got, want) /\ got[Len(got)] = QMark
MM(e, what, bad, extra) ==
    PrintT("MM " \o ToJson([l |-> l, cs |-> e.cs, ev |-> e.ev, kind |-> Kind(e.cs), what |-> what, bad |-> bad, extra |-> extra]))
\* an item of a batch line: the index of the item is reported too
MI(e, i, what, bad, extra) ==
    PrintT("MM " \o ToJson([l |-> l, i |-> i, cs |-> e.cs, ev |-> e.ev, kind |-> Kind(e.cs), what |-> what, bad |-> bad, extra |-> extra]))

\* ---- tab ------------------------------------------------------------------------------------------
TabOf(e) == LET idx == [c \in {e.cps[i] : i \in DOMAIN e.cps} |-> CHOOSE i \in DOMAIN e.cps : e.cps[i] = c]
            IN [c \in DOMAIN idx |-> e.words[idx[c]]]
\* word -> code point (the first code point recorded with that word)
InvOf(e) == [w \in {e.words[i] : i \in DOMAIN e.words} |-> e.cps[CHOOSE i \in DOMAIN e.words : e.words[i] = w /\ \A j \in DOMAIN e.words : e.words[j] = w => i <= j]]
JudgeTab(e, maxlen) ==
    LET T == TabOf(e)
        bad == Tag(\A i \in 1..(Len(e.cps) - 1) : e.cps[i] < e.cps[i + 1], "fixture:cps-not-increasing")
               \cup Tag(Len(e.cps) = Len(e.words) /\ Len(e.cps) = Len(e.dec), "fixture:lengths")
               \cup Tag(\A i \in DOMAIN e.cps : IsScalar(e.cps[i]), "code-word-for-a-non-character")
               \cup Tag(NonEmptyWords(T), "empty-word")
               \cup Tag(\A i \in DOMAIN e.words : Len(e.words[i]) <= maxlen, "word-longer-than-maxlen")
               \cup Tag(Injective(T), "not-injective")
               \cup Tag(PrefixFree(T), "not-prefix-free")
               \cup Tag(\A i \in DOMAIN e.cps : e.dec[i] # <<-2>>, "decode-panic")
               \cup Tag(\A i \in DOMAIN e.cps : e.dec[i] \in {<<e.cps[i]>>, <<-2>>}, "word-decodes-to-other")
               \cup Tag(QMark \in DOMAIN T, "no-question-mark")
    IN IF bad = {} THEN TRUE
       ELSE MM(e, "table", bad,
               [witness |-> {e.cps[i] : i \in {j \in DOMAIN e.cps : e.dec[j] # <<e.cps[j]>>}}
                            \cup {c \in DOMAIN T : \E d \in DOMAIN T : c # d /\ IsPrefix(T[c], T[d])}])

\* ---- range ----------------------------------------------------------------------------------------
\* interior points looked at: all of them (tier thorough, or short ranges), else 3 pseudo-random ones
Interior(e) ==
    LET n == e.hi - e.lo - 1
    IN IF n <= 0 THEN {}
       ELSE IF cfg.tier = "thorough" \/ n <= 6 THEN (e.lo + 1)..(e.hi - 1)
       ELSE {e.lo + 1 + Mod(Mod(e.lo + 7, 9973) * Mod(cfg.seed + 13, 997) * k, n) : k \in {1, 2, 3}}

JudgeRange(e, i, at) ==
    LET c == e.cs
        nopanic == Tag(e.st # "panic", "st:panic") \cup Tag(e.pad # "panic", "pad:panic") \cup Tag(e.rep # "panic", "rep:panic")
                   \cup Tag(e.rpad # "panic", "rpad:panic") \cup Tag(e.dec # "panic", "dec:panic")
        tile == Tag(e.lo = at /\ e.hi >= e.lo /\ e.hi <= MaxCP, "tiling")
                \cup Tag(IsSurrogate(e.lo) = IsSurrogate(e.hi), "fixture:range-straddles-surrogates")
        sur == IsSurrogate(e.lo)
        rep == Rep(c, e.lo)
        facts == IF sur THEN nopanic
                 ELSE IF rep
                 THEN Tag(e.st = "ok", "st:" \o e.st) \cup Tag(e.pad = "ok", "pad:" \o e.pad) \cup Tag(e.rep = "same", "rep:" \o e.rep)
                      \cup Tag(e.rpad = "same", "rpad:" \o e.rpad) \cup Tag(e.dec = "id", "dec:" \o e.dec)
                 ELSE Tag(e.st = "fail", "st:" \o e.st) \cup Tag(e.pad = "fail", "pad:" \o e.pad) \cup Tag(e.rep = "q", "rep:" \o e.rep)
                      \cup Tag(e.rpad = "q", "rpad:" \o e.rpad) \cup Tag(e.dec = "na", "dec:" \o e.dec)
        words == IF sur \/ e.pad # "ok" \/ ~rep THEN {}
                 ELSE Tag(e.len = Len(Word(c, e.lo)) /\ Len(e.blo) = e.len /\ Len(e.bhi) = e.len, "len")
                      \cup Tag(e.blo = Word(c, e.lo), "word-at-lo")
                      \cup Tag(Rep(c, e.hi) /\ e.bhi = Word(c, e.hi), "word-at-hi")
                      \cup Tag(e.len = 0 \/ e.len > 4 \/ e.bhi = WordPlus(e.blo, e.hi - e.lo), "fixture:not-consecutive")
                      \cup Tag(\A x \in Interior(e) : Rep(c, x) /\ Word(c, x) = WordPlus(e.blo, x - e.lo), "word-inside")
        same == IF sur \/ rep THEN {} ELSE Tag(~Rep(c, e.hi) /\ \A x \in Interior(e) : ~Rep(c, x), "representable-inside")
        bad == tile \cup facts \cup words \cup same
    IN IF bad = {} THEN TRUE
       ELSE MI(e, i, IF sur THEN "range-surrogates" ELSE IF rep THEN "range-representable" ELSE "range-unrepresentable", bad,
               [lo |-> e.lo, hi |-> e.hi, blo |-> e.blo, bhi |-> e.bhi,
                want |-> IF ~sur /\ rep THEN <<Word(c, e.lo), Word(c, e.hi)>> ELSE <<>>])

\* the table and the ranges describe the same set of characters
JudgeEnd(e, nrep) ==
    LET bad == Tag(pos = MaxCP + 1, "tiling:incomplete")
    IN IF bad = {} THEN TRUE ELSE MM(e, "end", bad, [pos |-> pos])

\* ---- byte strings through Decode ------------------------------------------------------------------
JudgeDec(e, i) ==
    LET c == e.cs
        d == ExpDec(c, e.b)
        acc == IF e.via = "api" THEN "ok" ELSE "rows"
        rej == IF e.via = "api" THEN "rej" ELSE "err"
        bad == IF e.out = "panic" THEN {"out:panic"}
               ELSE IF Kind(c) = "pass" THEN Tag(e.out \in {acc, "garbage"} /\ e.raw = e.b, "pass-through-changed")
               ELSE IF d = Illformed
                    THEN Tag(e.out = rej, "accepts-illformed:" \o (IF Kind(c) = "alg" THEN IllClass(c, e.b) ELSE "not-in-table"))
                    ELSE Tag(e.out # rej, "rejects-wellformed")
                         \cup Tag(e.out = rej \/ (e.out = acc /\ e.cps = d), "decodes-to-other")
                         \cup (IF e.via = "api" /\ e.out = "ok"
                               THEN Tag(e.re # "panic", "re:panic") \cup Tag(e.re = "panic" \/ (e.re = "ok" /\ e.reb = e.b), "re-encoding-differs")
                               ELSE {})
    IN IF bad = {} THEN TRUE
       ELSE MI(e, i, "dec-" \o e.via, bad, [b |-> e.b, out |-> e.out, cps |-> e.cps, want |-> d, src |-> e.src])

\* ---- arbitrary bytes through Encode ---------------------------------------------------------------
\* what made a strict encoding panic (diagnosis): the input ends inside a character / with an
\* unrepresentable character / elsewhere
EncInputClass(c, b) ==
    IF ~WellFormed("utf8mb4", b) THEN "illformed-utf8"
    ELSE LET s == Dec("utf8mb4", b)
         IN IF AllRep(c, s) THEN "representable"
            ELSE IF ~Rep(c, s[Len(s)]) THEN "unrepresentable-last" ELSE "unrepresentable-inside"
JudgeEnc(e, i) ==
    LET c == e.cs
        wf == WellFormed("utf8mb4", e.b)
        s == IF wf THEN Dec("utf8mb4", e.b) ELSE <<>>
        bad == Tag(e.st # "panic", "st:panic") \cup Tag(e.rep # "panic", "rep:panic")
               \cup (IF ~wf \/ e.st = "panic" THEN {}
                     ELSE IF AllRep(c, s) THEN Tag(e.st = "ok" /\ e.out = ExpStrict(c, s), "strict-differs")
                     ELSE Tag(e.st = "fail", "unrepresentable-not-reported"))
               \cup (IF ~wf \/ e.rep = "panic" \/ (Kind(c) = "table" /\ QMark \notin DOMAIN tab) THEN {}
                     ELSE Tag(e.rout = ExpReplace(c, s),
                              IF CutAfterQMark(e.rout, ExpReplace(c, s)) THEN "lenient-truncated" ELSE "lenient-differs"))
    IN IF bad = {} THEN TRUE
       ELSE MI(e, i, "enc", bad, [b |-> e.b, st |-> e.st, out |-> e.out, rout |-> e.rout, input |-> EncInputClass(c, e.b)])

\* ---- SQL ------------------------------------------------------------------------------------------
StrClass(c, s) == IF \A i \in DOMAIN s : s[i] <= 127 /\ Rep(c, s[i]) THEN "ascii"
                  ELSE IF AllRep(c, s) THEN "representable" ELSE "unrepresentable"
\* got is what the strict encoder makes of the code words w when they are read as an internal string
DoubleEncoded(got, c, w) ==
    /\ WellFormed("utf8mb4", w)
    /\ AllRep(c, Dec("utf8mb4", w))
    /\ got = ExpStrict(c, Dec("utf8mb4", w))
\* how a wrong result looks (reported with the disagreement so that different failures stay apart)
How(e, c, s) ==
    IF e.out # "rows" THEN "none"
    ELSE IF e.n >= 0 THEN "number"
    ELSE IF e.raw = Utf8Str(s) THEN "unconverted"                         \* the input came back as it went in
    ELSE IF ~(Kind(c) = "table" /\ QMark \notin DOMAIN tab) /\ e.raw = ExpReplace(c, s) THEN "code-words-not-decoded"
    ELSE IF ~(Kind(c) = "table" /\ QMark \notin DOMAIN tab) /\ CutAfterQMark(e.raw, ExpReplace(c, s)) THEN "truncated"
    ELSE IF ~(Kind(c) = "table" /\ QMark \notin DOMAIN tab) /\ DoubleEncoded(e.raw, c, ExpReplace(c, s)) THEN "double-encoded"
    ELSE "other"
ColOK(e, c, s) ==
    IF e.ins = "err" THEN ~AllRep(c, s)                                      \* reported
    ELSE /\ e.ins = "ok"
         /\ e.out = "rows"
         /\ (CASE e.form = "col" -> e.cps = ExpReplaced(c, s)                 \* = s when all representable
               [] e.form = "colhex" -> e.raw = ExpReplace(c, s)
               [] e.form = "colchars" -> e.n = Len(s)
               [] e.form = "colbytes" -> e.n = Len(ExpReplace(c, s)))
JudgeSql(e, i) ==
    LET c == e.cs
        s == e.s
        ok == IF Kind(c) = "table" /\ QMark \notin DOMAIN tab THEN TRUE
              ELSE (CASE e.form \in {"hexconv", "cast"} -> e.out = "rows" /\ e.raw = ExpReplace(c, s)          \* HEX shows the code words
                      \* the VALUE of CONVERT(s USING cs), and of the conversion back, is a string like any other: the
                      \* input with '?' for the unrepresentable characters (= the code words decoded).  The code words
                      \* themselves are what HEX / LENGTH / the wire show, never what the value holds.
                      [] e.form \in {"conv", "nested"} -> e.out = "rows" /\ (IF Kind(c) = "pass" THEN e.raw = Utf8Str(s) ELSE e.cps = ExpReplaced(c, s))
                      [] e.form = "convchars" -> e.out = "rows" /\ e.n = Len(s)
                      [] e.form = "convbytes" -> e.out = "rows" /\ e.n = Len(ExpReplace(c, s))
                      [] e.form \in {"col", "colhex", "colchars", "colbytes"} -> ColOK(e, c, s)
                      [] OTHER -> FALSE)
    IN IF ok THEN TRUE
       ELSE MI(e, i, "sql-" \o e.form, {"out:" \o e.out, "ins:" \o e.ins, "str:" \o StrClass(c, s), "how:" \o How(e, c, s)},
               [s |-> s, raw |-> e.raw, cps |-> e.cps, n |-> e.n, sql |-> e.sql,
                want |-> IF Kind(c) = "table" /\ QMark \notin DOMAIN tab THEN <<>> ELSE ExpReplace(c, s)])

JudgeUnsup(e, i) ==
    IF e.out # "panic" /\ (e.form \in {"conv", "intro", "create"} => e.out = "err") THEN TRUE
    ELSE MI(e, i, "unsupported-" \o e.form, {"out:" \o e.out}, [sql |-> e.sql])

\* ---- the trace machine ------------------------------------------------------------------------------
Init == l = 1 /\ pos = 0 /\ tab = <<>> /\ inv = <<>> /\ cfg = [tier |-> "quick", seed |-> 1]

\* a stripe: `count` consecutive ranges of `size` code points with equal facts whose first code words
\* are `delta` apart; judged as the ranges it stands for (all of them in tier thorough or when few,
\* else the first, the last and two pseudo-random ones)
SubRange(e, j) ==
    LET first == WordPlus(e.blo, j * e.delta)
    IN [ev |-> "range", cs |-> e.cs, lo |-> e.lo + j * e.size, hi |-> e.lo + (j + 1) * e.size - 1,
        st |-> e.st, pad |-> e.pad, rep |-> e.rep, rpad |-> e.rpad, dec |-> e.dec, len |-> e.len,
        blo |-> first, bhi |-> WordPlus(first, e.size - 1)]
StripeSample(e) ==
    IF cfg.tier = "thorough" \/ e.count <= 6 THEN 0..(e.count - 1)
    ELSE {0, e.count - 1} \cup {Mod(Mod(e.lo + 11, 9973) * Mod(cfg.seed + 17, 997) * k, e.count) : k \in {1, 2}}
JudgeStripe(e, i, at) ==
    LET fix == Tag(e.lo = at /\ e.size >= 1 /\ e.count >= 2 /\ e.len >= 1 /\ e.len <= 4 /\ Len(e.blo) = e.len, "tiling")
               \cup Tag(e.len < 1 \/ e.len > 4 \/ Len(e.blo) # e.len \/ e.bhi = SubRange(e, e.count - 1).bhi, "fixture:stripe-not-equidistant")
    IN /\ (IF fix = {} THEN TRUE ELSE MI(e, i, "stripe", fix, [lo |-> e.lo, size |-> e.size, count |-> e.count]))
       /\ (fix # {} \/ \A j \in StripeSample(e) : JudgeRange(SubRange(e, j), i, e.lo + j * e.size))

\* a batch line holds items of one kind; every item is judged (PrintT is TRUE, so \A never stops early)
ItemEnd(it) == IF it.ev = "stripe" THEN it.lo + it.size * it.count - 1 ELSE it.hi
RangeStart(e, i) == IF i = 1 THEN pos ELSE ItemEnd(e.items[i - 1]) + 1
JudgeBatch(e) ==
    \A i \in DOMAIN e.items :
        LET it == e.items[i]
        IN CASE e.kind = "range" -> (IF it.ev = "stripe" THEN JudgeStripe(it, i, RangeStart(e, i)) ELSE JudgeRange(it, i, RangeStart(e, i)))
             [] e.kind = "dec" -> JudgeDec(it, i)
             [] e.kind = "enc" -> JudgeEnc(it, i)
             [] e.kind = "sql" -> JudgeSql(it, i)
             [] e.kind = "unsup" -> JudgeUnsup(it, i)

Step(e) ==
    CASE e.ev = "cfg" -> cfg' = [tier |-> e.tier, seed |-> e.seed] /\ UNCHANGED <<pos, tab, inv>>
      [] e.ev = "cs" -> pos' = (IF e.enc THEN 0 ELSE MaxCP + 1) /\ tab' = <<>> /\ inv' = <<>> /\ UNCHANGED cfg
      [] e.ev = "tab" -> JudgeTab(e, 4) /\ tab' = TabOf(e) /\ inv' = InvOf(e) /\ UNCHANGED <<pos, cfg>>
      [] e.ev = "batch" -> /\ JudgeBatch(e)
                           /\ pos' = (IF e.kind = "range" THEN ItemEnd(e.items[Len(e.items)]) + 1 ELSE pos)
                           /\ UNCHANGED <<tab, inv, cfg>>
      [] e.ev = "end" -> JudgeEnd(e, 0) /\ UNCHANGED <<pos, tab, inv, cfg>>

Next ==
    /\ l <= Len(TraceLog)
    /\ l' = l + 1
    /\ Step(TraceLog[l])

HW == TLCSet(1, l)
Accepted == TLCGet(1) = Len(TraceLog) + 1
=============================================================================
