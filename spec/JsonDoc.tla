------------------------------ MODULE JsonDoc ------------------------------
(* C32.  JSON documents as TLA+ values and MySQL's path functions over them.

   Documents are tagged records:
     object  [t |-> "o", kv |-> << <<key, doc>>, ... >>]   keys strictly increasing in MySQL's key order
     array   [t |-> "a", v |-> <<doc, ...>>]
     string  [t |-> "s", v |-> <<code points>>]
     integer [t |-> "i", v |-> n]          boolean [t |-> "b", v |-> TRUE/FALSE]
     null    [t |-> "z"]                   (JSON null is a value of its own; never a JSON null in a trace file)
     number  [t |-> "num", s |-> "text"]   (binding B only: a number the specification does not interpret)
   Missing == [t |-> "m"] is the outcome "no such path" (SQL NULL of JSON_EXTRACT).
   Keys are sequences of code points.  MySQL's key order: shorter keys (in UTF-8 bytes) first, then byte
   order, which for UTF-8 is code-point order.

   Paths are sequences of steps [k |-> "k", v |-> key] / [k |-> "i", v |-> index] (0-based index).
   Path evaluation follows the reference manual (JSON path syntax): a member step matches only an
   object that has the member; an index step matches an array cell inside the bounds; if the value is
   not an array, [0] evaluates to the value itself ("autowrap") and any other index to nothing.
   Mutation (manual, JSON_SET/JSON_INSERT/JSON_REPLACE/JSON_REMOVE/JSON_ARRAY_APPEND): a pair for a
   nonexisting path is ignored unless the path identifies a member not present in an EXISTING object
   (the member is added) or a position past the end of an EXISTING array (the value is appended; a
   non-array value is autowrapped as an array first).  JSON_INSERT never overwrites, JSON_REPLACE only
   overwrites, JSON_REMOVE of a missing path changes nothing. *)
EXTENDS Integers, Sequences, FiniteSets, TLC

Missing == [t |-> "m"]
JNull == [t |-> "z"]
JInt(n) == [t |-> "i", v |-> n]
JBool(b) == [t |-> "b", v |-> b]
JStr(cps) == [t |-> "s", v |-> cps]
JArr(s) == [t |-> "a", v |-> s]
JObj(kv) == [t |-> "o", kv |-> kv]
KeyStep(k) == [k |-> "k", v |-> k]
IdxStep(i) == [k |-> "i", v |-> i]

\* Structural equality.  (TLC's own "=" refuses to compare values of different kinds, e.g. the v of a
\* string with the v of an array, so equality goes through the tags.)
RECURSIVE DocEq(_, _)
DocEq(x, y) ==
    /\ x.t = y.t
    /\ CASE x.t = "o" -> /\ Len(x.kv) = Len(y.kv)
                         /\ \A i \in 1..Len(x.kv) : x.kv[i][1] = y.kv[i][1] /\ DocEq(x.kv[i][2], y.kv[i][2])
         [] x.t = "a" -> Len(x.v) = Len(y.v) /\ \A i \in 1..Len(x.v) : DocEq(x.v[i], y.v[i])
         [] x.t \in {"s", "i", "b"} -> x.v = y.v
         [] x.t = "num" -> x.s = y.s
         [] OTHER -> TRUE
IsMissing(d) == d.t = "m"

IsObj(d) == d.t = "o"
IsArr(d) == d.t = "a"
IsScalar(d) == d.t \notin {"o", "a", "m"}

\* ---- key order ------------------------------------------------------------------------------------
Utf8Len(cp) == IF cp < 128 THEN 1 ELSE IF cp < 2048 THEN 2 ELSE IF cp < 65536 THEN 3 ELSE 4
RECURSIVE ByteLen(_)
ByteLen(k) == IF k = <<>> THEN 0 ELSE Utf8Len(Head(k)) + ByteLen(Tail(k))
MinI(a, b) == IF a <= b THEN a ELSE b
\* lexicographic order of code-point sequences (a proper prefix is smaller)
LexLess(a, b) ==
    \/ \E i \in 1..MinI(Len(a), Len(b)) : a[i] < b[i] /\ \A j \in 1..(i - 1) : a[j] = b[j]
    \/ (Len(a) < Len(b) /\ \A j \in 1..Len(a) : a[j] = b[j])
KeyLess(a, b) == ByteLen(a) < ByteLen(b) \/ (ByteLen(a) = ByteLen(b) /\ LexLess(a, b))

\* ---- objects as sorted association lists ------------------------------------------------------------
KeysOf(o) == [i \in 1..Len(o.kv) |-> o.kv[i][1]]
KeyIdx(o, k) == IF \E i \in 1..Len(o.kv) : o.kv[i][1] = k THEN CHOOSE i \in 1..Len(o.kv) : o.kv[i][1] = k ELSE 0
HasKey(o, k) == KeyIdx(o, k) # 0
ValOf(o, k) == o.kv[KeyIdx(o, k)][2]
\* insert or overwrite, keeping the key order
Put(o, k, d) ==
    IF HasKey(o, k) THEN JObj([o.kv EXCEPT ![KeyIdx(o, k)] = <<k, d>>])
    ELSE LET n == Cardinality({i \in 1..Len(o.kv) : KeyLess(o.kv[i][1], k)})
         IN JObj(SubSeq(o.kv, 1, n) \o << <<k, d>> >> \o SubSeq(o.kv, n + 1, Len(o.kv)))
Del(o, k) == LET i == KeyIdx(o, k) IN JObj(SubSeq(o.kv, 1, i - 1) \o SubSeq(o.kv, i + 1, Len(o.kv)))
DelAt(s, i) == SubSeq(s, 1, i - 1) \o SubSeq(s, i + 1, Len(s))
InsAt(s, i, d) == SubSeq(s, 1, i - 1) \o <<d>> \o SubSeq(s, i, Len(s))       \* d becomes element i (1-based)

\* The keys of an object are strictly increasing (sorted, no duplicates), recursively.
RECURSIVE WellFormed(_)
WellFormed(d) ==
    IF IsObj(d) THEN /\ \A i \in 1..(Len(d.kv) - 1) : KeyLess(d.kv[i][1], d.kv[i + 1][1])
                     /\ \A i \in 1..Len(d.kv) : WellFormed(d.kv[i][2])
    ELSE IF IsArr(d) THEN \A i \in 1..Len(d.v) : WellFormed(d.v[i])
    ELSE TRUE

\* Canonical form of a parsed text whose objects may list keys in any order and repeat them: the
\* last occurrence of a key wins, keys are sorted.
RECURSIVE Canonical(_)
RECURSIVE PutAll(_, _)
PutAll(o, kv) == IF kv = <<>> THEN o ELSE PutAll(Put(o, Head(kv)[1], Canonical(Head(kv)[2])), Tail(kv))
Canonical(d) ==
    IF IsObj(d) THEN PutAll(JObj(<<>>), d.kv)
    ELSE IF IsArr(d) THEN JArr([i \in 1..Len(d.v) |-> Canonical(d.v[i])])
    ELSE d

RECURSIVE Depth(_)
MaxOf(S) == IF S = {} THEN 0 ELSE CHOOSE x \in S : \A y \in S : y <= x
Depth(d) == IF IsObj(d) THEN 1 + MaxOf({Depth(d.kv[i][2]) : i \in 1..Len(d.kv)})
            ELSE IF IsArr(d) THEN 1 + MaxOf({Depth(d.v[i]) : i \in 1..Len(d.v)})
            ELSE 0
RECURSIVE Width(_)
Width(d) == IF IsObj(d) THEN MaxOf({Len(d.kv)} \cup {Width(d.kv[i][2]) : i \in 1..Len(d.kv)})
            ELSE IF IsArr(d) THEN MaxOf({Len(d.v)} \cup {Width(d.v[i]) : i \in 1..Len(d.v)})
            ELSE 0

\* ---- path evaluation ----------------------------------------------------------------------------------
\* one step from value c: the selected value or Missing
StepVal(c, s) ==
    IF IsMissing(c) THEN Missing
    ELSE IF s.k = "k" THEN (IF IsObj(c) /\ HasKey(c, s.v) THEN ValOf(c, s.v) ELSE Missing)
    ELSE IF IsArr(c) THEN (IF s.v < Len(c.v) THEN c.v[s.v + 1] ELSE Missing)
    ELSE (IF s.v = 0 THEN c ELSE Missing)                                   \* autowrap
RECURSIVE Extract(_, _)
Extract(d, p) == IF p = <<>> THEN d ELSE Extract(StepVal(d, Head(p)), Tail(p))
ContainsPath(d, p) == ~IsMissing(Extract(d, p))

\* Generic update.  mode: "set" | "insert" | "replace".  At the end of the path the value exists.
RECURSIVE Upd(_, _, _, _)
Upd(d, p, v, mode) ==
    IF p = <<>> THEN (IF mode = "insert" THEN d ELSE v)
    ELSE LET s == Head(p)
             rest == Tail(p)
             last == rest = <<>>
             create == last /\ mode # "replace"
         IN IF s.k = "k"
            THEN (IF ~IsObj(d) THEN d
                  ELSE IF HasKey(d, s.v) THEN Put(d, s.v, Upd(ValOf(d, s.v), rest, v, mode))
                  ELSE IF create THEN Put(d, s.v, v) ELSE d)
            ELSE (IF IsArr(d)
                  THEN (IF s.v < Len(d.v) THEN JArr([d.v EXCEPT ![s.v + 1] = Upd(d.v[s.v + 1], rest, v, mode)])
                        ELSE IF create THEN JArr(Append(d.v, v)) ELSE d)
                  ELSE (IF s.v = 0 THEN Upd(d, rest, v, mode)                  \* autowrap: d[0] is d
                        ELSE IF create THEN JArr(<<d, v>>) ELSE d))
Set(d, p, v) == Upd(d, p, v, "set")
Insert(d, p, v) == Upd(d, p, v, "insert")
Replace(d, p, v) == Upd(d, p, v, "replace")

\* JSON_REMOVE (p is not empty).  An index step on a non-array as the LAST step is not modelled
\* (RemoveCrisp): the manual does not say whether '$[0]' removes an autowrapped value.
RECURSIVE Remove(_, _)
Remove(d, p) ==
    LET s == Head(p)
        rest == Tail(p)
    IN IF s.k = "k"
       THEN (IF ~IsObj(d) \/ ~HasKey(d, s.v) THEN d
             ELSE IF rest = <<>> THEN Del(d, s.v) ELSE Put(d, s.v, Remove(ValOf(d, s.v), rest)))
       ELSE (IF IsArr(d)
             THEN (IF s.v >= Len(d.v) THEN d
                   ELSE IF rest = <<>> THEN JArr(DelAt(d.v, s.v + 1))
                   ELSE JArr([d.v EXCEPT ![s.v + 1] = Remove(d.v[s.v + 1], rest)]))
             ELSE (IF s.v = 0 /\ rest # <<>> THEN Remove(d, rest) ELSE d))
RemoveCrisp(d, p) ==
    LET parent == Extract(d, SubSeq(p, 1, Len(p) - 1))
    IN p # <<>> /\ ~(p[Len(p)].k = "i" /\ ~IsMissing(parent) /\ ~IsArr(parent))

\* JSON_ARRAY_APPEND: the value at p (if any) gets one more element; a non-array is autowrapped first
ArrayAppend(d, p, v) ==
    LET c == Extract(d, p)
    IN IF IsMissing(c) THEN d
       ELSE Replace(d, p, IF IsArr(c) THEN JArr(Append(c.v, v)) ELSE JArr(<<c, v>>))

\* JSON_ARRAY_INSERT for a path whose last step is a cell of an existing array (else ignored)
ArrayInsert(d, p, v) ==
    LET parent == Extract(d, SubSeq(p, 1, Len(p) - 1))
        i == p[Len(p)].v
    IN IF p = <<>> \/ p[Len(p)].k # "i" \/ IsMissing(parent) \/ ~IsArr(parent) THEN d
       ELSE Replace(d, SubSeq(p, 1, Len(p) - 1),
                    JArr(IF i >= Len(parent.v) THEN Append(parent.v, v) ELSE InsAt(parent.v, i + 1, v)))

\* observers
Length(d) == IF IsObj(d) THEN Len(d.kv) ELSE IF IsArr(d) THEN Len(d.v) ELSE 1
Type(d) == CASE d.t = "o" -> "OBJECT" [] d.t = "a" -> "ARRAY" [] d.t = "s" -> "STRING" [] d.t = "i" -> "INTEGER"
             [] d.t = "b" -> "BOOLEAN" [] d.t = "z" -> "NULL" [] OTHER -> "OTHER"
\* JSON_KEYS: the keys of an object as an array of strings, Missing (SQL NULL) otherwise
Keys(d) == IF IsObj(d) THEN JArr([i \in 1..Len(d.kv) |-> JStr(d.kv[i][1])]) ELSE Missing

\* RFC 7396 merge patch (JSON_MERGE_PATCH)
RECURSIVE MergePatch(_, _)
RECURSIVE PatchAll(_, _)
PatchAll(o, kv) ==
    IF kv = <<>> THEN o
    ELSE LET k == Head(kv)[1]
             pv == Head(kv)[2]
         IN PatchAll(IF pv.t = "z" THEN (IF HasKey(o, k) THEN Del(o, k) ELSE o)
                     ELSE Put(o, k, MergePatch(IF HasKey(o, k) THEN ValOf(o, k) ELSE JNull, pv)), Tail(kv))
MergePatch(d, patch) ==
    IF ~IsObj(patch) THEN patch ELSE PatchAll(IF IsObj(d) THEN d ELSE JObj(<<>>), patch.kv)

\* Classification of JSON_MERGE_PATCH cases: some null member of the patch (at any depth) meets a target
\* that is not an object (there is nothing to delete, the member must simply not appear).
RECURSIVE HasNullMember(_)
HasNullMember(pt) == IsObj(pt) /\ \E i \in 1..Len(pt.kv) : pt.kv[i][2].t = "z" \/ HasNullMember(pt.kv[i][2])
RECURSIVE NullOntoNonObject(_, _)
NullOntoNonObject(d, pt) ==
    /\ IsObj(pt)
    /\ IF ~IsObj(d) THEN HasNullMember(pt)
       ELSE \E i \in 1..Len(pt.kv) :
              NullOntoNonObject(IF HasKey(d, pt.kv[i][1]) THEN ValOf(d, pt.kv[i][1]) ELSE JNull, pt.kv[i][2])
PatchKind(d, pt) == IF NullOntoNonObject(d, pt) THEN "patch-null-onto-nonobject" ELSE "patch"

\* How a path meets a document (classification of disagreements, and the addressing preconditions of
\* the laws): the first step that does not select an existing member / cell in the plain way.
\*   "natural"   every step selects an existing member of an object / cell of an array
\*   "create"    only the LAST step is missing: an absent member of an object, or an index past the end
\*   "autowrap-last" / "autowrap-inner"  the first such step is an index on a non-array (the last step / an inner one)
\*   "dangling"  an inner step selects nothing (missing member / index past the end / wrong kind of value)
RECURSIVE PathKind(_, _)
PathKind(d, p) ==
    IF p = <<>> THEN "natural"
    ELSE LET s == Head(p)
             rest == Tail(p)
             nxt == StepVal(d, s)
             plain == IF s.k = "k" THEN IsObj(d) ELSE IsArr(d)
         IN IF ~IsMissing(nxt)
            THEN (IF ~plain THEN (IF rest = <<>> THEN "autowrap-last" ELSE "autowrap-inner")
                  ELSE PathKind(nxt, rest))
            ELSE IF rest = <<>> /\ (IF s.k = "k" THEN IsObj(d) ELSE TRUE) THEN (IF plain THEN "create" ELSE "autowrap-last")
            ELSE "dangling"

\* ---- comparison (reference manual, "Comparison and Ordering of JSON Values") --------------------------------
\* BOOLEAN > ARRAY > OBJECT > STRING > INTEGER/DOUBLE > NULL; within a type: false < true, arrays
\* lexicographic (a proper prefix is smaller), strings by UTF-8 bytes = code points, integers by value;
\* two unequal objects have an unspecified but deterministic order.
Rank(d) == CASE d.t = "b" -> 6 [] d.t = "a" -> 5 [] d.t = "o" -> 4 [] d.t = "s" -> 3 [] d.t = "i" -> 2 [] d.t = "z" -> 1 [] OTHER -> 0
\* "lt" | "eq" | "gt" | "any" (any: the manual leaves the order open)
RECURSIVE Cmp(_, _)
RECURSIVE CmpSeq(_, _)
CmpSeq(x, y) ==
    IF x = <<>> /\ y = <<>> THEN "eq" ELSE IF x = <<>> THEN "lt" ELSE IF y = <<>> THEN "gt"
    ELSE LET c == Cmp(Head(x), Head(y)) IN IF c = "eq" THEN CmpSeq(Tail(x), Tail(y)) ELSE c
Cmp(x, y) ==
    IF Rank(x) # Rank(y) THEN (IF Rank(x) < Rank(y) THEN "lt" ELSE "gt")
    ELSE IF DocEq(x, y) THEN "eq"
    ELSE CASE x.t = "b" -> (IF y.v THEN "lt" ELSE "gt")
           [] x.t = "i" -> (IF x.v < y.v THEN "lt" ELSE "gt")
           [] x.t = "s" -> (IF LexLess(x.v, y.v) THEN "lt" ELSE "gt")
           [] x.t = "a" -> CmpSeq(x.v, y.v)
           [] OTHER -> "any"
=============================================================================
