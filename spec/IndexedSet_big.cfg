CONSTANTS
  PKs = {1, 2, 3}
  As = {0, 1, 2, 3}
INIT Init
NEXT Next
VIEW View
INVARIANTS TypeOK IndexesAgree
PROPERTIES RemoveRemoves
ACTION_CONSTRAINT Emit
CHECK_DEADLOCK FALSE
