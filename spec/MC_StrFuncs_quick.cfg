CONSTANT MaxLen = 2
CONSTANT PadLen = 1
CONSTANT ListLen = 2
INIT Init
NEXT Next
INVARIANTS CaseOK Laws
ACTION_CONSTRAINT Emit
CHECK_DEADLOCK FALSE
