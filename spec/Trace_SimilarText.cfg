CONSTANTS
  Alphabet = {"a"}
  MaxName = 0
  MaxCand = 0
  MaxCands = 0
INIT TInit
NEXT TNext
CONSTRAINT Judge HW
POSTCONDITION Accepted
CHECK_DEADLOCK FALSE
