--------------------------- MODULE Trace_Window ---------------------------
(* Binding B (and the validation half of binding A) of property C08: recorded executions of window
   functions and plain aggregates on the real engine are judged against SQLWindow.

   trace.ndjson lines:
     {"ev":"db","case":c,"rows":[[id,p,o,v]..]}                  -- table w of the following events
     {"ev":"win","id":n,"q":<window query record>,"res":[[id, rn, value]..]}   (or "err": message)
           rn = ROW_NUMBER() over the same window, value = the function under test
     {"ev":"agg","id":n,"q":<aggregate query record>,"res":[[p, value]..]}     (p = NULL for the global group)
   Every line is consumed; a disagreement prints `MM <json>` and validation continues. *)
EXTENDS SQLWindow, Json

TraceLog == ndJsonDeserialize("trace.ndjson")

VARIABLES l, tb
vars == <<l, tb>>

Init == l = 1 /\ tb = [rows |-> <<>>, case |-> 0]

T == tb.rows
Ids == {RId(r) : r \in Range(T)}
RowOf(id) == CHOOSE r \in Range(T) : RId(r) = id

JudgeWin(e) ==
  IF "err" \in DOMAIN e THEN [what |-> "error", id |-> 0, exp |-> "a result"]
  ELSE
  LET q == e.q
      res == e.res
      rowsOK == Len(res) = Cardinality(Ids) /\ {res[i][1].v : i \in DOMAIN res} = Ids
  IN IF ~rowsOK THEN [what |-> "rows", id |-> 0, exp |-> Ids]
     ELSE
     LET rn == [id \in Ids |-> (res[CHOOSE i \in DOMAIN res : res[i][1].v = id][2]).v]
         got == [id \in Ids |-> res[CHOOSE i \in DOMAIN res : res[i][1].v = id][3]]
         tags(id) == LET Pt == PartOf(T, q, RowOf(id)) IN
                     [nullkey |-> \E y \in Pt : NullKey(q, y),
                      ties |-> \E x \in Pt : \E y \in Pt : x # y /\ DK(q, x) = DK(q, y)]
     IN IF ~RnValid(T, q, rn)
        THEN [what |-> "row-number", id |-> 0, exp |-> "a bijection onto 1..N per partition that respects ORDER BY"]
        ELSE LET bad == {id \in Ids : ~ValMatch(got[id], WinVal(T, q, rn, RowOf(id)), "none")}
                 input(id) == LET F == Frame(T, q, rn, RowOf(id)) IN
                              IF F = {} THEN "emptyframe" ELSE IF \A y \in F : IsN(RV(y)) THEN "allnull" ELSE "values"
                 cls(id) == [nullkey |-> tags(id).nullkey, ties |-> tags(id).ties, input |-> input(id)]
             IN IF bad = {} THEN [what |-> "ok"]
                ELSE LET b == CHOOSE x \in bad : \A y \in bad : x <= y IN
                     [what |-> "value", id |-> b, exp |-> WinVal(T, q, rn, RowOf(b)), got |-> got[b], nbad |-> Cardinality(bad),
                      classes |-> {cls(x) : x \in bad}]

JudgeAgg(e) ==
  IF "err" \in DOMAIN e THEN [what |-> "error", id |-> 0, exp |-> "a result"]
  ELSE
  LET q == e.q
      res == e.res
      G == GroupsOf(T, q)
      keyOf(X) == IF q.group THEN RP(CHOOSE r \in X : TRUE) ELSE NULL
      rowsOK == /\ Len(res) = Cardinality(G)
                /\ \A X \in G : Cardinality({i \in DOMAIN res : SameVal(res[i][1], keyOf(X), "none")}) = 1
  IN IF ~rowsOK THEN [what |-> "rows", id |-> 0, exp |-> Cardinality(G)]
     ELSE LET valOf(X) == res[CHOOSE i \in DOMAIN res : SameVal(res[i][1], keyOf(X), "none")][2]
              bad == {X \in G : ~AggOK(q, X, valOf(X))}
          IN IF bad = {} THEN [what |-> "ok"]
             ELSE LET X == CHOOSE Y \in bad : TRUE IN
                  [what |-> "value", id |-> 0, key |-> keyOf(X), group |-> X, got |-> valOf(X),
                   empty |-> \A y \in X : IsN(Arg(q, y))]

Judge(e) ==
  LET v == IF e.ev = "win" THEN JudgeWin(e) ELSE JudgeAgg(e) IN
  IF v.what = "ok" THEN TRUE
  ELSE PrintT("MM " \o ToJson([l |-> l, id |-> e.id, case |-> tb.case, ev |-> e.ev, v |-> v]))

Next ==
  /\ l <= Len(TraceLog)
  /\ l' = l + 1
  /\ LET e == TraceLog[l] IN
     IF e.ev = "db" THEN tb' = e
     ELSE tb' = tb /\ Judge(e)

HW == TLCSet(1, l)
Accepted == TLCGet(1) = Len(TraceLog) + 1
=============================================================================
