CONSTANTS
  Radius = 40
  MaxB8 = 5
  MaxB16 = 6
  MaxB32 = 6
  U8A = {0, 65, 127, 128, 143, 144, 159, 160, 191, 192, 193, 194, 223, 224, 225, 237, 239, 240, 243, 244, 245, 248, 255}
  U16A = {0, 65, 215, 216, 219, 220, 223, 224, 255}
  U32A = {0, 1, 15, 16, 17, 215, 216, 220, 223, 224, 255}
  AscA = {0, 65, 127, 128, 255}
  Full = FALSE
INIT Init
NEXT Next
INVARIANT ModelOK
CHECK_DEADLOCK FALSE
