CONSTANTS
  Radius = 40
  MaxB8 = 5
  MaxB16 = 6
  MaxB32 = 7
  U8A = {65, 127, 128, 143, 144, 159, 160, 191, 192, 194, 224, 237, 239, 240, 244, 245}
  U16A = {0, 65, 215, 216, 219, 220, 223, 224}
  U32A = {0, 1, 16, 17, 216, 255}
  AscA = {0, 65, 127, 128, 255}
  Full = FALSE
INIT Init
NEXT Next
INVARIANT ModelOK
CHECK_DEADLOCK FALSE
