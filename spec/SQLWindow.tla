----------------------------- MODULE SQLWindow -----------------------------
(* The meaning of window functions and of the plain aggregates that SQLSem does not cover
   (property C08), over one table  w(id PRIMARY KEY, p, o, v)  whose rows are <<id, p, o, v>>
   (SQLSem values; integers and NULL).

   Window query   SELECT id, <fn> OVER ([PARTITION BY p] [ORDER BY o [DESC]] [frame]) FROM w
   is described by a record
     q = [fn, arg, k, def, part, dir, frame]
       fn    "row_number" "rank" "dense_rank" "percent_rank" "ntile" "lag" "lead" "first_value"
             "last_value" "count" "countstar" "sum" "avg" "min" "max"
       k     NTILE(k) / LAG(v, k, def) / LEAD(v, k, def);  def = default value (NULL when absent)
       part  BOOLEAN: PARTITION BY p;  dir "none" | "asc" | "desc": ORDER BY o
       frame [unit |-> "none" | "rows" | "range", s |-> [k |-> "up"|"p"|"cr"|"f", n |-> Int],
              e |-> [k |-> "uf"|"p"|"cr"|"f", n |-> Int]]
   SQL leaves the order among ORDER BY peers open.  The order actually used is an input here:
   rn[id] = the row number the engine assigned (ROW_NUMBER() over the same window, recorded in the same
   query); RnValid demands that it is a bijection onto 1..N in every partition that respects the
   ORDER BY, and every position-dependent value (ROWS frames, LAG/LEAD, NTILE, FIRST/LAST_VALUE) is
   defined relative to it -- any consistent assignment is accepted, none is preferred.

   Frames: ROWS offsets count positions; RANGE offsets compare the single integer ORDER BY key
   (peers of the current row are always inside CURRENT ROW bounds; a NULL key has only its peers inside
   numeric bounds; NULLs sort first ascending, last descending); bounds are clipped at the partition
   edges; the default frame is RANGE UNBOUNDED PRECEDING..CURRENT ROW with ORDER BY, the whole
   partition without.  Aggregates ignore NULL arguments; an empty input gives NULL (0 for COUNT). *)
EXTENDS SQLSem

RId(r) == r[1].v
RP(r) == r[2]
RO(r) == r[3]
RV(r) == r[4]
Big == 100000

RECURSIVE SumSet(_, _)
SumSet(X, f) == IF X = {} THEN 0 ELSE LET x == CHOOSE y \in X : TRUE IN f[x] + SumSet(X \ {x}, f)

\* ------------------------------------------------------------------ partitions, order, peers
PartOf(T, q, r) == {x \in Range(T) : ~q.part \/ SameVal(RP(x), RP(r), "none")}
\* direction-adjusted sort key: ascending in this key is the ORDER BY order
DK(q, r) == IF q.dir = "none" THEN 0
            ELSE IF IsN(RO(r)) THEN (IF q.dir = "desc" THEN Big ELSE -Big)
            ELSE IF q.dir = "desc" THEN -RO(r).v ELSE RO(r).v
Before(q, x, y) == DK(q, x) < DK(q, y)
NullKey(q, r) == q.dir # "none" /\ IsN(RO(r))

\* the engine's row numbers are a valid order of every partition
RnValid(T, q, rn) ==
  \A r \in Range(T) :
     LET Pt == PartOf(T, q, r) IN
     /\ {rn[RId(x)] : x \in Pt} = 1..Cardinality(Pt)
     /\ \A x \in Pt : \A y \in Pt : Before(q, x, y) => rn[RId(x)] < rn[RId(y)]

\* ------------------------------------------------------------------ frames
Frame(T, q, rn, r) ==
  LET Pt == PartOf(T, q, r)
      n == Cardinality(Pt)
      me == rn[RId(r)]
      f == q.frame
      k == DK(q, r)
      nk == NullKey(q, r)
  IN CASE f.unit = "none" -> {y \in Pt : DK(q, y) <= k}      \* dir "none": all keys are 0 = whole partition
       [] f.unit = "rows" ->
            (LET lo == CASE f.s.k = "up" -> 1 [] f.s.k = "p" -> me - f.s.n [] f.s.k = "cr" -> me [] f.s.k = "f" -> me + f.s.n
                 hi == CASE f.e.k = "uf" -> n [] f.e.k = "p" -> me - f.e.n [] f.e.k = "cr" -> me [] f.e.k = "f" -> me + f.e.n
             IN {y \in Pt : lo <= rn[RId(y)] /\ rn[RId(y)] <= hi})
       [] f.unit = "range" ->
            (LET sOK(y) == CASE f.s.k = "up" -> TRUE
                             [] f.s.k = "cr" -> DK(q, y) >= k
                             [] f.s.k = "p" -> DK(q, y) >= (IF nk THEN k ELSE k - f.s.n)
                             [] f.s.k = "f" -> DK(q, y) >= (IF nk THEN k ELSE k + f.s.n)
                 eOK(y) == CASE f.e.k = "uf" -> TRUE
                             [] f.e.k = "cr" -> DK(q, y) <= k
                             [] f.e.k = "p" -> DK(q, y) <= (IF nk THEN k ELSE k - f.e.n)
                             [] f.e.k = "f" -> DK(q, y) <= (IF nk THEN k ELSE k + f.e.n)
             IN {y \in Pt : sOK(y) /\ eOK(y)})

\* ------------------------------------------------------------------ aggregates over a set of rows
Arg(q, r) == IF q.arg = "abs" THEN (IF IsN(RV(r)) THEN NULL ELSE I(Abs(RV(r).v))) ELSE RV(r)
AggOver(q, X) ==
  LET nn == {y \in X : ~IsN(Arg(q, y))}
      val == [y \in nn |-> Arg(q, y).v]
  IN CASE q.fn = "countstar" -> I(Cardinality(X))
       [] q.fn = "count" -> I(Cardinality(nn))
       [] q.fn = "sum" -> (IF nn = {} THEN NULL ELSE I(SumSet(nn, val)))
       [] q.fn = "avg" -> (IF nn = {} THEN NULL ELSE Q(SumSet(nn, val), Cardinality(nn)))
       [] q.fn = "min" -> (IF nn = {} THEN NULL ELSE I(CHOOSE m \in {val[y] : y \in nn} : \A y \in nn : m <= val[y]))
       [] q.fn = "max" -> (IF nn = {} THEN NULL ELSE I(CHOOSE m \in {val[y] : y \in nn} : \A y \in nn : m >= val[y]))

\* ------------------------------------------------------------------ the value of the window function at row r
NtileOf(n, k, pos) ==      \* bucket of position pos among n rows in k buckets: the first n % k buckets hold one row more
  LET base == n \div k
      rem == n % k
      big == rem * (base + 1)
  IN IF pos <= big THEN ((pos - 1) \div (base + 1)) + 1 ELSE rem + ((pos - big - 1) \div base) + 1

WinVal(T, q, rn, r) ==
  LET Pt == PartOf(T, q, r)
      n == Cardinality(Pt)
      me == rn[RId(r)]
      At(pos) == CHOOSE y \in Pt : rn[RId(y)] = pos
      rank == 1 + Cardinality({y \in Pt : Before(q, y, r)})
  IN CASE q.fn = "row_number" -> I(me)
       [] q.fn = "rank" -> I(rank)
       [] q.fn = "dense_rank" -> I(1 + Cardinality({DK(q, y) : y \in {z \in Pt : Before(q, z, r)}}))
       [] q.fn = "percent_rank" -> (IF n = 1 THEN I(0) ELSE Q(rank - 1, n - 1))
       [] q.fn = "ntile" -> I(NtileOf(n, q.k, me))
       [] q.fn = "lag" -> (IF me - q.k >= 1 /\ me - q.k <= n THEN RV(At(me - q.k)) ELSE q.def)
       [] q.fn = "lead" -> (IF me + q.k >= 1 /\ me + q.k <= n THEN RV(At(me + q.k)) ELSE q.def)
       [] q.fn = "first_value" ->
            (LET F == Frame(T, q, rn, r) IN
             IF F = {} THEN NULL ELSE RV(CHOOSE y \in F : \A z \in F : rn[RId(y)] <= rn[RId(z)]))
       [] q.fn = "last_value" ->
            (LET F == Frame(T, q, rn, r) IN
             IF F = {} THEN NULL ELSE RV(CHOOSE y \in F : \A z \in F : rn[RId(y)] >= rn[RId(z)]))
       [] OTHER -> AggOver(q, Frame(T, q, rn, r))

\* ------------------------------------------------------------------ plain aggregates (GROUP BY p | one global group)
\*   q = [fn, arg, group, ord, dist]:  fn as above plus "group_concat" (ord "none": any order; "oid": ORDER BY o, id;
\*   "vdesc": ORDER BY v DESC; dist: DISTINCT), "bit_and" "bit_or" "bit_xor" (arg "abs": small non-negative
\*   integers), "json_arrayagg".  List results are [t |-> "l", v |-> <<values>>].
L(s) == [t |-> "l", v |-> s]
AllOnes == [t |-> "big", s |-> "18446744073709551615"]     \* BIT_AND of no rows: kept symbolic
Pow2(b) == CASE b = 0 -> 1 [] b = 1 -> 2 [] b = 2 -> 4 [] b = 3 -> 8 [] b = 4 -> 16
Bit(x, b) == (x \div Pow2(b)) % 2
Bits == 0..4
GroupsOf(T, q) == IF q.group THEN {PartOf(T, [part |-> TRUE], r) : r \in Range(T)} ELSE {Range(T)}

CountSeq(s, x) == Cardinality({i \in DOMAIN s : s[i] = x})
BagEq(s, t) == Len(s) = Len(t) /\ \A i \in DOMAIN s : CountSeq(s, s[i]) = CountSeq(t, s[i])

\* rows of X sorted by (o NULLs first, id): the order GROUP_CONCAT(v ORDER BY o, id) prescribes
OidLt(x, y) == OrdCmp(RO(x), RO(y), "none") < 0 \/ (OrdCmp(RO(x), RO(y), "none") = 0 /\ RId(x) < RId(y))
RECURSIVE SetToSeq(_)
SetToSeq(X) == IF X = {} THEN <<>> ELSE LET x == CHOOSE y \in X : TRUE IN <<x>> \o SetToSeq(X \ {x})

\* does the reported value `got` agree with the definition for the group X ?
AggOK(q, X, got) ==
  LET nn == {y \in X : ~IsN(Arg(q, y))}
      val == [y \in nn |-> Arg(q, y).v]
  IN CASE q.fn = "group_concat" ->
            (IF nn = {} THEN IsN(got)
             ELSE got.t = "l" /\
                  (CASE q.dist -> (LET ds == SortSeq(SetToSeq({val[y] : y \in nn}), LAMBDA a, b : a > b)
                                   IN IF q.ord = "vdesc" THEN got.v = [i \in DOMAIN ds |-> I(ds[i])]
                                      ELSE BagEq(got.v, [i \in DOMAIN ds |-> I(ds[i])]))
                     [] q.ord = "oid" -> (LET s == SortSeq(SetToSeq(nn), OidLt) IN got.v = [i \in DOMAIN s |-> RV(s[i])])
                     [] q.ord = "vdesc" -> (LET s == SortSeq(SetToSeq(nn), LAMBDA a, b : val[a] > val[b]) IN got.v = [i \in DOMAIN s |-> RV(s[i])])
                     [] OTHER -> (LET s == SetToSeq(nn) IN BagEq(got.v, [i \in DOMAIN s |-> RV(s[i])]))))
       [] q.fn = "json_arrayagg" ->
            (IF X = {} THEN IsN(got)
             ELSE got.t = "l" /\ (LET s == SetToSeq(X) IN BagEq(got.v, [i \in DOMAIN s |-> RV(s[i])])))
       [] q.fn = "bit_and" -> (IF nn = {} THEN got = AllOnes
                               ELSE got = I(SumSet(Bits, [b \in Bits |-> IF \A y \in nn : Bit(val[y], b) = 1 THEN Pow2(b) ELSE 0])))
       [] q.fn = "bit_or" -> got = I(SumSet(Bits, [b \in Bits |-> IF \E y \in nn : Bit(val[y], b) = 1 THEN Pow2(b) ELSE 0]))
       [] q.fn = "bit_xor" -> got = I(SumSet(Bits, [b \in Bits |-> IF Cardinality({y \in nn : Bit(val[y], b) = 1}) % 2 = 1 THEN Pow2(b) ELSE 0]))
       [] OTHER -> ValMatch(got, AggOver(q, X), "none")
=============================================================================
