INIT Init
NEXT Next
CONSTANTS
  NS = 2
  Mech = "shared"
  MaxLog = 2
  Vals = {0}
VIEW View0
CONSTRAINT Bounded
INVARIANTS NoDirtyRead
PROPERTIES RollbackRestores
CHECK_DEADLOCK FALSE
