------------------------------- MODULE MC_Wire -------------------------------
(* C28, design half.  TLC enumerates bounded value spaces per column type and checks that the
   specification of the wire format (WireFormat.tla) is a consistent codec:

     TextRoundTrip   Parse(ty, Format(ty, v)) = v          (the text denotes the value)
     TextLength      Len(Format(ty, v)) <= Announced(ty)   (with the specification's own formula)
     BinRoundTrip    ParseBin(ty, FormatBin(ty, v)) = v    (binary protocol, announced code/flags of the spec)
     RowFraming      TextRow / BinRow recover the value bytes, NULL is distinct from every value
     Injective       (cfg "pairs") two different values of a type never share a text or a binary form
     NumeralOK       (kind "num") the normal form of a numeral does not depend on its spelling

   The type is chosen in Init, the value in Next (initial states are computed on one thread).
   Emit prints (type, value, expected text) triples for binding A: the engine must send exactly
   these bytes. *)
EXTENDS WireFormat, Json

CONSTANTS Big      \* FALSE: quick tier (smaller value spaces); TRUE: thorough

NoMem == <<>>
TInt(bits, uns) == Ty("int", bits, uns, 0, 0, 0, "", NoMem)
TDec(p, s) == Ty("dec", 0, FALSE, p, s, 0, "", NoMem)
TKind(k) == Ty(k, 0, FALSE, 0, 0, 0, "", NoMem)
TFsp(k, fsp) == Ty(k, 0, FALSE, 0, fsp, 0, "", NoMem)
TBitN(n) == Ty("bit", 0, TRUE, 0, 0, n, "", NoMem)
TStr(k, n, cs) == Ty(k, 0, FALSE, 0, 0, n, cs, NoMem)
\* members:  'a'  'bé'  '€x'  (the latin1 variant of the third: 'ÿx')
Members(cs) == IF cs = "latin1" THEN << <<97>>, <<98, 233>>, <<255, 120>> >> ELSE << <<97>>, <<98, 233>>, <<8364, 120>> >>
TMem(k, cs) == Ty(k, 0, FALSE, 0, 0, 0, cs, Members(cs))

IntTypes == {TInt(b, u) : b \in {8, 16, 24, 32, 64}, u \in BOOLEAN}
DecTypes == {TDec(3, 1), TDec(2, 2), TDec(3, 0), TDec(65, 30)} \cup (IF Big THEN {TDec(5, 2), TDec(4, 0), TDec(1, 0), TDec(30, 30)} ELSE {})
DtTypes == {TKind("date")} \cup {TFsp(k, f) : k \in {"datetime", "timestamp"}, f \in 0..6}
BitTypes == {TBitN(n) : n \in {1, 7, 8, 9, 12, 16, 33, 63, 64}}
StrTypes == {TStr(k, 3, cs) : k \in {"char", "varchar"}, cs \in {"utf8mb4", "latin1"}} \cup {TStr("text", 255, "utf8mb4"), TStr("text", 65535, "latin1")}
ByteTypes == {TStr(k, 3, "binary") : k \in {"binary", "varbinary"}} \cup {TStr("blob", 255, "binary")}
MemTypes == {TMem(k, cs) : k \in {"enum", "set"}, cs \in {"utf8mb4", "latin1"}}
NumType == TKind("num")
Types == IntTypes \cup DecTypes \cup DtTypes \cup BitTypes \cup StrTypes \cup ByteTypes \cup MemTypes
         \cup {TKind("year"), TKind("time"), NumType}

\* ---- value spaces --------------------------------------------------------------------------------
RECURSIVE Pow2(_)
Pow2(k) == IF k = 0 THEN <<1>> ELSE MulAdd(Pow2(k - 1), 2, 0)
Nines(n) == [i \in 1..n |-> 9]
TenPow(n) == <<1>> \o Zeros(n)
MaxOf(ty) == IF ty.uns THEN Dec1(Pow2(ty.bits)) ELSE Dec1(Pow2(ty.bits - 1))
MinMagOf(ty) == IF ty.uns THEN <<0>> ELSE Pow2(ty.bits - 1)
\* magnitudes at the decimal and binary edges of a width
EdgeMags(bits) == {<<0>>, <<1>>, <<9>>}
                  \cup {Nines(n) : n \in 1..20} \cup {TenPow(n) : n \in 1..19}
                  \cup UNION {{Pow2(k), Dec1(Pow2(k)), AddSmall(Pow2(k), 1)} : k \in {7, 8, 15, 16, 23, 24, 31, 32, 63, 64} \cap (1..bits)}
IntValues(ty) ==
    IF ty.bits = 8 THEN {IntV(n) : n \in (IF ty.uns THEN 0..255 ELSE -128..127)}
    ELSE {[neg |-> FALSE, d |-> m] : m \in {x \in EdgeMags(ty.bits) : MagLe(x, MaxOf(ty))}}
         \cup {[neg |-> TRUE, d |-> m] : m \in {x \in EdgeMags(ty.bits) : MagLe(x, MinMagOf(ty)) /\ ~IsZeroD(x)}}
         \cup (IF Big /\ ty.bits = 16 THEN {IntV(n) : n \in (IF ty.uns THEN 0..65535 ELSE -32768..32767)} ELSE {})

BitValues(ty) == IF ty.n <= 9 \/ (Big /\ ty.n <= 16) THEN {IntV(n) : n \in 0..(2 ^ ty.n - 1)}
                 ELSE {[neg |-> FALSE, d |-> m] : m \in {x \in EdgeMags(ty.n) \cup {<<1, 0, 9, 2, 2>>} : MagLe(x, Dec1(Pow2(ty.n)))}}

\* all digit strings of one length
RECURSIVE DigitStrs(_)
DigitStrs(n) == IF n = 0 THEN {<<>>} ELSE {<<a>> \o r : a \in 0..9, r \in DigitStrs(n - 1)}
NormSign(x) == [x EXCEPT !.neg = x.neg /\ ~(IsZeroD(x.ip) /\ IsZeroD(x.fp))]
DecValues(ty) ==
    LET ni == ty.p - ty.s IN
    IF ty.p <= 5
    THEN {NormSign(x) : x \in [neg : BOOLEAN, ip : {StripZ(d) : d \in (IF ni = 0 THEN {<<0>>} ELSE DigitStrs(ni))}, fp : DigitStrs(ty.s)]}
    ELSE {NormSign(x) : x \in [neg : BOOLEAN,
                               ip : IF ni = 0 THEN {<<0>>} ELSE {<<0>>, <<1>>, Nines(ni), TenPow(ni - 1), <<1, 2, 3>>},
                               fp : {Zeros(ty.s), Nines(ty.s), Zeros(ty.s - 1) \o <<1>>, <<5>> \o Zeros(ty.s - 1)}]}

Years == {0, 1, 999, 1000, 1999, 2000, 2024, 2100, 9999}
MonthDays == {<<1, 1>>, <<1, 31>>, <<2, 28>>, <<2, 29>>, <<3, 1>>, <<4, 30>>, <<9, 9>>, <<10, 10>>, <<12, 31>>}
Clocks == {<<0, 0, 0>>, <<23, 59, 59>>, <<12, 34, 56>>, <<9, 5, 7>>}
Unit(fsp) == 10 ^ (6 - fsp)
Micros(fsp) == {0} \cup (IF fsp = 0 THEN {} ELSE {Unit(fsp), 999999 - Mod(999999, Unit(fsp)), 500000, Unit(fsp) * 7})
DtValues(ty) ==
    {DtV(0, 0, 0, 0, 0, 0, 0)}
    \cup (IF ty.k = "date" THEN {DtV(y, md[1], md[2], 0, 0, 0, 0) : y \in Years, md \in MonthDays}
          ELSE {DtV(y, md[1], md[2], c[1], c[2], c[3], us) : y \in (IF Big THEN Years ELSE {0, 999, 2024, 9999}), md \in MonthDays, c \in Clocks, us \in Micros(ty.s)})
NormT(x) == [x EXCEPT !.neg = x.neg /\ (x.h + x.mi + x.s + x.us > 0)]
\* TIME ranges over -838:59:59.000000 .. 838:59:59.000000
TimeValues == {x \in {NormT([neg |-> n, h |-> h, mi |-> mi, s |-> s, us |-> us]) :
                         n \in BOOLEAN, h \in {0, 1, 9, 10, 23, 24, 99, 100, 500, 838}, mi \in {0, 7, 59}, s \in {0, 8, 59}, us \in {0, 1, 100, 500000, 999999}} :
                 ~(x.h = 838 /\ x.mi = 59 /\ x.s = 59 /\ x.us > 0)}

RECURSIVE SeqsUpTo(_, _)
SeqsUpTo(A, n) == IF n = 0 THEN {<<>>} ELSE SeqsUpTo(A, n - 1) \cup {Append(s, a) : s \in {x \in SeqsUpTo(A, n - 1) : Len(x) = n - 1}, a \in A}
\* NUL, 'A', ',', 'é', 'ÿ', '€' (0x80 in cp1252), U+1F600 (four bytes), U+0800 (first three-byte code point)
CpAlphabet(cs) == IF cs = "latin1" THEN {0, 65, 44, 233, 255, 8364} ELSE {0, 65, 44, 233, 255, 8364, 128512, 2048}
StrValues(ty) == SeqsUpTo(CpAlphabet(ty.cs), IF Big THEN 3 ELSE 2) \cup {[i \in 1..3 |-> 233]}
\* BINARY(n) values are exactly n bytes (the store pads with 0x00); VARBINARY / BLOB values have any length
ByteValues(ty) == IF ty.k = "binary" THEN {x \in SeqsUpTo({0, 65, 128, 255}, 3) : Len(x) = ty.n} ELSE SeqsUpTo({0, 65, 128, 255}, 3)

Values(ty) ==
    CASE ty.k = "int" -> IntValues(ty)
      [] ty.k = "year" -> {IntV(0)} \cup {IntV(y) : y \in 1901..2155}
      [] ty.k = "bit" -> BitValues(ty)
      [] ty.k = "dec" -> DecValues(ty)
      [] ty.k \in DtKinds -> DtValues(ty)
      [] ty.k = "time" -> TimeValues
      [] ty.k \in CharKinds -> StrValues(ty)
      [] ty.k \in ByteKinds -> ByteValues(ty)
      [] ty.k = "enum" -> 1..3
      [] ty.k = "set" -> SUBSET (1..3)
      [] ty.k = "num" -> {[neg |-> n, m |-> m, e |-> e] : n \in BOOLEAN, e \in {-45, -5, -4, 0, 1, 2, 6, 7, 21, 38, 308},
                                    m \in {<<1>>, <<1, 2>>, <<9, 0, 5>>, <<1, 2, 3, 4, 5, 6, 7, 8, 9>>, <<1, 7, 9, 7, 6, 9, 3, 1, 3, 4, 8, 6, 2, 3, 1, 5, 7>>}}
                         \cup {[neg |-> FALSE, m |-> <<>>, e |-> 0]}

\* result character sets under which a type is exercised (a value must be encodable in it)
Rcss(ty) == IF ty.k \in CharKinds \cup {"enum", "set"} THEN {"utf8mb4", "latin1"} ELSE {"utf8mb4"}
Encodable(ty, v, rcs) ==
    IF rcs # "latin1" THEN TRUE
    ELSE CASE ty.k \in CharKinds -> InLatin1(v)
           [] ty.k = "enum" -> InLatin1(ty.mem[v])
           [] ty.k = "set" -> \A i \in v : InLatin1(ty.mem[i])
           [] OTHER -> TRUE

VARIABLES ty, v, w, rcs, phase
vars == <<ty, v, w, rcs, phase>>

Init == ty \in Types /\ v = 0 /\ w = 0 /\ rcs = "utf8mb4" /\ phase = 0
Next == /\ phase = 0
        /\ phase' = 1
        /\ ty' = ty /\ w' = w
        /\ rcs' \in Rcss(ty)
        /\ v' \in {x \in Values(ty) : Encodable(ty, x, rcs')}

\* ---- the codec laws ------------------------------------------------------------------------------
SameValue(t, a, b) == IF t.k = "dec" THEN NormDec(a) = NormDec(b) ELSE a = b
TextRoundTrip == LET r == Parse(ty, Format(ty, v, rcs), TextCs(ty, rcs)) IN r.ok /\ SameValue(ty, r.v, v)
TextLength == Len(Format(ty, v, rcs)) <= Announced(ty, rcs)
BinRoundTrip == LET r == ParseBin(ty, CodeOf(ty), ty.uns, FormatBin(ty, v, rcs), TextCs(ty, rcs)) IN r.ok /\ SameValue(ty, r.v, v)
RowFraming == LET t == Format(ty, v, rcs)
                  tr == TextRow(LenEncOf(t))
                  br == BinRow(<<0, 0>> \o FormatBin(ty, v, rcs)) IN
              /\ tr.ok /\ ~tr.null /\ tr.v = t
              /\ br.ok /\ ~br.null /\ br.v = FormatBin(ty, v, rcs)
              /\ LenEncOf(t) # <<251>>
NumeralOK == LET a == Numeral(FmtSci(v))
                 b == Numeral(FmtFix(v)) IN
             a.ok /\ b.ok /\ SameNumber(a.v, v) /\ SameNumber(b.v, v) /\ a.v = b.v
ModelOK == phase = 1 => IF ty.k = "num" THEN NumeralOK ELSE TextRoundTrip /\ TextLength /\ BinRoundTrip /\ RowFraming

\* NULL is framed differently from every value
ASSUME TextRow(<<251>>).null /\ BinRow(<<0, 4>>).null /\ ~TextRow(<<0>>).null /\ ~BinRow(<<0, 0, 0>>).null

\* ---- injectivity (cfg MC_Wire_pairs): chosen small types, all pairs of values ---------------------
PairTypes == {TInt(8, FALSE), TInt(8, TRUE), TDec(2, 1), TKind("year"), TBitN(7), TStr("varchar", 3, "utf8mb4"), TMem("set", "utf8mb4")}
             \cup (IF Big THEN {TBitN(9), TKind("time"), TFsp("datetime", 3)} ELSE {})
PInit == ty \in PairTypes /\ v = 0 /\ w = 0 /\ rcs = "utf8mb4" /\ phase = 0
PNext == /\ phase = 0
         /\ phase' = 1
         /\ ty' = ty /\ rcs' = rcs
         /\ v' \in Values(ty)
         /\ w' \in Values(ty)
Injective == (phase = 1 /\ ~SameValue(ty, v, w)) =>
             /\ Format(ty, v, rcs) # Format(ty, w, rcs)
             /\ FormatBin(ty, v, rcs) # FormatBin(ty, w, rcs)

\* ---- binding A: expected texts for the engine -----------------------------------------------------
\* the types whose spelling the protocol fixes (everything but the numeral normal-form pseudo type)
EmitOK(t, x) == t.k # "num"
\* a JSON-friendly rendering of the abstract value (sets as sorted sequences)
ValJ(t, x) == CASE t.k = "set" -> [m |-> [i \in 1..Cardinality(x) |-> CHOOSE k \in x : Cardinality({j \in x : j < k}) = i - 1]]
                [] t.k = "enum" -> [i |-> x]
                [] t.k \in CharKinds -> [cp |-> x]
                [] t.k \in ByteKinds -> [b |-> x]
                [] OTHER -> x
Emit == IF EmitOK(ty', v') THEN PrintT("CASE " \o ToJson([ty |-> ty', v |-> ValJ(ty', v'), rcs |-> rcs', text |-> Format(ty', v', rcs')])) ELSE TRUE
=============================================================================
