CONSTANT Big = TRUE
INIT Init
NEXT Next
INVARIANT Laws
ACTION_CONSTRAINT Emit
CHECK_DEADLOCK FALSE
