CONSTANT Years <- YearsThorough
CONSTANT Ops = {}
INIT SInit
NEXT SNext
INVARIANT Sanity
CHECK_DEADLOCK FALSE
