------------------------------ MODULE MC_FullText ------------------------------
(* C51, model side.  (1) Exhaustive: every string of <= 6 characters over {a, b, ', space, _, 1, A}
   satisfies TokenizerSane (well-formed words, idempotence, apostrophe rules, substring property).
   The first character is chosen in Init, the rest in Next (initial states are computed on one thread).
   (2) The sampling of cases for the real engine is MC_FullTextCases. *)
EXTENDS FullText, Json

Alpha == {97, 98, 39, 32, 95, 49, 65}           \* a b ' space _ 1 A
MaxLen == 6

VARIABLES d, phase
vars == <<d, phase>>

Strs(n) == UNION {[1..k -> Alpha] : k \in 0..n}

Init == phase = 0 /\ d \in Strs(1)
Next == /\ phase = 0
        /\ phase' = 1
        /\ \E rest \in Strs(MaxLen - 1) : d' = d \o rest

Sane == TokenizerSane(d)
\* spot facts (apostrophe rules, minimum length, underscore is a word character)
S(str) == str
Facts ==
    /\ Tokenize(<<97, 39, 98>>) = << <<97, 39, 98>> >>                         \* a'b   one word
    /\ Tokenize(<<97, 98, 39>>) = <<>>                                          \* ab'   -> ab, too short
    /\ Tokenize(<<97, 98, 49, 39, 39, 97, 98, 49>>) = << <<97, 98, 49>>, <<97, 98, 49>> >>   \* ab1''ab1 two words
    /\ Tokenize(<<39, 97, 98, 49, 39>>) = << <<97, 98, 49>> >>                  \* 'ab1' -> ab1
    /\ Tokenize(<<97, 95, 98>>) = << <<97, 95, 98>> >>                          \* a_b   one word
    /\ Tokenize(<<97, 98>>) = <<>> /\ Tokenize(<<97, 98, 98>>) = << <<97, 98, 98>> >>
    /\ Match(<<65, 66, 67>>, <<97, 98, 99>>, "ci") /\ ~Match(<<65, 66, 67>>, <<97, 98, 99>>, "bin")
\* the length boundary of the index (evaluated in one state only, and not in an initial state: initial
\* states are computed on the JVM's main thread, whose stack is too small for 250 recursion levels)
LongDoc == Rep(83, 113) \o <<32>> \o Rep(85, 113) \o <<44>> \o Rep(84, 107) \o <<39>> \o Rep(84, 81) \o <<39, 39>> \o Rep(84, 113) \o <<39>>
LongFacts ==
    /\ Tokenize(LongDoc) = TokenizeSM(LongDoc) /\ Len(Tokenize(LongDoc)) = 2
    /\ Tokenize(Rep(84, 113)) = << Rep(84, 113) >>                               \* exactly the maximum: indexed
    /\ Tokenize(Rep(85, 113)) = <<>>                                            \* longer: not indexed
    /\ Tokenize(Rep(83, 113) \o <<32>> \o Rep(85, 113) \o <<44>> \o Rep(84, 107)) = << Rep(83, 113), Rep(84, 107) >>
    /\ Match(Rep(84, 113), <<97, 98, 32>> \o Rep(84, 113), "bin") /\ ~Match(Rep(85, 113), Rep(85, 113), "bin")
    /\ ~Match(Rep(84, 113), Rep(83, 113), "bin") /\ Match(Rep(84, 81), Rep(84, 113), "ci")
ModelOK == Sane /\ Facts /\ ((phase = 1 /\ d = <<97>>) => LongFacts)

=============================================================================
