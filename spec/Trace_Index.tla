---------------------------- MODULE Trace_Index ----------------------------
(* Binding B of C03 (index lookups return exactly the rows a full scan would).  trace.ndjson lines:
     {"ev":"db", "db": {"t": {"w": n, "rows": [[v..]..]}}}       -- the rows of BOTH physical tables
     {"ev":"ix", "id": n, "q": <SELECT * FROM t WHERE f as AST>,
                 "ri": <result through the table with keys>, "rn": <result through the key-free copy>,
                 "lk": {"has": BOOLEAN, "cols": <<table ordinals of the index columns>>, "colls": <<..>>,
                        "ranges": << << [lo |-> cut, hi |-> cut], .. >>, .. >>, "exact": BOOLEAN,
                        "dom": << probe rows >>}}                 -- absent when the plan scans
   cut = [c |-> "bn"] BelowNull | [c |-> "an"] AboveNull | [c |-> "aa"] AboveAll
       | [c |-> "b", v |-> value] Below(value) | [c |-> "a", v |-> value] Above(value)

   The meaning of an index lookup is the meaning of the query: {r \in t : Eval(f, r) IS TRUE}.
   Judged per event:
     indexed / scan   each result is an acceptable result of the query (SQLSem!ResultOK);
     differ           the two results are equal as bags (the property as stated);
     range-construction  the ranges the planner built contain every point where f is TRUE, and
                      nothing else when no Filter node remains above the lookup (`exact`) -- checked
                      point by point with Member on the probe rows and on the table's rows;
     range-execution  the rows returned through the index are rows whose key is a Member of the
                      logged ranges (all of them when `exact`).
   Every line is consumed; a disagreement prints `MM <json>` and validation continues. *)
EXTENDS SQLSem, Json

TraceLog == ndJsonDeserialize("trace.ndjson")

VARIABLES l, db
vars == <<l, db>>

Init == l = 1 /\ db = <<>>

\* ---- membership of a key point in a range (NULL is its own lowest point) -----------------------
\* the lower cut lies below point p / the upper cut lies above point p, under collation c
LoBelow(lo, p, c) ==
  CASE lo.c = "bn" -> TRUE
    [] lo.c = "an" -> ~IsN(p)
    [] lo.c = "aa" -> FALSE
    [] lo.c = "b" -> ~IsN(p) /\ CmpNN(p, lo.v, c) >= 0
    [] lo.c = "a" -> ~IsN(p) /\ CmpNN(p, lo.v, c) > 0
HiAbove(hi, p, c) ==
  CASE hi.c = "bn" -> FALSE
    [] hi.c = "an" -> IsN(p)
    [] hi.c = "aa" -> TRUE
    [] hi.c = "b" -> IsN(p) \/ CmpNN(p, hi.v, c) < 0
    [] hi.c = "a" -> IsN(p) \/ CmpNN(p, hi.v, c) <= 0
InRce(x, p, c) == LoBelow(x.lo, p, c) /\ HiAbove(x.hi, p, c)
\* a row is selected by the lookup iff its key lies in one of the ranges (a range constrains the
\* first Len(range) index columns)
Member(lk, row) ==
  \E k \in DOMAIN lk.ranges :
     \A j \in DOMAIN lk.ranges[k] : InRce(lk.ranges[k][j], row[lk.cols[j]], lk.colls[j])

HasLk(e) == "lk" \in DOMAIN e /\ e.lk.has
Holds(q, r) == IsTrue(Eval(q.where, <<r>>, <<>>, db))

\* probe / table rows on which the built ranges disagree with the filter
BadPoints(e) ==
  LET pts == e.lk.dom \o db.t.rows IN
  {i \in DOMAIN pts : LET t == Holds(e.q, pts[i]) m == Member(e.lk, pts[i]) IN
                      (t /\ ~m) \/ (e.lk.exact /\ m /\ ~t)}
ExecOK(e) ==
  e.ri.kind = "rows" =>
     LET sel == SelectSeq(db.t.rows, LAMBDA r : Member(e.lk, r)) IN
     /\ SubBagM(e.ri.rows, sel, OutColls(e.q))
     /\ e.lk.exact => Len(e.ri.rows) = Len(sel)

OkRes(q, res) == res.kind = "rows" /\ ResultOK(q, db, res.rows)

Judge(e) ==
  IF e.ev # "ix" THEN TRUE ELSE
  LET okI == OkRes(e.q, e.ri)
      okN == OkRes(e.q, e.rn)
      same == e.ri.kind = "rows" /\ e.rn.kind = "rows" /\ BagEqRows(e.ri.rows, e.rn.rows, OutColls(e.q))
      badp == IF HasLk(e) THEN BadPoints(e) ELSE {}
      exec == IF HasLk(e) THEN ExecOK(e) ELSE TRUE
      bad == (IF okI THEN <<>> ELSE <<"indexed">>) \o (IF okN THEN <<>> ELSE <<"scan">>)
             \o (IF same THEN <<>> ELSE <<"differ">>)
             \o (IF badp = {} THEN <<>> ELSE <<"range-construction">>)
             \o (IF exec THEN <<>> ELSE <<"range-execution">>)
  IN IF bad = <<>> THEN TRUE
     ELSE PrintT("MM " \o ToJson([l |-> l, id |-> e.id, bad |-> bad, exp |-> Rows(e.q, <<>>, db),
                                   point |-> IF badp = {} THEN <<>>
                                             ELSE (e.lk.dom \o db.t.rows)[CHOOSE i \in badp : TRUE]]))

Next ==
  /\ l <= Len(TraceLog)
  /\ l' = l + 1
  /\ LET e == TraceLog[l] IN
     IF e.ev = "db" THEN db' = e.db
     ELSE db' = db /\ Judge(e)

HW == TLCSet(1, l)
Accepted == TLCGet(1) = Len(TraceLog) + 1
=============================================================================
