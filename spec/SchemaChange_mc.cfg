CONSTANTS
  ColNames = {"a", "b", "c"}
  IdxNames = {"i1"}
  MaxCols = 3
  MaxRows = 2
  MaxSteps = 1
  Level = "tiny"
  MCTpls = {1, 5}
INIT InitMC
NEXT Next
VIEW View
INVARIANTS TypeOK ColumnNamesUnique KeyColsExist ValuesTyped Integrity PKNotNull
PROPERTIES DataPreserved
CHECK_DEADLOCK FALSE
