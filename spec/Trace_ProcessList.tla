------------------------- MODULE Trace_ProcessList -------------------------
(* C37, binding B.  Validates traces recorded from a real in-process server (server.NewServer, real
   MySQL clients issuing SELECT SLEEP(x), KILL QUERY, KILL CONNECTION, USE, prepared statements,
   disconnects).  The recorder (harness/cmd/c37, -mode server) wraps the real sqle.ProcessList the
   server uses: every ProcessList call the HANDLER makes is one logged event, in the order the calls
   were applied (the recorder serialises them), with the observation taken right after the call.

   Each event must be a step of ProcessList.tla -- so the environment discipline written into the
   guards of that specification is itself checked against what the real handler does -- and the
   observation must agree with the specification's state after the step:
     list          Processes(): connection, Command, QueryPid, "Kill stored", Query text shown iff pid
     cancelled     contexts that are cancelled although their parent context is alive: cancelled by
                   the process list.  Contexts whose parent is done (query finished, client gone) are
                   "parentdone": the server cancelled them itself, nothing is required of them.
     tconn / trun  judged against the ground truth |live| / |running|.

   Several traces are concatenated with "reset" events.  The trace is a single linear behaviour; when
   an event is not a step of the specification TLC stops there and the position is reported. *)
EXTENDS Integers, FiniteSets, Sequences, TLC, Json

VARIABLES procs, byPid, ntok, cancelled, tconn, trun,
          live, running, stale, ops, errs,
          act, ret, hist, l

TraceLog == ndJsonDeserialize("c37_trace.ndjson")

ToSet(s) == {s[i] : i \in DOMAIN s}
TConns == {TraceLog[i].c : i \in DOMAIN TraceLog} \ {0}
TPids == {TraceLog[i].p : i \in DOMAIN TraceLog} \ {0}

PL == INSTANCE ProcessList WITH Conns <- TConns, Pids <- TPids, MaxTok <- 1000000, MaxErr <- 1000000

Ev == TraceLog[l]

TraceInit == PL!Init /\ l = 1

Step(e) ==
    CASE e.name = "AddConnection" -> PL!AddConnection(e.c)
      [] e.name = "ConnectionReady" -> PL!ConnectionReady(e.c)
      [] e.name = "RemoveConnection" -> PL!RemoveConnection(e.c)
      [] e.name = "Kill" -> PL!Kill(e.c)
      [] e.name = "BeginQuery" -> PL!BeginQuery(e.c, e.p)
      [] e.name = "BeginOperation" -> PL!BeginOperation(e.c)
      [] e.name = "EndQuery" ->
            IF \E r \in running : r.c = e.c /\ r.pid = e.p /\ r.tok = e.t
            THEN \E r \in running : r.c = e.c /\ r.pid = e.p /\ r.tok = e.t /\ PL!EndQuery(r)
            ELSE PL!EndQueryAgain(e.c, e.p)      \* the repeated EndQuery of a finished query
      [] e.name = "EndOperation" -> \E o \in ops : o.c = e.c /\ o.tok = e.t /\ PL!EndOperation(o)
      [] OTHER -> FALSE

\* the specification's state, projected like the recorder's observation
Shown == {[c |-> c, cmd |-> procs[c].cmd, pid |-> procs[c].pid, k |-> procs[c].tok # 0] : c \in PL!Registered}
Expected == [procs |-> Shown, ntok |-> ntok, cancelled |-> cancelled, ret |-> ret,
             nlive |-> Cardinality(live), nrunl |-> PL!RunLo, nrun |-> PL!RunHi]

ObsMatches(e) ==
    LET o == e.obs IN
    /\ {[c |-> x.c, cmd |-> x.cmd, pid |-> x.pid, k |-> x.k] : x \in ToSet(o.procs)} = Shown
    /\ \A x \in ToSet(o.procs) : x.hasq = (x.pid # 0)
    /\ o.ntok = ntok
    /\ ToSet(o.cancelled) \subseteq cancelled
    /\ cancelled \subseteq (ToSet(o.cancelled) \cup ToSet(o.parentdone))
    /\ o.tconn = Cardinality(live)
    /\ o.trun \in PL!RunLo..PL!RunHi
    /\ e.name \in {"BeginQuery", "BeginOperation"} => e.r = ret

Check(e) == IF ObsMatches(e)' THEN TRUE
            ELSE PrintT("MM " \o ToJson([l |-> l, name |-> e.name, expected |-> Expected'])) /\ FALSE

Reset ==
    /\ procs' = [c \in TConns |-> PL!None]
    /\ byPid' = [p \in TPids |-> 0]
    /\ ntok' = 0 /\ cancelled' = {} /\ tconn' = 0 /\ trun' = 0
    /\ live' = {} /\ running' = {} /\ stale' = {} /\ ops' = {} /\ errs' = 0
    /\ act' = [name |-> "init", c |-> 0, p |-> 0, t |-> 0, cls |-> ""]
    /\ ret' = "none" /\ hist' = <<>>

TraceNext ==
    /\ l <= Len(TraceLog)
    /\ l' = l + 1
    /\ \E e \in {Ev} :      \* bound, so that priming Check does not move on to the next event
          IF e.name = "reset" THEN Reset ELSE (Step(e) /\ Check(e))

\* acceptance: the whole log was consumed
HW == TLCSet(1, l)
Accepted == IF TLCGet(1) = Len(TraceLog) + 1 THEN TRUE
            ELSE PrintT("STOPPED " \o ToString(TLCGet(1))) /\ FALSE

\* the model invariants, evaluated along the real server's behaviour
PidIndex == PL!PidIndex
ListShowsLive == PL!ListShowsLive
ConnectedCounter == PL!ConnectedCounter
RunningCounter == PL!RunningCounter
=============================================================================
