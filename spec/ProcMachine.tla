----------------------------- MODULE ProcMachine -----------------------------
(* C24.  Stored procedures: CALL p(args) yields the OUT/INOUT values, result sets and table effects
   that a direct interpretation of the body yields.

   Two layers over program ASTs (records, field k = node kind):

   (a) RunS  -- the STRUCTURED semantics of the body language (MySQL manual 15.6 "Compound
       statements"): BEGIN..END blocks with DECLARE v INT [DEFAULT lit] (block scoping, shadowing),
       DECLARE {CONTINUE|EXIT} HANDLER FOR {SQLEXCEPTION|NOT FOUND} stmt, SET, IF/ELSEIF/ELSE, CASE
       (simple and searched; no matching WHEN and no ELSE => error 20000 "case not found"), WHILE,
       REPEAT..UNTIL, LOOP, labels on loops and blocks, LEAVE, ITERATE, IN/OUT/INOUT parameters,
       INSERT INTO log (the table effect), SELECT e (a result set), SIGNAL SQLSTATE '45000', an
       insert that raises a duplicate-key error (23000).  Big-step with a per-loop iteration bound
       (LoopBound): a run that would start iteration LoopBound+1 of some loop instance is EXCLUDED.

   (b) Compile + RunM -- the COMPILED machine the code actually runs, written by reading
       sql/procedures/parse.go (ConvertStmt, resolveGoToIndexes) and interpreter_logic.go (Call,
       execOp, handleError): an op list ScopeBegin/ScopeEnd/Declare/Handler/Set/Ins/Sel/Dup/Signal/
       If/Goto/Exception with 0-based indexes as in the code, a counter, a stack of scopes and the
       session's stored-procedure parameters.
       The machine takes a record q of switches.  With q = Coded it mirrors the code as written,
       including the places where the code deviates from (a); every such deviation adds a tag to
       m.tags at the moment its effect differs from the repaired behaviour.  With q = Fixed each
       deviation is replaced by the obvious repair.  The design theorem (checked by TLC in MC_Proc)
       is  Obs(RunM(Fixed)) = Obs(RunS)  for every program of the bounded grammar; for q = Coded the
       differences are predictions that binding A checks against the real engine.

   Values are SQLSem's: NULL = [t |-> "n"], I(n) = [t |-> "i", v |-> n].  OVF marks an arithmetic
   result outside [-Lim, Lim]; a run that produces it is excluded (int32 discipline of the Json
   module and of TLC's integers).

   Program:  [params |-> <<[n |-> name, m |-> "in"|"out"|"inout"]..>>, args |-> <<value..>>, body |-> block]
   Statements (k):  block(lbl, decls, hs, body)  set(v, e)  ins(e)  sel(e)  dup  sig
                    if(arms, els)  case(simple, e, arms, els)  while(lbl, c, body)  repeat(lbl, body, c)
                    loop(lbl, body)  leave(l)  iter(l)
     decl = [v, has, d]   handler = [act |-> "continue"|"exit", cond |-> "exc"|"nf", s |-> stmt]
     arm = [c, body]      lbl = "" when absent;  els = <<>> when absent
   Expressions (k): lit(v)  var(n)  op(op, a)   op in plus minus times eq ne lt le gt ge and or not isnull *)
EXTENDS SQLSem

CONSTANTS LoopBound,     \* iterations allowed per loop instance (3)
          StepFuel       \* op executions allowed to the machine before its outcome is "hang"

\* Scopes on the machine's stack before its outcome is "hang": terminating runs of the bounded grammar
\* nest at most 5 blocks and leak at most one scope per loop iteration (<= 81), so a deeper stack
\* only arises in runs that restart the body for ever.
StackFuel == 150

Lim == 10000
OVF == [t |-> "o", v |-> 0]
IsO(v) == v.t = "o"
EmptyF == [n \in {} |-> NULL]
Last(s) == s[Len(s)]
MaxOf(xs) == CHOOSE x \in xs : \A y \in xs : y <= x
MinOf(xs) == CHOOSE x \in xs : \A y \in xs : x <= y

\* ------------------------------------------------------------------ variables: frames + parameters
\* frames: sequence of [vars : name -> value, hs : sequence of handlers]; par : name -> [v, set]
RECURSIVE FrameOf(_, _, _)
FrameOf(fr, i, n) == IF i = 0 THEN 0 ELSE IF n \in DOMAIN fr[i].vars THEN i ELSE FrameOf(fr, i - 1, n)
GetV(fr, par, n) == LET i == FrameOf(fr, Len(fr), n) IN
                    IF i > 0 THEN fr[i].vars[n] ELSE IF n \in DOMAIN par THEN par[n].v ELSE NULL

\* ------------------------------------------------------------------ expressions
RECURSIVE EvalX(_, _, _)
EvalX(e, fr, par) ==
  CASE e.k = "lit" -> e.v
    [] e.k = "var" -> GetV(fr, par, e.n)
    [] OTHER ->
       (LET a1 == EvalX(e.a[1], fr, par) IN
        IF IsO(a1) THEN OVF
        ELSE IF e.op = "not" THEN Not3(a1)
        ELSE IF e.op = "isnull" THEN B(IsN(a1))
        ELSE LET a2 == EvalX(e.a[2], fr, par) IN
             IF IsO(a2) THEN OVF
             ELSE IF e.op \in {"plus", "minus", "times"} THEN
                    (LET r == Arith(e.op, a1, a2) IN
                     IF ~IsN(r) /\ (r.v > Lim \/ r.v < -Lim) THEN OVF ELSE r)
             ELSE IF e.op = "and" THEN And3(a1, a2)
             ELSE IF e.op = "or" THEN Or3(a1, a2)
             ELSE Cmp3(e.op, a1, a2, "none"))

RECURSIVE Refs(_)
Refs(e) == CASE e.k = "lit" -> {}
             [] e.k = "var" -> {e.n}
             [] OTHER -> UNION {Refs(e.a[i]) : i \in DOMAIN e.a}

Lit(v) == [k |-> "lit", v |-> v]
Var(n) == [k |-> "var", n |-> n]
Op1(o, x) == [k |-> "op", op |-> o, a |-> <<x>>]
Op2(o, x, y) == [k |-> "op", op |-> o, a |-> <<x, y>>]

\* the condition a CASE arm tests
ArmCond(s, arm) == IF s.simple THEN Op2("eq", s.e, arm.c) ELSE arm.c

\* ================================================================== (a) structured semantics
\* state: [fr, par, log, res, excl, nt];  completion signal g: norm | leave(l) | iter(l) | err(e) |
\* exit(d) (an EXIT handler of the block whose frame is d ran) | abort (run excluded)
Norm == [k |-> "norm"]
Abort == [k |-> "abort"]
R(st, g) == [s |-> st, g |-> g]
Excl(st) == R([st EXCEPT !.excl = TRUE], Abort)

SetVar(st, n, v) ==
  LET i == FrameOf(st.fr, Len(st.fr), n) IN
  IF i > 0 THEN [st EXCEPT !.fr[i].vars[n] = v]
  ELSE IF n \in DOMAIN st.par THEN [st EXCEPT !.par[n] = [v |-> v, set |-> TRUE]]
  ELSE st

DeclVars(decls) ==
  LET RECURSIVE D(_, _)
      D(i, f) == IF i > Len(decls) THEN f
                 ELSE D(i + 1, (decls[i].v :> (IF decls[i].has THEN decls[i].d ELSE NULL)) @@ f)
  IN D(1, EmptyF)

OwnLabel(s, g) == s.lbl # "" /\ g.l = s.lbl

RECURSIVE Exec(_, _), ExecSeq(_, _, _), Arms(_, _, _), WhileS(_, _, _), RepeatS(_, _, _), LoopS(_, _, _),
          Raise(_, _)

\* an SQLEXCEPTION-class condition e is raised by the statement being executed
Raise(st, e) ==
  LET ds == {d \in 1..Len(st.fr) : \E j \in DOMAIN st.fr[d].hs : st.fr[d].hs[j].cond = "exc"} IN
  IF ds = {} THEN R(st, [k |-> "err", e |-> e])
  ELSE LET d == MaxOf(ds)                    \* the innermost block that declares a matching handler
           hs == st.fr[d].hs
           h == hs[MinOf({j \in DOMAIN hs : hs[j].cond = "exc"})]
           \* the handler statement runs in the scope of the block that declares it
           r == Exec(h.s, [st EXCEPT !.fr = SubSeq(st.fr, 1, d), !.nt = TRUE])
           st2 == [r.s EXCEPT !.fr = r.s.fr \o SubSeq(st.fr, d + 1, Len(st.fr))]
       IN IF r.g.k # "norm" THEN R(st2, r.g)
          ELSE IF h.act = "continue" THEN R(st2, Norm)
          ELSE R(st2, [k |-> "exit", d |-> d])

ExecSeq(ss, i, st) ==
  IF i > Len(ss) THEN R(st, Norm)
  ELSE LET r == Exec(ss[i], st) IN
       IF r.g.k = "norm" THEN ExecSeq(ss, i + 1, r.s) ELSE r

Arms(s, i, st) ==        \* IF / CASE arms from i on
  IF i > Len(s.arms) THEN
     (IF s.els # <<>> THEN ExecSeq(s.els, 1, st)
      ELSE IF s.k = "case" THEN Raise(st, "20000") ELSE R(st, Norm))
  ELSE LET c == EvalX(IF s.k = "case" THEN ArmCond(s, s.arms[i]) ELSE s.arms[i].c, st.fr, st.par) IN
       IF IsO(c) THEN Excl(st)
       ELSE IF IsTrue(c) THEN ExecSeq(s.arms[i].body, 1, st)
       ELSE Arms(s, i + 1, st)

Again(st, n) == IF n >= 1 THEN [st EXCEPT !.nt = TRUE] ELSE st     \* second or later iteration

WhileS(s, st, n) ==
  LET c == EvalX(s.c, st.fr, st.par) IN
  IF IsO(c) THEN Excl(st)
  ELSE IF ~IsTrue(c) THEN R(st, Norm)
  ELSE IF n >= LoopBound THEN Excl(st)
  ELSE LET r == ExecSeq(s.body, 1, Again(st, n)) g == r.g IN
       IF g.k = "norm" \/ (g.k = "iter" /\ OwnLabel(s, g)) THEN WhileS(s, r.s, n + 1)
       ELSE IF g.k = "leave" /\ OwnLabel(s, g) THEN R(r.s, Norm)
       ELSE r

RepeatS(s, st, n) ==
  IF n >= LoopBound THEN Excl(st)
  ELSE LET r == ExecSeq(s.body, 1, Again(st, n)) g == r.g IN
       IF g.k = "norm" THEN
          (LET c == EvalX(s.c, r.s.fr, r.s.par) IN
           IF IsO(c) THEN Excl(r.s)
           ELSE IF IsTrue(c) THEN R(r.s, Norm)           \* repeated until the condition is TRUE
           ELSE RepeatS(s, r.s, n + 1))
       ELSE IF g.k = "iter" /\ OwnLabel(s, g) THEN RepeatS(s, r.s, n + 1)   \* "start the loop again"
       ELSE IF g.k = "leave" /\ OwnLabel(s, g) THEN R(r.s, Norm)
       ELSE r

LoopS(s, st, n) ==
  IF n >= LoopBound THEN Excl(st)
  ELSE LET r == ExecSeq(s.body, 1, Again(st, n)) g == r.g IN
       IF g.k = "norm" \/ (g.k = "iter" /\ OwnLabel(s, g)) THEN LoopS(s, r.s, n + 1)
       ELSE IF g.k = "leave" /\ OwnLabel(s, g) THEN R(r.s, Norm)
       ELSE r

Exec(s, st) ==
  CASE s.k = "set" -> (LET v == EvalX(s.e, st.fr, st.par) IN
                       IF IsO(v) THEN Excl(st) ELSE R(SetVar(st, s.v, v), Norm))
    [] s.k = "ins" -> (LET v == EvalX(s.e, st.fr, st.par) IN
                       IF IsO(v) THEN Excl(st) ELSE R([st EXCEPT !.log = Append(@, v)], Norm))
    [] s.k = "sel" -> (LET v == EvalX(s.e, st.fr, st.par) IN
                       IF IsO(v) THEN Excl(st) ELSE R([st EXCEPT !.res = Append(@, v)], Norm))
    [] s.k = "dup" -> Raise(st, "23000")
    [] s.k = "sig" -> Raise(st, "45000")
    [] s.k = "if" -> Arms(s, 1, st)
    [] s.k = "case" -> Arms(s, 1, st)
    [] s.k = "while" -> WhileS(s, st, 0)
    [] s.k = "repeat" -> RepeatS(s, st, 0)
    [] s.k = "loop" -> LoopS(s, st, 0)
    [] s.k = "leave" -> R([st EXCEPT !.nt = TRUE], [k |-> "leave", l |-> s.l])
    [] s.k = "iter" -> R([st EXCEPT !.nt = TRUE], [k |-> "iter", l |-> s.l])
    [] s.k = "block" ->
         (LET d == Len(st.fr) + 1
              r == ExecSeq(s.body, 1, [st EXCEPT !.fr = Append(@, [vars |-> DeclVars(s.decls), hs |-> s.hs])])
              st2 == [r.s EXCEPT !.fr = SubSeq(@, 1, d - 1)]      \* the block's variables and handlers end here
              g == r.g
          IN IF (g.k = "leave" /\ OwnLabel(s, g)) \/ (g.k = "exit" /\ g.d = d) THEN R(st2, Norm)
             ELSE R(st2, g))

Mode(p, n) == LET i == CHOOSE j \in DOMAIN p.params : p.params[j].n = n IN p.params[i].m
ArgOf(p, n) == LET i == CHOOSE j \in DOMAIN p.params : p.params[j].n = n IN p.args[i]
ParNames(p) == {p.params[i].n : i \in DOMAIN p.params}

\* what the caller's user variables hold after CALL: unchanged on error and for IN; the parameter's
\* final value for INOUT and OUT (OUT starts NULL)
FinalArgs(p, par, err) ==
  [i \in DOMAIN p.params |->
     IF err # "none" \/ p.params[i].m = "in" THEN p.args[i] ELSE par[p.params[i].n].v]

RunS(p) ==
  LET par0 == [n \in ParNames(p) |-> [v |-> IF Mode(p, n) = "out" THEN NULL ELSE ArgOf(p, n), set |-> FALSE]]
      r == Exec(p.body, [fr |-> <<>>, par |-> par0, log |-> <<>>, res |-> <<>>, excl |-> FALSE, nt |-> FALSE])
      err == IF r.g.k = "err" THEN r.g.e ELSE "none"
  IN [excl |-> r.s.excl, err |-> err, vars |-> FinalArgs(p, r.s.par, err), log |-> r.s.log,
      res |-> r.s.res, nt |-> r.s.nt]

\* ================================================================== (b) compilation (parse.go)
\* Switches: TRUE = as coded, FALSE = repaired.
QNames == {"outInit", "gotoSkip", "exitScope", "outerHandler", "handlerDyn", "declZero",
           "repeatIter", "staleLabel", "repeatNull"}
Coded == [n \in QNames |-> TRUE]
Fixed == [n \in QNames |-> FALSE]

\* acc = [ops, lab]: the op list built so far and parse.go's label registry.  ConvertStmt pushes a
\* registry scope per BEGIN..END and never pops it, and registrations go to the top scope, so a
\* lookup always finds the LATEST registration of the name: one flat map.
Goto(idx, lbl, it) == [op |-> "Goto", idx |-> idx, lbl |-> lbl, it |-> it, tag |-> ""]
Emit1(acc, o) == [acc EXCEPT !.ops = Append(@, o)]
NOps(acc) == Len(acc.ops)                       \* len(*ops): the 0-based position of the next op

\* resolveGoToIndexes(ops, label, start, end, loopStart, loopEnd) over 0-based positions [start, end).
\* lsF is where ITERATE must go (equal to ls except for REPEAT, see "repeatIter").
Resolve(ops, label, start, end, ls, lsF, le, kind, q) ==
  IF label = "" THEN ops ELSE
  [j \in DOMAIN ops |->
     LET o == ops[j] IN
     IF ~(j - 1 >= start /\ j - 1 < end /\ o.op = "Goto") THEN o
     ELSE IF o.lbl # label THEN o
     ELSE IF o.idx = -2 THEN [o EXCEPT !.idx = le]
     ELSE IF o.idx = -1 THEN
            (IF ls # lsF /\ q.repeatIter THEN [o EXCEPT !.idx = ls, !.tag = "repeat-iterate-checks-until"]
             ELSE [o EXCEPT !.idx = lsF])
     ELSE IF o.it /\ o.tag = "" /\ kind # "block" THEN
            \* an ITERATE that ConvertStmt resolved early through stack.GetLabel (only when q.staleLabel)
            (IF o.idx = lsF THEN o
             ELSE IF o.idx = ls THEN (IF q.repeatIter THEN [o EXCEPT !.tag = "repeat-iterate-checks-until"]
                                      ELSE [o EXCEPT !.idx = lsF])
             ELSE [o EXCEPT !.tag = "stale-iterate-label"])
     ELSE o]

RECURSIVE Comp(_, _, _), CompSeq(_, _, _, _), CompArms(_, _, _, _, _)

CompSeq(ss, i, acc, q) == IF i > Len(ss) THEN acc ELSE CompSeq(ss, i + 1, Comp(ss[i], acc, q), q)

\* IF and CASE: per arm  If(cond) body Goto(end);  gs = 1-based positions of the arm-end Gotos
CompArms(s, i, acc, gs, q) ==
  IF i > Len(s.arms) THEN
     (LET a2 == IF s.els # <<>> THEN CompSeq(s.els, 1, acc, q)
                ELSE IF s.k = "case" THEN Emit1(acc, [op |-> "Exception"])
                ELSE acc
          endI == NOps(a2)
      IN [a2 EXCEPT !.ops = [j \in DOMAIN @ |-> IF j \in gs THEN [@[j] EXCEPT !.idx = endI] ELSE @[j]]])
  ELSE LET c == IF s.k = "case" THEN ArmCond(s, s.arms[i]) ELSE s.arms[i].c
           ifPos == NOps(acc) + 1
           a1 == Emit1(acc, [op |-> "If", c |-> c, idx |-> -9, rep |-> FALSE])
           a2 == CompSeq(s.arms[i].body, 1, a1, q)
           a3 == Emit1(a2, Goto(-9, "", FALSE))
           gPos == NOps(a3)
           a4 == [a3 EXCEPT !.ops[ifPos].idx = NOps(a3)]        \* start of the next arm
       IN CompArms(s, i + 1, a4, gs \cup {gPos}, q)

CompDecls(s, acc) ==
  LET RECURSIVE DV(_, _), DH(_, _)
      DV(i, a) == IF i > Len(s.decls) THEN a
                  ELSE DV(i + 1, Emit1(a, [op |-> "Declare", v |-> s.decls[i].v, has |-> s.decls[i].has, d |-> s.decls[i].d]))
      DH(i, a) == IF i > Len(s.hs) THEN a
                  ELSE DH(i + 1, Emit1(a, [op |-> "Handler", act |-> s.hs[i].act, cond |-> s.hs[i].cond, s |-> s.hs[i].s]))
  IN DH(1, DV(1, acc))

Register(acc, lbl, idx) == IF lbl = "" THEN acc ELSE [acc EXCEPT !.lab = (lbl :> idx) @@ @]

Comp(s, acc, q) ==
  CASE s.k = "block" ->
         (LET a1 == Emit1(acc, [op |-> "ScopeBegin"])
              start == NOps(a1)                                  \* startOp.Index
              a2 == CompSeq(s.body, 1, CompDecls(s, a1), q)
              a3 == Emit1(a2, [op |-> "ScopeEnd"])
              end == NOps(a3)                                    \* endOp.Index
          IN [a3 EXCEPT !.ops = Resolve(@, s.lbl, start, end, start, start, end, "block", q)])
    [] s.k = "set" -> Emit1(acc, [op |-> "Set", v |-> s.v, e |-> s.e])
    [] s.k = "ins" -> Emit1(acc, [op |-> "Ins", e |-> s.e])
    [] s.k = "sel" -> Emit1(acc, [op |-> "Sel", e |-> s.e])
    [] s.k = "dup" -> Emit1(acc, [op |-> "Dup"])
    [] s.k = "sig" -> Emit1(acc, [op |-> "Signal"])
    [] s.k = "if" -> CompArms(s, 1, acc, {}, q)
    [] s.k = "case" -> CompArms(s, 1, acc, {}, q)
    [] s.k = "while" ->
         (LET loopStart == NOps(acc)
              a1 == Emit1(acc, [op |-> "If", c |-> s.c, idx |-> -9, rep |-> FALSE])
              a2 == CompSeq(s.body, 1, a1, q)
              a3 == Emit1(a2, Goto(loopStart, "", FALSE))
              endI == NOps(a3)
              a4 == [a3 EXCEPT !.ops[loopStart + 1].idx = endI]
          IN [a4 EXCEPT !.ops = Resolve(@, s.lbl, loopStart, endI, loopStart, loopStart, endI, "while", q)])
    [] s.k = "repeat" ->
         (LET onceStart == NOps(acc)
              a1 == CompSeq(s.body, 1, acc, q)                   \* "repeat statements always run at least once"
              loopStart == NOps(a1)
              a1r == Register(a1, s.lbl, loopStart)
              a2 == Emit1(a1r, [op |-> "If", c |-> s.c, idx |-> -9, rep |-> TRUE])     \* If (NOT c)
              a3 == CompSeq(s.body, 1, a2, q)
              a4 == Emit1(a3, Goto(loopStart, "", FALSE))
              endI == NOps(a4)
              a5 == [a4 EXCEPT !.ops[loopStart + 1].idx = endI]
          IN [a5 EXCEPT !.ops = Resolve(@, s.lbl, onceStart, endI, loopStart, loopStart + 1, endI, "repeat", q)])
    [] s.k = "loop" ->
         (LET loopStart == NOps(acc)
              a1 == CompSeq(s.body, 1, Register(acc, s.lbl, loopStart), q)
              a2 == Emit1(a1, Goto(loopStart, s.lbl, FALSE))
              loopEnd == NOps(a2)
          IN [a2 EXCEPT !.ops = Resolve(@, s.lbl, loopStart, loopEnd, loopStart, loopStart, loopEnd, "loop", q)])
    [] s.k = "iter" ->
         Emit1(acc, Goto(IF q.staleLabel /\ s.l \in DOMAIN acc.lab THEN acc.lab[s.l] ELSE -1, s.l, TRUE))
    [] s.k = "leave" -> Emit1(acc, Goto(-2, s.l, FALSE))

Compile(p, q) == Comp(p.body, [ops |-> <<>>, lab |-> EmptyF], q).ops

\* ================================================================== (b) the interpreter (interpreter_logic.go)
\* m = [pc, st (frames: st[1] is the function base scope), par, log, res, err, excl, steps, tags]
\* pc is the 0-based position of the op to execute next (the code's counter + 1).
EmptyScope == [vars |-> EmptyF, hs |-> <<>>]
Tag(m, c, t) == IF c THEN [m EXCEPT !.tags = @ \cup {t}] ELSE m
Panic(m) == [m EXCEPT !.err = "panic"]

\* effect of the scope ops among ops[i] for the 0-based positions in `range`, taken upwards (forward
\* Goto: ScopeBegin pushes, ScopeEnd pops) or downwards (backward Goto: the reverse)
RECURSIVE ScanF(_, _, _, _), ScanB(_, _, _, _)
ScanF(m, ops, i, hi) ==      \* positions i, i+1, .., hi
  IF i > hi \/ m.err # "none" THEN m
  ELSE LET o == ops[i + 1].op IN
       ScanF(IF o = "ScopeBegin" THEN [m EXCEPT !.st = Append(@, EmptyScope)]
             ELSE IF o = "ScopeEnd" THEN (IF m.st = <<>> THEN Panic(m) ELSE [m EXCEPT !.st = SubSeq(@, 1, Len(@) - 1)])
             ELSE m, ops, i + 1, hi)
ScanB(m, ops, i, lo) ==      \* positions i, i-1, .., lo
  IF i < lo \/ m.err # "none" THEN m
  ELSE LET o == ops[i + 1].op IN
       ScanB(IF o = "ScopeEnd" THEN [m EXCEPT !.st = Append(@, EmptyScope)]
             ELSE IF o = "ScopeBegin" THEN (IF m.st = <<>> THEN Panic(m) ELSE [m EXCEPT !.st = SubSeq(@, 1, Len(@) - 1)])
             ELSE m, ops, i - 1, lo)

SetM(m, n, v) ==
  LET i == FrameOf(m.st, Len(m.st), n) IN
  IF i > 0 THEN [m EXCEPT !.st[i].vars[n] = v]
  ELSE IF n \in DOMAIN m.par THEN [m EXCEPT !.par[n] = [v |-> v, set |-> TRUE]]
  ELSE m

\* an OUT parameter that the body has not assigned is read although the caller passed a value
OutRead(m, p, e, q) ==
  q.outInit /\ \E n \in Refs(e) : /\ FrameOf(m.st, Len(m.st), n) = 0
                                  /\ n \in DOMAIN m.par /\ Mode(p, n) = "out"
                                  /\ ~m.par[n].set /\ ~IsN(m.par[n].v)

EvalM(m, p, e, q) == EvalX(e, m.st, m.par)

\* handleError: pick a handler, run its statement, continue or leave its block
HandleErr(m, ops, p, e, q) ==
  LET all == LET RECURSIVE L(_)
                 L(i) == IF i = 0 THEN <<>> ELSE m.st[i].hs \o L(i - 1)      \* ListHandlers: top scope first
             IN L(Len(m.st))
      ms == {j \in DOMAIN all : all[j].cond = "exc"}
  IN IF ms = {} THEN [m EXCEPT !.err = e]
     ELSE LET jc == MaxOf(ms)            \* as coded: the `break` leaves the switch, the LAST match wins
              jf == MinOf(ms)            \* repaired: the innermost scope's handler
              h == all[IF q.outerHandler THEN jc ELSE jf]
              m1 == Tag(m, q.outerHandler /\ all[jc] # all[jf], "outer-handler-wins")
          IN IF h.s.k # "set" THEN [m1 EXCEPT !.err = "unmodelled"]      \* only SET handler statements are modelled
             ELSE
             LET v == EvalM(m1, p, h.s.e, q)
                 \* as coded the statement sees the stack at the point of the error; repaired: the
                 \* scope of the block that declares the handler
                 cut == [m1 EXCEPT !.st = SubSeq(m1.st, 1, h.depth)]
                 vf == EvalM(cut, p, h.s.e, q)
                 mc == SetM(m1, h.s.v, v)
                 mfcut == SetM(cut, h.s.v, vf)
                 mf == [mfcut EXCEPT !.st = mfcut.st \o SubSeq(m1.st, h.depth + 1, Len(m1.st))]
                 m2 == IF q.handlerDyn THEN Tag(Tag(mc, mc.st # mf.st \/ mc.par # mf.par, "handler-dynamic-scope"),
                                                OutRead(m1, p, h.s.e, q), "out-param-initial-value")
                       ELSE mf
             IN IF IsO(v) \/ IsO(vf) THEN [m2 EXCEPT !.excl = TRUE]
                ELSE IF h.act = "continue" THEN [m2 EXCEPT !.pc = m.pc + 1]
                ELSE \* EXIT: from the handler's Declare op forward to the ScopeEnd that closes its block
                     LET RECURSIVE Find(_, _)
                         Find(i, rem) == IF i >= Len(ops) THEN Len(ops)
                                         ELSE IF ops[i + 1].op = "ScopeBegin" THEN Find(i + 1, rem + 1)
                                         ELSE IF ops[i + 1].op = "ScopeEnd" THEN (IF rem = 1 THEN i + 1 ELSE Find(i + 1, rem - 1))
                                         ELSE Find(i + 1, rem)
                         after == Find(h.ctr, 1)        \* position after that ScopeEnd
                     IN IF q.exitScope
                        THEN Tag([m2 EXCEPT !.pc = after], TRUE, "exit-handler-keeps-scope")   \* no scope is popped
                        ELSE [m2 EXCEPT !.pc = after, !.st = SubSeq(@, 1, h.depth - 1)]

StepM(m, ops, p, q) ==
  LET o == ops[m.pc + 1]
      next == [m EXCEPT !.pc = m.pc + 1]
  IN
  CASE o.op = "ScopeBegin" -> [next EXCEPT !.st = Append(@, EmptyScope)]
    [] o.op = "ScopeEnd" -> (IF m.st = <<>> THEN Panic(m) ELSE [next EXCEPT !.st = SubSeq(@, 1, Len(@) - 1)])
    [] o.op = "Declare" ->
         (IF m.st = <<>> THEN Panic(m)
          ELSE Tag([next EXCEPT !.st[Len(m.st)].vars =
                       (o.v :> (IF o.has THEN o.d ELSE IF q.declZero THEN I(0) ELSE NULL)) @@ @],
                   q.declZero /\ ~o.has, "declare-no-default-zero"))
    [] o.op = "Handler" ->
         (IF m.st = <<>> THEN Panic(m)
          ELSE [next EXCEPT !.st[Len(m.st)].hs =
                   Append(@, [act |-> o.act, cond |-> o.cond, s |-> o.s, ctr |-> m.pc, depth |-> Len(m.st)])])
    [] o.op \in {"Set", "Ins", "Sel"} ->
         (LET v == EvalM(m, p, o.e, q)
              m1 == Tag(next, OutRead(m, p, o.e, q), "out-param-initial-value")
          IN IF IsO(v) THEN [m EXCEPT !.excl = TRUE]
             ELSE IF o.op = "Set" THEN SetM(m1, o.v, v)
             ELSE IF o.op = "Ins" THEN [m1 EXCEPT !.log = Append(@, v)]
             ELSE [m1 EXCEPT !.res = Append(@, v)])
    [] o.op = "Dup" -> HandleErr(m, ops, p, "23000", q)
    [] o.op = "Signal" -> HandleErr(m, ops, p, "45000", q)
    [] o.op = "Exception" -> HandleErr(m, ops, p, "20000", q)
    [] o.op = "If" ->
         (LET c == EvalM(m, p, o.c, q)
              m1 == Tag(m, OutRead(m, p, o.c, q), "out-param-initial-value")
              \* REPEAT is compiled to If (NOT c): as coded a NULL condition leaves the loop
              stayC == IF o.rep THEN IsTrue(Not3(c)) ELSE IsTrue(c)
              stayF == IF o.rep THEN ~IsTrue(c) ELSE IsTrue(c)
              stay == IF q.repeatNull THEN stayC ELSE stayF
              m2 == Tag(m1, q.repeatNull /\ stayC # stayF, "repeat-until-null-exits")
          IN IF IsO(c) THEN [m EXCEPT !.excl = TRUE]
             ELSE [m2 EXCEPT !.pc = IF stay THEN m.pc + 1 ELSE o.idx])
    [] o.op = "Goto" ->
         (LET m0 == Tag(m, o.tag # "", o.tag) IN
          IF o.idx < 0 THEN [m0 EXCEPT !.err = "unresolved-goto"]
          ELSE IF m.pc <= o.idx THEN
             \* forward: as coded the ops at positions pc .. idx-2 are scanned, idx-1 is skipped
             (IF q.gotoSkip
              THEN LET m1 == ScanF(m0, ops, m.pc, o.idx - 2)
                       skipped == o.idx - 1 > m.pc /\ ops[o.idx].op \in {"ScopeBegin", "ScopeEnd"}
                   IN [Tag(m1, skipped, "goto-skips-scope-end") EXCEPT !.pc = IF o.idx - 1 > m.pc THEN o.idx ELSE m.pc + 1]
              ELSE [ScanF(m0, ops, m.pc, o.idx - 1) EXCEPT !.pc = o.idx])
          ELSE \* backward: positions pc down to idx
             [ScanB(m0, ops, m.pc, o.idx) EXCEPT !.pc = o.idx])

RECURSIVE RunLoop(_, _, _, _)
RunLoop(m, ops, p, q) ==
  IF m.err # "none" \/ m.excl \/ m.pc >= Len(ops) THEN m
  ELSE IF m.steps >= StepFuel \/ Len(m.st) > StackFuel THEN [m EXCEPT !.err = "hang"]
  ELSE RunLoop([StepM(m, ops, p, q) EXCEPT !.steps = m.steps + 1], ops, p, q)

RunM(p, q) ==
  LET ops == Compile(p, q)
      par0 == [n \in ParNames(p) |->
                 [v |-> IF Mode(p, n) = "out" /\ ~q.outInit THEN NULL ELSE ArgOf(p, n), set |-> FALSE]]
      m == RunLoop([pc |-> 0, st |-> <<EmptyScope>>, par |-> par0, log |-> <<>>, res |-> <<>>,
                    err |-> "none", excl |-> FALSE, steps |-> 0, tags |-> {}], ops, p, q)
      \* rowexec buildCall: INOUT gets the parameter's value; OUT gets it only if the body assigned it
      fin == [i \in DOMAIN p.params |->
                LET n == p.params[i].n IN
                IF m.err # "none" \/ p.params[i].m = "in" THEN p.args[i]
                ELSE IF p.params[i].m = "out" /\ ~m.par[n].set THEN NULL
                ELSE m.par[n].v]
  IN [excl |-> m.excl, err |-> m.err, vars |-> fin, log |-> m.log, res |-> m.res, tags |-> m.tags,
      steps |-> m.steps, nops |-> Len(ops)]

\* ================================================================== observation and agreement
\* Full observation (design theorem): error class, caller variables, log rows, every result set.
ObsAll(o) == [err |-> o.err, vars |-> o.vars, log |-> o.log, res |-> IF o.err = "none" THEN o.res ELSE <<>>]
\* What a client of the engine can observe: the engine returns only the LAST result set of a CALL
\* (rowexec/proc.go, comment at buildLoop), and none when the CALL fails.
\* A run that does not terminate (or dies) has no defined observation besides that fact.
Obs(o) == IF o.err \in {"hang", "panic", "crash"} THEN [err |-> o.err, vars |-> <<>>, log |-> <<>>, sel |-> <<>>]
          ELSE [err |-> o.err, vars |-> o.vars, log |-> o.log,
                sel |-> IF o.err = "none" /\ o.res # <<>> THEN <<Last(o.res)>> ELSE <<>>]
=============================================================================
