---------------------------- MODULE MC_StrFuncs ----------------------------
(* C34, binding A: TLC enumerates argument tuples of every modelled string function over the
   strings of length <= MaxLen on the alphabet {a, b, e-acute (2 bytes), U+1F600 (4 bytes), space}
   and integers -2..4 (each argument also NULL) and emits, per tuple,
       CASE {f, a, ok, dev, tag, nt}
   f = function, a = the arguments as tagged values (rendered to SQL by harness/cmd/c34), ok = the
   accepted results (StrFuncs!Exp), dev = named recorded deviations, tag in {null, murky, mb,
   ascii}, nt = non-trivial by the rule NT below.  The invariant Laws checks the defining
   identities on the DEFINITIONS themselves (model-level sanity of the specification).

   Init chooses the function (few states, one thread), Next the arguments (all workers).
   SInit/SNext: random cases for `-simulate` (quick tier samples the MaxLen = 3 space). *)
EXTENDS StrFuncs, Json

CONSTANTS MaxLen,      \* longest first-class string argument
          PadLen,      \* longest pad / list-member string
          ListLen      \* longest FIND_IN_SET list

Alpha == {97, 98, 233, 128512, 32}
Strs(k) == UNION {[1..n -> Alpha] : n \in 0..k}
NS(k) == Strs(k) \cup {NULLS}
B == NS(MaxLen)
M == NS(Min2(MaxLen, 2))
P == NS(PadLen)
T == NS(1)
NI == (-2..4) \cup {NULLI}
Delims == {<<97>>, <<32>>, <<233>>, <<128512>>, <<97, 98>>, NULLS}
CI == {NULLI, 0, 97, 233, 256, 50089, 14844588}
Lists == UNION {[1..n -> Strs(1)] : n \in 0..ListLen}

F1 == {"char_length", "character_length", "length", "octet_length", "bit_length", "upper", "ucase", "lower",
       "lcase", "reverse", "ltrim", "rtrim", "trim", "ascii", "ord"}
Fns == F1 \cup {"space", "concat", "concat3", "strcmp", "locate2", "position", "instr", "trim_both", "trim_leading",
                "trim_trailing", "replace", "left", "right", "substring2", "substr2", "repeat", "substring3", "mid",
                "locate3", "substring_index", "insert", "lpad", "rpad", "field", "elt", "char", "find_in_set"}

\* argument kinds and domains
Kinds(f) ==
  CASE f \in F1 -> <<"s">>
    [] f = "space" -> <<"i">>
    [] f \in {"concat", "strcmp", "locate2", "position", "instr", "trim_both", "trim_leading", "trim_trailing"} -> <<"s", "s">>
    [] f \in {"concat3", "replace", "field"} -> <<"s", "s", "s">>
    [] f \in {"left", "right", "substring2", "substr2", "repeat"} -> <<"s", "i">>
    [] f \in {"substring3", "mid"} -> <<"s", "i", "i">>
    [] f \in {"locate3", "substring_index"} -> <<"s", "s", "i">>
    [] f = "insert" -> <<"s", "i", "i", "s">>
    [] f \in {"lpad", "rpad"} -> <<"s", "i", "s">>
    [] f = "elt" -> <<"i", "s", "s">>
    [] f = "char" -> <<"i", "i">>
    [] f = "find_in_set" -> <<"s", "s", "s", "s">>      \* x and up to three members (never NULL)
Doms(f) ==
  CASE f \in F1 -> <<B>>
    [] f = "space" -> <<NI>>
    [] f \in {"concat", "strcmp"} -> <<B, B>>
    [] f \in {"locate2", "position", "trim_both", "trim_leading", "trim_trailing"} -> <<M, B>>
    [] f = "instr" -> <<B, M>>
    [] f = "concat3" -> <<M, T, T>>
    [] f = "replace" -> <<B, M, T>>
    [] f = "field" -> <<M, T, T>>
    [] f \in {"left", "right", "substring2", "substr2", "repeat"} -> <<B, NI>>
    [] f \in {"substring3", "mid"} -> <<B, NI, NI>>
    [] f = "locate3" -> <<M, B, NI>>
    [] f = "substring_index" -> <<B, Delims, NI>>
    [] f = "insert" -> <<B, NI, NI, T>>
    [] f \in {"lpad", "rpad"} -> <<B, NI, P>>
    [] f = "elt" -> <<NI, T, T>>
    [] f = "char" -> <<CI, CI>>
    [] f = "find_in_set" -> <<M>>

VARIABLES f, c, ph
vars == <<f, c, ph>>

KindsOf(ff, a) == IF ff = "find_in_set" THEN [k \in DOMAIN a |-> "s"] ELSE Kinds(ff)

\* the arguments as the SQL text needs them
Tagged(ff, a) ==
  IF ff = "find_in_set" THEN <<(IF a[1] = NULLS THEN VN ELSE VS(a[1])), VS(Join(Tail(a), COMMA))>>
  ELSE LET ks == Kinds(ff) IN
       [k \in DOMAIN a |-> IF ks[k] = "s" THEN (IF a[k] = NULLS THEN VN ELSE VS(a[k]))
                           ELSE (IF a[k] = NULLI THEN VN ELSE VI(a[k]))]

\* non-trivial: no NULL argument and (a multi-byte character, or an integer argument below 1 or beyond the
\* length of the first string argument, or the manual fixes a result that is not NULL / '' / 0)
FirstStr(ff, a) == LET ks == KindsOf(ff, a) hits == {k \in DOMAIN ks : ks[k] = "s"} IN
                   IF hits = {} THEN <<>> ELSE a[CHOOSE k \in hits : \A j \in hits : k <= j]
NT(ff, a) ==
  LET ks == KindsOf(ff, a) IN
  /\ ~(ff \notin {"field", "elt", "char"} /\ AnyNull(a, ks))
  /\ \/ \E k \in DOMAIN a : ks[k] = "s" /\ HasMB(a[k])
     \/ \E k \in DOMAIN a : ks[k] = "i" /\ a[k] # NULLI /\ (a[k] < 1 \/ a[k] > Len(FirstStr(ff, a)))
     \/ LET e == Exp(ff, a, ks)[1] IN
        CASE e.t = "s" -> e.s # <<>> [] e.t = "i" -> e.i # 0 [] e.t = "x" -> e.x # <<>> [] OTHER -> FALSE

TagOf(ff, a) ==
  LET ks == KindsOf(ff, a) IN
  IF ff \notin {"field", "elt", "char"} /\ AnyNull(a, ks) THEN "null"
  ELSE IF Murky(ff, a, ks) THEN "murky"
  ELSE IF \E k \in DOMAIN a : ks[k] = "s" /\ HasMB(a[k]) THEN "mb" ELSE "ascii"

Mk(ff, a) == [f |-> ff, a |-> Tagged(ff, a), ok |-> Exp(ff, a, KindsOf(ff, a)), dev |-> Dev(ff, a, KindsOf(ff, a)),
              tag |-> TagOf(ff, a), nt |-> NT(ff, a)]
NoCase == [f |-> "none", a |-> <<>>, ok |-> <<>>, dev |-> <<>>, tag |-> "", nt |-> FALSE]

Init == ph = 0 /\ c = NoCase /\ f \in Fns
Next ==
  /\ ph = 0 /\ ph' = 1 /\ f' = f
  /\ LET d == Doms(f) IN
     \/ f = "find_in_set" /\ \E x \in d[1], l \in Lists : c' = Mk(f, <<x>> \o l)
     \/ f # "find_in_set" /\ Len(d) = 1 /\ \E x \in d[1] : c' = Mk(f, <<x>>)
     \/ f # "find_in_set" /\ Len(d) = 2 /\ \E x \in d[1], y \in d[2] : c' = Mk(f, <<x, y>>)
     \/ f # "find_in_set" /\ Len(d) = 3 /\ \E x \in d[1], y \in d[2], z \in d[3] : c' = Mk(f, <<x, y, z>>)
     \/ f # "find_in_set" /\ Len(d) = 4 /\ \E x \in d[1], y \in d[2], z \in d[3], w \in d[4] : c' = Mk(f, <<x, y, z, w>>)

\* random cases: one per step (the draw happens in the step; the dummy parameter defeats caching)
RandArgs(ff, i) ==
  IF ff = "find_in_set" THEN <<RandomElement(Doms(ff)[1])>> \o RandomElement(Lists)
  ELSE [k \in DOMAIN Doms(ff) |-> RandomElement(Doms(ff)[k])]
SInit == ph = 0 /\ c = NoCase /\ f = "none"
SNext == /\ ph' = ph + 1
         /\ f' = RandomElement(Fns)
         /\ c' = Mk(f', RandArgs(f', ph))

Emit == PrintT("CASE " \o ToJson(c'))

\* ---- model-level sanity: the identities hold of the definitions, and every case has an expectation
CaseOK == ph >= 1 => Len(c.ok) >= 1 /\ (c.tag = "murky" <=> Len(c.ok) > 1)
LawStrs == Strs(Min2(MaxLen, 2))
Laws == ph = 0 /\ f = "concat" => \A x \in LawStrs, y \in LawStrs : LawsS(x, y)
=============================================================================
