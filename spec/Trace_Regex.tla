----------------------------- MODULE Trace_Regex -----------------------------
(* C33, binding B: the mutual-consistency LAWS of REGEXP_LIKE / REGEXP_INSTR / REGEXP_SUBSTR /
   REGEXP_REPLACE on recorded results of random patterns (also beyond RegexRef's subset: {m,n}, \d, \b,
   lazy quantifiers, match_type i / c / m / n) and subjects (multi-byte characters, positions > 1).
   The pattern is opaque here: only the recorded values are related to each other.
   trace.ndjson lines (harness/cmd/c33 gen / exec):
     {"ev":"rx","id":n,"tag":"bmp"|"astral"|"invalid","in":{"pat":[cp],"s":[cp],"mt":"..","pos":n,"repl":[cp]},
      "r":{"like":v, "i0_k":v, "i1_k":v, "sub_k":v (k = 1..4: REGEXP_INSTR return_option 0 / 1, REGEXP_SUBSTR of
           occurrence k from pos), "rall":v (occurrence 0), "r_k":v (k = 1..3), "like_u","like_l" (mt has i),
           "like_c" (mt empty)}}
   values: {"t":"n"} {"t":"i","i":n} {"t":"s","s":[cp]} {"t":"e"} error {"t":"o",..} other.
   Positions of subjects with astral characters are UTF-16 positions in MySQL itself (documented), so
   the laws that cut the subject at a reported position are not judged for tag "astral". *)
EXTENDS RegexRef, Json

TraceLog == ndJsonDeserialize("trace.ndjson")
VARIABLES l
vars == <<l>>

IsI(v) == v.t = "i"
IsS(v) == v.t = "s"
IsE(v) == v.t = "e"
IsNull(v) == v.t = "n"
K4 == 1..4
N(base, k) == base \o ToString(k)

Laws(e) ==
  LET r == e.r  s == e.in.s  pos == e.in.pos  repl == e.in.repl
      i0(k) == r[N("i0_", k)]  i1(k) == r[N("i1_", k)]  sub(k) == r[N("sub_", k)]  rk(k) == r[N("r_", k)]
      allErr == \A n \in DOMAIN r : IsE(r[n])
      noErr == \A n \in DOMAIN r : ~IsE(r[n])
      typed == /\ IsI(r.like) /\ \A k \in K4 : IsI(i0(k)) /\ IsI(i1(k)) /\ (IsS(sub(k)) \/ IsNull(sub(k)))
               /\ IsS(r.rall) /\ \A k \in 1..3 : IsS(rk(k))
      cut == e.tag # "astral"
      found(k) == i0(k).i > 0
      \* reported positions lie inside the subject and are ordered (otherwise the cutting laws fail, they do not apply)
      sane == /\ \A k \in K4 : found(k) => i0(k).i >= 1 /\ i1(k).i >= i0(k).i /\ i1(k).i <= Len(s) + 1
              /\ \A k \in 1..3 : found(k + 1) => found(k) /\ i0(k + 1).i >= i1(k).i
      ms == [k \in 1..Cardinality({k \in 1..3 : found(k)}) |-> <<i0(k).i, i1(k).i - i0(k).i>>]
  IN
  << <<"error-all-or-none", allErr \/ noErr>>,
     <<"invalid-pattern-errors", e.tag = "invalid" => allErr>>,
     <<"result-types", noErr => typed>>,
     <<"like-instr-substr", (noErr /\ typed) =>
          /\ (pos = 1 => (r.like.i = 1 <=> found(1)))
          /\ r.like.i \in {0, 1}
          /\ \A k \in K4 : (found(k) <=> IsS(sub(k))) /\ (found(k) <=> i1(k).i > 0)>>,
     <<"substr-at-instr", (noErr /\ typed /\ cut) =>
          \A k \in K4 : found(k) =>
             /\ i0(k).i >= pos /\ i1(k).i = i0(k).i + Len(sub(k).s) /\ i1(k).i <= Len(s) + 1
             /\ SubSeq(s, i0(k).i, i1(k).i - 1) = sub(k).s>>,
     <<"occurrences-ordered", (noErr /\ typed) =>
          \A k \in 1..3 : /\ (found(k + 1) => found(k) /\ i0(k + 1).i > i0(k).i /\ i0(k + 1).i >= i1(k).i)
                          /\ (found(k) => i1(k).i >= i0(k).i)>>,
     <<"replace-nth", (noErr /\ typed /\ cut) => sane /\
          \A k \in 1..3 : rk(k).s = (IF found(k) THEN Take(s, i0(k).i - 1) \o repl \o Drop(s, i1(k).i - 1) ELSE s)>>,
     <<"replace-all", (noErr /\ typed /\ cut /\ ~found(4)) => sane /\ r.rall.s = Rebuild(s, ms, repl, 1)>>,
     <<"match-type-i", (noErr /\ typed /\ "like_u" \in DOMAIN r) =>
          IsI(r.like_u) /\ IsI(r.like_l) /\ r.like_u.i = r.like.i /\ r.like_l.i = r.like.i>>,
     <<"match-type-c-is-default", (noErr /\ typed /\ "like_c" \in DOMAIN r) => IsI(r.like_c) /\ r.like_c.i = r.like.i>> >>

NonTrivial(e) == e.tag = "invalid" \/ (IsI(e.r.i0_1) /\ e.r.i0_1.i > 0)

Init == l = 1
Next ==
  /\ l <= Len(TraceLog)
  /\ l' = l + 1
  /\ LET e == TraceLog[l]
         laws == Laws(e)
         bad == {laws[k][1] : k \in {k \in DOMAIN laws : ~laws[k][2]}} IN
     /\ (bad = {} \/ PrintT("MM " \o ToJson([l |-> l, id |-> e.id, ev |-> e.ev, tag |-> e.tag, bad |-> bad])))
     /\ PrintT("ST " \o ToJson([l |-> l, nt |-> NonTrivial(e)]))

HW == TLCSet(1, l)
Accepted == TLCGet(1) = Len(TraceLog) + 1
=============================================================================
