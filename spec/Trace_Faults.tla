---------------------------- MODULE Trace_Faults ----------------------------
(* C15 — a failed data-modifying statement has no effect (binding B, fault enumeration).
   Validates the runs recorded by harness/cmd/dml2 -prop c15.  trace.ndjson lines:
     {"ev":"schema", ...}                          as in Trace_Tables (a fresh engine with these tables)
     {"ev":"fault","id":n,"stmt":<AST>,"k":k,"calls":c,"n":N,
      "pre":{<t>:[rows]},"reply":{..},"post":{<t>:[rows]},"preprobes":[..],"probes":[..]}
          -- statement `stmt` run on a FRESH COPY of the state before statement `id` (tables `pre`)
             with a storage error injected at the k-th row-edit call of the in-memory table editor;
             c = row-edit calls made in this run, N = row-edit calls of the unfaulted run
     {"ev":"stmt","id":n,"stmt":<AST>,"k":0,"calls":N,"pre":..,"reply":..,"post":..,"probes":[..]}
          -- the unfaulted run of the same statement on the history's own engine

   The action StmtWithFault(stmt, k) has exactly two allowed outcomes:
     the fault fired (1 <= k <= calls)  =>  reply = error  /\  every table UNCHANGED (bag equality of
                                            collation-normalised rows with `pre`) and every index
                                            lookup recorded afterwards is the filter over those rows;
     the fault did not fire (k > calls) =>  the normal outcome: (reply, post) is one of the pairs
                                            SQLTables!Outcomes allows from `pre`.
   An unfaulted statement that FAILS (any error class: duplicate, NOT NULL, CHECK, ..) must leave
   all tables and index lookups unchanged (judged on the log itself), and one that SUCCEEDS must
   carry table contents of some successful outcome of SQLTables!Outcomes ("applies all of its row
   changes").  Each disagreement prints one `MF <json>` line with what = list of
     "fault:kind"   the fault fired but the statement did not report an error
     "fault:post"   the fault fired and some table differs from `pre`
     "fault:probe"  the fault fired and an index lookup afterwards is not the filter over `post`
     "fail:post"    a (naturally) failed statement changed some table
     "fail:probe"   a failed statement left an index lookup that is not the filter over `post`
     "ok:post"      a successful statement whose tables are not those of any successful outcome
                    (only when the specification allows success at all: ok-vs-error disagreements are
                    C13 / C14 matter)
     "nofire:kind" / "nofire:post"   a fault run whose fault did not fire and whose outcome is not
                    an allowed normal outcome
     "src:kind" / "src:post" / "src:probe"   the ROW SOURCE of an INSERT / REPLACE failed at source row k
                    (event sfault, below) and the statement did not fail / changed a table / left an
                    index lookup that is not the filter over the tables
   The specification state follows the history exactly as in Trace_Tables (Judge re-used, with its
   resynchronisation); its `MM` lines belong to C13/C14/C16/C19/C20 and are ignored by C15.        *)
EXTENDS Trace_Tables

PreState(e) == [st EXCEPT !.tabs = [t \in DOMAIN st.tabs |-> [st.tabs[t] EXCEPT !.rows = e.pre[t]]]]

Unchanged(e) == \A t \in DOMAIN st.tabs : BagEqRows(e.post[t], e.pre[t], CollsOf(st.tabs[t]))
ChangedTabs(e) == {t \in DOMAIN st.tabs : ~BagEqRows(e.post[t], e.pre[t], CollsOf(st.tabs[t]))}

PostDB(e) == [t \in DOMAIN st.tabs |-> [w |-> NCols(st.tabs[t]), rows |-> e.post[t]]]
BadProbes(e) == {i \in DOMAIN e.probes :
                   ~(e.probes[i].res.kind = "rows" /\ ResultOK(e.probes[i].q, PostDB(e), e.probes[i].res.rows))}

\* the normal (unfaulted) outcome, judged from the logged pre-state
NormalWhat(e, tag) ==
  LET stmt == e.stmt
      tn == stmt.t
      sp == PreState(e)
      G == IF tn # "" THEN AutoVals(sp.tabs[tn], e.post[tn]) ELSE {}
      outs == Outcomes(sp, stmt, G)
      r == e.reply
      KindOK(o) == o.reply.kind = r.kind /\ (r.kind = "err" => o.reply.class = r.class)
      PostOK(o) == \A t \in DOMAIN sp.tabs :
                      BagEqRows(e.post[t], IF t = o.t THEN o.rows ELSE sp.tabs[t].rows, CollsOf(sp.tabs[t]))
      L1 == {o \in outs : KindOK(o)}
  IN IF L1 = {} THEN << tag \o ":kind" >>
     ELSE IF \E o \in L1 : PostOK(o) THEN <<>> ELSE << tag \o ":post" >>

Fired(e) == e.k >= 1 /\ e.k <= e.calls

\* (the probes are evaluated once per event: bp is BadProbes(e))
FaultWhat(e, bp) ==
  IF Fired(e) THEN
       (IF e.reply.kind # "err" THEN <<"fault:kind">> ELSE <<>>)
    \o (IF ~Unchanged(e) THEN <<"fault:post">> ELSE <<>>)
    \o (IF bp # {} THEN <<"fault:probe">> ELSE <<>>)
  ELSE NormalWhat(e, "nofire")

StmtWhat(e, bp) ==
  IF e.reply.kind \in {"err", "panic"} THEN
       (IF ~Unchanged(e) THEN <<"fail:post">> ELSE <<>>)
    \o (IF bp # {} THEN <<"fail:probe">> ELSE <<>>)
  ELSE IF e.reply.kind = "ok" THEN
       (LET sp == PreState(e)
            tn == e.stmt.t
            G == IF tn # "" THEN AutoVals(sp.tabs[tn], e.post[tn]) ELSE {}
            oks == {o \in Outcomes(sp, e.stmt, G) : o.reply.kind = "ok"}
            PostOK(o) == \A t \in DOMAIN sp.tabs :
                            BagEqRows(e.post[t], IF t = o.t THEN o.rows ELSE sp.tabs[t].rows, CollsOf(sp.tabs[t]))
        IN IF oks = {} \/ \E o \in oks : PostOK(o) THEN <<>> ELSE <<"ok:post">>)
  ELSE <<>>

Report(e, what, bp) ==
  IF what = <<>> THEN TRUE
  ELSE PrintT("MF " \o ToJson([l |-> l, id |-> e.id, ev |-> e.ev, k |-> e.k, calls |-> e.calls, what |-> what,
                                changed |-> ChangedTabs(e), badprobes |-> bp, fired |-> Fired(e)]))

\* the two allowed outcomes of a statement with a storage fault at row-edit call k
StmtWithFault(e) ==
  /\ LET bp == BadProbes(e) IN Report(e, FaultWhat(e, bp), bp)
  /\ st' = st          \* the run happened on a copy: the history's own state does not move

\* ---------------------------------------------------------------- histories outside the SQLTables grammar
\* (foreign-key cascades, trigger targets: events xschema / xfault / xstmt).  Only the part of the property
\* that needs no statement semantics is judged: a fired fault, and a naturally failed statement (foreign-key
\* error, SIGNAL, duplicate key ..), leave EVERY table -- cascade and trigger targets included -- unchanged.
XColls(rows) == IF rows = <<>> THEN <<>> ELSE [i \in DOMAIN rows[1] |-> "none"]
XChanged(e) == {t \in DOMAIN e.pre : ~(Len(e.post[t]) = Len(e.pre[t]) /\ BagEqRows(e.post[t], e.pre[t], XColls(e.pre[t])))}
XWhat(e) ==
  IF e.ev = "xfault" THEN
     (IF ~Fired(e) THEN <<>>
      ELSE (IF e.reply.kind # "err" THEN <<"fault:kind">> ELSE <<>>) \o (IF XChanged(e) # {} THEN <<"fault:post">> ELSE <<>>))
  ELSE IF e.reply.kind \in {"err", "panic"} /\ XChanged(e) # {} THEN <<"fail:post">> ELSE <<>>
XReport(e) ==
  LET what == XWhat(e) IN
  IF what = <<>> THEN TRUE
  ELSE PrintT("MF " \o ToJson([l |-> l, id |-> e.id, ev |-> e.ev, k |-> e.k, calls |-> e.calls, what |-> what,
                                changed |-> XChanged(e), badprobes |-> {}, fired |-> Fired(e)]))

\* ---------------------------------------------------------------- the row source fails at source row k
\* {"ev":"sfault","id":n,"stmt":<the INSERT / REPLACE .. VALUES statement with the same rows>,"k":k,"n":m,"pre":..,"reply":..,
\*  "post":..,"probes":[..],"tags":[mechanism ..]}: a non-IGNORE INSERT / REPLACE of m source rows run on a fresh copy of
\* the state, whose ROW SOURCE (not a row edit) raises an error at source row k: a BEFORE INSERT trigger that SIGNALs for
\* that row of the VALUES list, or INSERT / REPLACE .. SELECT .. ORDER BY whose select list fails at run time on that row;
\* in autocommit mode or inside START TRANSACTION .. COMMIT (`post` is read after the COMMIT).
\* Outcome exactly as StmtWithFault: k >= 1 => reply = error /\ every table UNCHANGED /\ every index lookup is the filter
\* over those rows; k = 0 (the source does not fail) => the normal outcome of the VALUES statement.
SrcWhat(e, bp) ==
  IF e.k >= 1 THEN
       (IF e.reply.kind # "err" THEN <<"src:kind">> ELSE <<>>)
    \o (IF ~Unchanged(e) THEN <<"src:post">> ELSE <<>>)
    \o (IF bp # {} THEN <<"src:probe">> ELSE <<>>)
  ELSE NormalWhat(e, "srcok") \o (IF bp # {} THEN <<"src:probe">> ELSE <<>>)
SrcFault(e) ==
  /\ LET bp == BadProbes(e) IN Report(e, SrcWhat(e, bp), bp)
  /\ st' = st

FNext ==
  /\ l <= Len(TraceLog)
  /\ l' = l + 1
  /\ LET e == TraceLog[l] IN
     CASE e.ev = "schema" -> st' = [tabs |-> e.tabs, autoinc |-> e.autoinc, lastid |-> 0]
       [] e.ev = "fault" -> StmtWithFault(e)
       [] e.ev = "sfault" -> SrcFault(e)
       [] e.ev \in {"xfault", "xstmt"} -> XReport(e) /\ st' = st
       [] e.ev = "xschema" -> st' = st
       [] e.ev = "stmt" -> (LET bp == BadProbes(e) IN Report(e, StmtWhat(e, bp), bp)) /\ Judge(e)
       [] OTHER -> st' = [tabs |-> <<>>, autoinc |-> <<>>, lastid |-> 0]
=============================================================================
