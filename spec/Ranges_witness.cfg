\* the witnesses of the open findings (two columns over {NULL, 0, 1, 2})
CONSTANTS
  NV = 3
  K = 2
  MaxLen = 0
  Class = "all"
  MaxTree = 0
  MinRem = 1
INIT InitEnum
NEXT NextWitness
ACTION_CONSTRAINT EmitEnum
CHECK_DEADLOCK FALSE
