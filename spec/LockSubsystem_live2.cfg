\* liveness under weak fairness of every running session (no VIEW, no act/step): an untimed Lock
\* gets the lock once it stays free; every call returns unless it is an untimed Lock on a held lock.
CONSTANTS
  Sess = {1, 2}
  Names = {"a", "b"}
  Budget <- B3
  Timeouts = {"inf"}
  Monitor = FALSE
  Record = FALSE
SPECIFICATION FairSpec
INVARIANTS TypeOK AtMostOneOwner Linearizable
PROPERTIES WaiterGetsFreeLock CallsReturn
CHECK_DEADLOCK FALSE
