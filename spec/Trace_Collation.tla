--------------------------- MODULE Trace_Collation ---------------------------
(* C29, binding B: one line per collation the engine implements (harness/cmd/c29):
     {"ev":"coll","id":n,"name":..,"cls":"bin"|"ci"|"cs","pad":TRUE|FALSE,"ascii_bin":BOOLEAN,"ai0900":BOOLEAN,
      "strs":[[cp..]..], "M":[[-1|0|1..]..] (StringType.Compare), "W":[[byte..]..] (WriteWeightString),
      "H":[text..] (HashToUint), "sqlok":BOOLEAN, "EQ","LT","LIKE","IN":[[0|1..]..] (a = b, a < b, a LIKE b,
      a IN (b) over a VARCHAR column of the collation; present when sqlok)}
   The failed laws of a line are printed as  MM {l, id, name, cls, pad, bad}; every line prints ST {l, nt}. *)
EXTENDS Collation, Json

TraceLog == ndJsonDeserialize("trace.ndjson")
VARIABLES l
vars == <<l>>

Laws(e) ==
  << <<"total-preorder", TotalPreorder(e.M)>>,
     <<"equal-iff-same-weight", EqualIffSameWeight(e.M, e.W)>>,
     <<"equal-iff-same-hash", EqualIffSameHash(e.M, e.H)>>,
     <<"bin-code-point-order", e.cls = "bin" => CodePointOrder(e.M, e.strs, e.ascii_bin)>>,
     <<"ci-case-fold-equal", e.cls = "ci" => CaseFoldEqual(e.M, e.strs)>>,
     <<"ai-ci-0900-order", e.ai0900 => CiOrder(e.M, e.strs)>>,
     <<"pad-attribute", PadRule(e.M, e.strs, e.pad)>>,
     <<"sql-eq", e.sqlok => OpEq(e.M, e.EQ)>>,
     <<"sql-lt", e.sqlok => OpLt(e.M, e.LT)>>,
     <<"sql-like", e.sqlok => OpLike(e.M, e.LIKE, e.strs)>>,
     <<"sql-in", e.sqlok => OpEq(e.M, e.IN)>> >>

\* non-trivial: the collation identifies at least two different strings, or orders differently from code points
NonTrivial(e) == \E i \in DOMAIN e.M, j \in DOMAIN e.M : i # j /\ (e.M[i][j] = 0 \/ e.M[i][j] # SeqCmp(e.strs[i], e.strs[j]))

Init == l = 1
Next ==
  /\ l <= Len(TraceLog)
  /\ l' = l + 1
  /\ LET e == TraceLog[l]
         laws == Laws(e)
         bad == {laws[k][1] : k \in {k \in DOMAIN laws : ~laws[k][2]}} IN
     /\ (bad = {} \/ PrintT("MM " \o ToJson([l |-> l, id |-> e.id, name |-> e.name, cls |-> e.cls, pad |-> e.pad, bad |-> bad])))
     /\ PrintT("ST " \o ToJson([l |-> l, nt |-> NonTrivial(e)]))

HW == TLCSet(1, l)
Accepted == TLCGet(1) = Len(TraceLog) + 1
=============================================================================
