CONSTANTS
  ColNames = {"a", "b", "c"}
  IdxNames = {"i1"}
  MaxCols = 3
  MaxRows = 2
  MaxSteps = 1
  Level = "small"
  MCTpls = {1, 2, 3, 4, 5, 6}
INIT InitMC
NEXT Next
VIEW View
INVARIANTS TypeOK ColumnNamesUnique KeyColsExist ValuesTyped Integrity PKNotNull
PROPERTIES DataPreserved
CHECK_DEADLOCK FALSE
