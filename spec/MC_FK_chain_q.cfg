INIT Init
NEXT Next
CONSTANTS
  Graph = "chain"
  KP = {0, 1}
  KC = {0, 1}
  ActSet = "three"
  PerKey = FALSE
  Toggle = FALSE
VIEW View0
INVARIANTS InvRefIntegrity InvKeys
PROPERTIES FailedNoEffect
CHECK_DEADLOCK FALSE
