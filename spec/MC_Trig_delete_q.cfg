INIT Init
NEXT Next
CONSTANTS
  Event = "delete"
  MaxTrig = 2
VIEW View0
CONSTRAINT Bounded
PROPERTIES OncePerRow OrderRespected FailedNoEffect SetStored
CHECK_DEADLOCK FALSE
