INIT Init
NEXT Next
CONSTANTS
  Preset = "both"
  K = {0, 1}
  MaxRows = 2
  MaxVal = 1
  Modes2 = {"plain"}
  MaxId = 6
VIEW View
CONSTRAINT Bounded
INVARIANTS InvPKUnique InvUniqueIdx InvNotNull InvChecks InvGenerated InvAutoCovers
PROPERTIES AutoIncMonotone FailedStmtNoEffect
CHECK_DEADLOCK FALSE
