---------------------------- MODULE SchemaChange ----------------------------
(* C21.  Schema changes preserve existing data.

   State: ONE table of one database --
     tname   "" (no table yet) | "t" | "u"
     cols    Seq([name, ty, nn, def])   ty = [k "tinyint"|"smallint"|"int"|"varchar", n, coll "none"|"bin"|"ci"]
                                         def = a default tag (see DefVal)
     pk      Seq(column name)           (<<>> = keyless)
     idx     set of [name, cols : Seq(column name), uniq]
     rows    Seq(row), row = Seq(value), values are SQLSem values: NULL, I(int), S(<<code points>>)
   Actions = CREATE TABLE (the first step), INSERT, and the ALTER TABLE family: ADD COLUMN (FIRST /
   AFTER / last; NULL / NOT NULL; DEFAULT), DROP COLUMN, RENAME COLUMN, MODIFY COLUMN (type change with
   conversion of every stored value, NULL -> NOT NULL, new default, reordering), change of a column's
   collation, ADD / DROP PRIMARY KEY, CREATE [UNIQUE] INDEX / DROP INDEX, RENAME TABLE.
   Every statement has a precondition `Pre`; when it does not hold the statement FAILS and the whole
   state is UNCHANGED (strict mode: a value that is not representable in the new type, a NULL in a
   column that becomes NOT NULL or part of the primary key, a key that would contain duplicates).
   `Crisp(a)` says for which statements the specification commits to an outcome (interplays owned by
   other properties or known defects recorded elsewhere are not generated, see run/props/C21.py).

   The SQL text of every statement is built here (Sql(a)); the harness only executes it and compares
   what SELECT / SHOW FULL COLUMNS / information_schema / SHOW INDEX report with Exp (post-state). *)
EXTENDS SQLSem, Json

CONSTANTS ColNames, IdxNames, MaxCols, MaxRows, MaxSteps, Level, MCTpls

VARIABLES tname, cols, pk, idx, rows, act, ret, step, taint
data == <<tname, cols, pk, idx, rows>>
vars == <<tname, cols, pk, idx, rows, act, ret, step, taint>>

\* ---------------------------------------------------------------- types and values
\* a column default is a TAG: "" = none, "i9" = 9, "sx" = 'x' (tags, not values, so that candidate sets never
\* compare an integer with a string)
NoDef == ""
DefVal(d) == IF d = "i9" THEN I(9) ELSE S(<<120>>)
TInt(k) == [k |-> k, n |-> 0, coll |-> "none"]
TVar(n, c) == [k |-> "varchar", n |-> n, coll |-> c]
IsIntTy(ty) == ty.k # "varchar"
InRangeK(k, v) == CASE k = "tinyint" -> v >= -128 /\ v <= 127
                    [] k = "smallint" -> v >= -32768 /\ v <= 32767
                    [] OTHER -> TRUE
ZeroOfTy(ty) == IF IsIntTy(ty) THEN I(0) ELSE S(<<>>)

TypePool == IF Level \in {"tiny", "small"}
            THEN {TInt("tinyint"), TInt("int"), TVar(2, "bin"), TVar(4, "ci")}
            ELSE {TInt("tinyint"), TInt("smallint"), TInt("int"),
                  TVar(2, "bin"), TVar(4, "bin"), TVar(8, "bin"), TVar(2, "ci"), TVar(4, "ci"), TVar(8, "ci")}
IntVals == IF Level = "tiny" THEN <<7, 200>> ELSE IF Level = "small" THEN <<0, 7, 200>>
           ELSE <<-129, -5, 0, 7, 9, 127, 128, 200, 32767, 32768, 70000>>
\* "", a, A, ab, Ab, 7, -5, 130, 40000, abcde, x
StrVals == IF Level \in {"tiny", "small"} THEN << <<97>>, <<65>>, <<55>>, <<49, 51, 48>> >>
           ELSE << <<>>, <<97>>, <<65>>, <<97, 98>>, <<65, 98>>, <<55>>, <<45, 53>>, <<49, 51, 48>>,
                   <<52, 48, 48, 48, 48>>, <<97, 98, 99, 100, 101>>, <<120>> >>

\* values a column accepts in an INSERT (type-correct, in range, short enough; NULL iff nullable)
ColVals(c) == (IF c.nn THEN <<>> ELSE <<NULL>>)
              \o (IF IsIntTy(c.ty) THEN [i \in 1..Len(SelectSeq(IntVals, LAMBDA v : InRangeK(c.ty.k, v))) |->
                                           I(SelectSeq(IntVals, LAMBDA v : InRangeK(c.ty.k, v))[i])]
                  ELSE [i \in 1..Len(SelectSeq(StrVals, LAMBDA s : Len(s) <= c.ty.n)) |->
                          S(SelectSeq(StrVals, LAMBDA s : Len(s) <= c.ty.n)[i])])
\* defaults offered for a type
DefsOf(ty) == IF IsIntTy(ty) THEN <<NoDef, "i9">> ELSE <<NoDef, "sx">>

\* ---------------------------------------------------------------- text
CharTab == << <<45, "-">>, <<48, "0">>, <<49, "1">>, <<50, "2">>, <<51, "3">>, <<52, "4">>, <<53, "5">>, <<54, "6">>,
              <<55, "7">>, <<56, "8">>, <<57, "9">>, <<65, "A">>, <<66, "B">>, <<97, "a">>, <<98, "b">>, <<99, "c">>,
              <<100, "d">>, <<101, "e">>, <<120, "x">> >>
Chr(c) == CharTab[CHOOSE i \in DOMAIN CharTab : CharTab[i][1] = c][2]
RECURSIVE Chars(_)
Chars(cp) == IF cp = <<>> THEN "" ELSE Chr(Head(cp)) \o Chars(Tail(cp))
RECURSIVE DigitsOf(_)
DigitsOf(n) == IF n < 10 THEN <<48 + n>> ELSE DigitsOf(n \div 10) \o <<48 + (n % 10)>>
IntToCp(v) == IF v < 0 THEN <<45>> \o DigitsOf(-v) ELSE DigitsOf(v)
IsNumCp(cp) == LET body == IF cp # <<>> /\ cp[1] = 45 THEN Tail(cp) ELSE cp
               IN body # <<>> /\ Len(body) <= 8 /\ \A i \in DOMAIN body : body[i] >= 48 /\ body[i] <= 57
RECURSIVE DigVal(_, _)
DigVal(body, acc) == IF body = <<>> THEN acc ELSE DigVal(Tail(body), acc * 10 + (Head(body) - 48))
CpToInt(cp) == IF cp[1] = 45 THEN -DigVal(Tail(cp), 0) ELSE DigVal(cp, 0)
Lit(v) == IF IsN(v) THEN "NULL" ELSE IF v.t = "i" THEN ToString(v.v) ELSE "'" \o Chars(v.v) \o "'"
RECURSIVE JoinS(_, _)
JoinS(s, sep) == IF s = <<>> THEN "" ELSE IF Len(s) = 1 THEN s[1] ELSE s[1] \o sep \o JoinS(Tail(s), sep)
RECURSIVE SetToSeq(_)
SetToSeq(Sx) == IF Sx = {} THEN <<>> ELSE LET x == CHOOSE y \in Sx : TRUE IN <<x>> \o SetToSeq(Sx \ {x})

TypeText(ty) == IF IsIntTy(ty) THEN ty.k ELSE "varchar(" \o ToString(ty.n) \o ")"
CollName(c) == IF c = "ci" THEN "utf8mb4_0900_ai_ci" ELSE "utf8mb4_0900_bin"
TypeSql(ty) == TypeText(ty) \o (IF ty.coll = "ci" THEN " COLLATE " \o CollName("ci") ELSE "")
ColDef(c) == c.name \o " " \o TypeSql(c.ty) \o (IF c.nn THEN " NOT NULL" ELSE " NULL")
             \o (IF c.def = NoDef THEN "" ELSE " DEFAULT " \o Lit(DefVal(c.def)))
PosSql(a) == CASE a.pos = "first" -> " FIRST" [] a.pos = "after" -> " AFTER " \o a.after [] OTHER -> ""

\* ---------------------------------------------------------------- helpers over the table
NamesOf(cs) == {cs[i].name : i \in DOMAIN cs}
HasCol(cs, c) == c \in NamesOf(cs)
PosOf(cs, c) == CHOOSE i \in DOMAIN cs : cs[i].name = c
RemoveAt(s, i) == SubSeq(s, 1, i - 1) \o SubSeq(s, i + 1, Len(s))
InsertAt(s, i, x) == SubSeq(s, 1, i - 1) \o <<x>> \o SubSeq(s, i, Len(s))       \* x becomes element i
SeqMapName(s, from, to) == [i \in DOMAIN s |-> IF s[i] = from THEN to ELSE s[i]]
RECURSIVE SeqWithout(_, _)
SeqWithout(s, x) == IF s = <<>> THEN <<>> ELSE IF Head(s) = x THEN SeqWithout(Tail(s), x) ELSE <<Head(s)>> \o SeqWithout(Tail(s), x)
IdxNamesOf(ix) == {i.name : i \in ix}
Other(t) == IF t = "t" THEN "u" ELSE "t"

\* the key a row has under a sequence of column names; blind = compare strings byte-wise whatever the collation
KeyOf(cs, names, r, blind) ==
  [j \in DOMAIN names |-> LET p == PosOf(cs, names[j]) IN
                          IF blind THEN r[p] ELSE NormV(r[p], IF cs[p].ty.coll = "ci" THEN "ci" ELSE "bin")]
KeyHasNull(cs, names, r) == \E j \in DOMAIN names : IsN(r[PosOf(cs, names[j])])
DistinctKeys(cs, names, rs, blind) ==
  \A i, j \in DOMAIN rs : (i < j /\ ~KeyHasNull(cs, names, rs[i]) /\ ~KeyHasNull(cs, names, rs[j]))
                             => KeyOf(cs, names, rs[i], blind) # KeyOf(cs, names, rs[j], blind)
KeysOK(cs, p, ix, rs, blind) ==
  /\ p # <<>> => ((\A i \in DOMAIN rs : ~KeyHasNull(cs, p, rs[i])) /\ DistinctKeys(cs, p, rs, blind))
  /\ \A x \in ix : x.uniq => DistinctKeys(cs, x.cols, rs, blind)
NotNullOK(cs, rs) == \A i \in DOMAIN rs : \A j \in DOMAIN cs : cs[j].nn => ~IsN(rs[i][j])

\* ---------------------------------------------------------------- conversion of a stored value to a new type
\* [ok, v]: ok = the value is representable in the new type (strict mode: otherwise the ALTER fails)
Conv(v, from, to) ==
  IF IsN(v) THEN [ok |-> TRUE, v |-> NULL]
  ELSE IF IsIntTy(from) /\ IsIntTy(to) THEN [ok |-> InRangeK(to.k, v.v), v |-> v]
  ELSE IF IsIntTy(from) THEN [ok |-> Len(IntToCp(v.v)) <= to.n, v |-> S(IntToCp(v.v))]
  ELSE IF ~IsIntTy(to) THEN [ok |-> Len(v.v) <= to.n, v |-> v]
  ELSE IF IsNumCp(v.v) THEN [ok |-> InRangeK(to.k, CpToInt(v.v)), v |-> I(CpToInt(v.v))]
  ELSE [ok |-> FALSE, v |-> NULL]

\* ---------------------------------------------------------------- table templates (the first statement)
C(n, ty, nn, d) == [name |-> n, ty |-> ty, nn |-> nn, def |-> d]
NTpl == 6
Tpl(k) ==
  CASE k = 1 -> [cols |-> <<C("a", TInt("int"), TRUE, NoDef), C("b", TVar(4, "bin"), FALSE, NoDef)>>, pk |-> <<"a">>]
    [] k = 2 -> [cols |-> <<C("a", TInt("smallint"), FALSE, NoDef), C("b", TVar(8, "bin"), FALSE, NoDef), C("c", TInt("int"), FALSE, "i9")>>, pk |-> <<>>]
    [] k = 3 -> [cols |-> <<C("a", TInt("int"), TRUE, NoDef), C("b", TVar(4, "ci"), TRUE, NoDef)>>, pk |-> <<"a", "b">>]
    [] k = 4 -> [cols |-> <<C("a", TVar(4, "bin"), TRUE, NoDef), C("b", TInt("tinyint"), FALSE, NoDef)>>, pk |-> <<"a">>]
    [] k = 5 -> [cols |-> <<C("a", TInt("tinyint"), FALSE, NoDef), C("b", TVar(2, "bin"), FALSE, "sx")>>, pk |-> <<>>]
    [] OTHER -> [cols |-> <<C("a", TVar(8, "ci"), FALSE, NoDef), C("b", TInt("int"), TRUE, NoDef), C("c", TVar(4, "bin"), FALSE, NoDef)>>, pk |-> <<"b">>]

\* ---------------------------------------------------------------- SQL text
Sql(a) ==
  CASE a.op = "CreateTable" ->
         "CREATE TABLE t (" \o JoinS([i \in DOMAIN Tpl(a.k).cols |-> ColDef(Tpl(a.k).cols[i])], ", ")
           \o (IF Tpl(a.k).pk = <<>> THEN "" ELSE ", PRIMARY KEY (" \o JoinS(Tpl(a.k).pk, ", ") \o ")") \o ")"
    [] a.op = "Insert" -> "INSERT INTO " \o a.t \o " VALUES (" \o JoinS([i \in DOMAIN a.vals |-> Lit(a.vals[i])], ", ") \o ")"
    [] a.op = "AddColumn" -> "ALTER TABLE " \o a.t \o " ADD COLUMN " \o ColDef(a.col) \o PosSql(a)
    [] a.op = "DropColumn" -> "ALTER TABLE " \o a.t \o " DROP COLUMN " \o a.c
    [] a.op = "RenameColumn" -> "ALTER TABLE " \o a.t \o " RENAME COLUMN " \o a.c \o " TO " \o a.c2
    [] a.op \in {"ModifyColumn", "ChangeCollation"} -> "ALTER TABLE " \o a.t \o " MODIFY COLUMN " \o ColDef(a.col) \o PosSql(a)
    [] a.op = "AddPrimaryKey" -> "ALTER TABLE " \o a.t \o " ADD PRIMARY KEY (" \o JoinS(a.cols, ", ") \o ")"
    [] a.op = "DropPrimaryKey" -> "ALTER TABLE " \o a.t \o " DROP PRIMARY KEY"
    [] a.op = "AddIndex" -> "CREATE " \o (IF a.uniq THEN "UNIQUE " ELSE "") \o "INDEX " \o a.name \o " ON " \o a.t \o " (" \o JoinS(a.cols, ", ") \o ")"
    [] a.op = "DropIndex" -> "DROP INDEX " \o a.name \o " ON " \o a.t
    [] OTHER -> "RENAME TABLE " \o a.t \o " TO " \o a.t2

\* ---------------------------------------------------------------- effects: the table [cols, pk, idx, rows] a statement would produce
Tab(cs, p, ix, rs) == [cols |-> cs, pk |-> p, idx |-> ix, rows |-> rs]
Cur == Tab(cols, pk, idx, rows)
AtOf(cs, a) == CASE a.pos = "first" -> 1 [] a.pos = "after" -> PosOf(cs, a.after) + 1 [] OTHER -> Len(cs) + 1

EffAdd(a) ==
  LET at == AtOf(cols, a)
      fill == IF a.col.def # NoDef THEN DefVal(a.col.def) ELSE IF ~a.col.nn THEN NULL ELSE ZeroOfTy(a.col.ty)
  IN Tab(InsertAt(cols, at, a.col), pk, idx, [i \in DOMAIN rows |-> InsertAt(rows[i], at, fill)])

EffDrop(a) ==
  LET p == PosOf(cols, a.c)
      ix2 == {y \in {[x EXCEPT !.cols = SeqWithout(x.cols, a.c)] : x \in idx} : y.cols # <<>>}
  IN Tab(RemoveAt(cols, p), SeqWithout(pk, a.c), ix2, [i \in DOMAIN rows |-> RemoveAt(rows[i], p)])

EffRename(a) ==
  Tab([cols EXCEPT ![PosOf(cols, a.c)].name = a.c2], SeqMapName(pk, a.c, a.c2),
      {[x EXCEPT !.cols = SeqMapName(x.cols, a.c, a.c2)] : x \in idx}, rows)

\* MODIFY COLUMN: the column keeps its name, gets the new definition and possibly a new position
ModOK(a) == \A i \in DOMAIN rows : Conv(rows[i][PosOf(cols, a.col.name)], cols[PosOf(cols, a.col.name)].ty, a.col.ty).ok
EffModify(a) ==
  LET p == PosOf(cols, a.col.name)
      old == cols[p]
      without == RemoveAt(cols, p)
      q == CASE a.pos = "first" -> 1 [] a.pos = "after" -> PosOf(without, a.after) + 1 [] OTHER -> p
  IN Tab(InsertAt(without, q, a.col), pk, idx,
         [i \in DOMAIN rows |-> InsertAt(RemoveAt(rows[i], p), q, Conv(rows[i][p], old.ty, a.col.ty).v)])

EffAddPK(a) ==
  Tab([i \in DOMAIN cols |-> IF cols[i].name \in Range(a.cols) THEN [cols[i] EXCEPT !.nn = TRUE] ELSE cols[i]], a.cols, idx, rows)

Eff(a) ==
  CASE a.op = "Insert" -> Tab(cols, pk, idx, Append(rows, a.vals))
    [] a.op = "AddColumn" -> EffAdd(a)
    [] a.op = "DropColumn" -> EffDrop(a)
    [] a.op = "RenameColumn" -> EffRename(a)
    [] a.op \in {"ModifyColumn", "ChangeCollation"} -> EffModify(a)
    [] a.op = "AddPrimaryKey" -> EffAddPK(a)
    [] a.op = "DropPrimaryKey" -> Tab(cols, <<>>, idx, rows)
    [] a.op = "AddIndex" -> Tab(cols, pk, idx \cup {[name |-> a.name, cols |-> a.cols, uniq |-> a.uniq]}, rows)
    [] a.op = "DropIndex" -> Tab(cols, pk, {x \in idx : x.name # a.name}, rows)
    [] OTHER -> Cur                                                           \* RenameTable: only the name moves

\* structural precondition (names exist / are free)
Struct(a) ==
  CASE a.op = "CreateTable" -> tname = ""
    [] a.op = "RenameTable" -> tname # "" /\ a.t = tname /\ a.t2 # tname
    [] a.op = "Insert" -> a.t = tname /\ Len(a.vals) = Len(cols)
    [] a.op = "AddColumn" -> a.t = tname /\ ~HasCol(cols, a.col.name) /\ (a.pos = "after" => HasCol(cols, a.after))
    [] a.op = "DropColumn" -> a.t = tname /\ HasCol(cols, a.c) /\ Len(cols) > 1
    [] a.op = "RenameColumn" -> a.t = tname /\ HasCol(cols, a.c) /\ ~HasCol(cols, a.c2)
    [] a.op \in {"ModifyColumn", "ChangeCollation"} ->
         a.t = tname /\ HasCol(cols, a.col.name) /\ (a.pos = "after" => (HasCol(cols, a.after) /\ a.after # a.col.name))
    [] a.op = "AddPrimaryKey" -> a.t = tname /\ pk = <<>> /\ Range(a.cols) \subseteq NamesOf(cols)
    [] a.op = "DropPrimaryKey" -> a.t = tname /\ pk # <<>>
    [] a.op = "AddIndex" -> a.t = tname /\ a.name \notin IdxNamesOf(idx) /\ Range(a.cols) \subseteq NamesOf(cols)
    [] OTHER -> a.t = tname /\ a.name \in IdxNamesOf(idx)                     \* DropIndex

\* the statement succeeds: structure, every stored value representable, integrity of the result
DataOK(a, blind) ==
  /\ a.op \in {"ModifyColumn", "ChangeCollation"} => ModOK(a)
  /\ LET n == Eff(a) IN NotNullOK(n.cols, n.rows) /\ KeysOK(n.cols, n.pk, n.idx, n.rows, blind)
Pre(a) == Struct(a) /\ (a.op \notin {"CreateTable", "RenameTable"} => DataOK(a, FALSE))

\* ---------------------------------------------------------------- crispness
InUniqueKey(c) == c \in Range(pk) \/ \E x \in idx : x.uniq /\ c \in Range(x.cols)
SecIdxCols == UNION {Range(x.cols) : x \in idx}
\* Statements that TRIGGER a recorded, still OPEN defect of the in-memory backend which corrupts the table's
\* secondary indexes silently (the damage shows statements later, in many shapes) are not generated at random
\* (Steered); each trigger class has a finding with a witness behaviour that is replayed on every run
\* (known_findings.jsonl, findings/C21-*).  All five classes below were repaired in /repo (findings `fixed`), so
\* Steered is empty and every one of these shapes is drawn at random again; a class goes back into Steered
\* only while its finding is open:
\*   K1  RENAME TABLE of a table with secondary indexes            (C21-rename-table-corrupts-secondary-indexes)
\*   K2  MODIFY / RENAME of a primary-key column, secondary indexes (C21-modify-pk-column-corrupts-index-pk-ordinals)
\*   K4  DROP PRIMARY KEY of a table with secondary indexes         (C21-drop-pk-leaves-stale-index-key-columns)
\*   K5  in-place ADD COLUMN (NULL, no default) before an indexed or primary-key column, secondary indexes
\*                                                                  (C21-add-column-before-indexed-column)
\*   K6  MODIFY with a table rewrite (reordering, NULL -> NOT NULL) that changes the type of an indexed column
\*                                                                  (C21-modify-rewrite-keeps-old-type-in-index)
TriggerId(a) ==
  CASE a.op = "RenameTable" -> IF a.t = tname /\ a.t2 # tname /\ idx # {} THEN "K1" ELSE ""
    [] a.op \in {"ModifyColumn", "ChangeCollation"} ->
         IF a.t # tname \/ ~HasCol(cols, a.col.name) THEN ""
         ELSE IF a.col.name \in Range(pk) /\ idx # {} THEN "K2"
         ELSE IF /\ a.col.name \in SecIdxCols
                 /\ LET old == cols[PosOf(cols, a.col.name)] IN
                    old.ty # a.col.ty /\ (a.pos # "last" \/ (~old.nn /\ a.col.nn))
              THEN "K6" ELSE ""
    [] a.op = "RenameColumn" -> IF a.t = tname /\ a.c \in Range(pk) /\ idx # {} THEN "K2" ELSE ""
    [] a.op = "DropPrimaryKey" -> IF a.t = tname /\ pk # <<>> /\ idx # {} THEN "K4" ELSE ""
    [] a.op = "AddColumn" -> IF /\ Struct(a) /\ ~a.col.nn /\ a.col.def = NoDef
                                /\ idx # {} /\ \E c \in SecIdxCols \cup Range(pk) : PosOf(cols, c) >= AtOf(cols, a)
                             THEN "K5" ELSE ""
    [] OTHER -> ""
BlindKeysOpen == FALSE             \* TRUE while DML-collation-blind-keys (C13/C14) is open
CompositeRenameOpen == FALSE       \* TRUE while C43-rename-primary-key-column-corrupts-key is open
Steered == {}                      \* the trigger classes (K1..K6) whose finding is still open
KnownTrigger(a) == TriggerId(a) \in Steered
Crisp(a) ==
  /\ \* keys over _ai_ci columns are compared under the column collation (the byte-wise comparison recorded under
     \* C13/C14 was repaired: statements whose outcome depends on it are generated again)
     (BlindKeysOpen /\ Struct(a) /\ a.op \notin {"CreateTable", "RenameTable"}) => (DataOK(a, TRUE) <=> DataOK(a, FALSE))
  /\ ~KnownTrigger(a)
  /\ CASE a.op = "AddColumn" -> a.t = tname => Len(cols) < MaxCols
       [] a.op = "Insert" -> Len(rows) < MaxRows                                          \* bound of the model only
       [] a.op = "DropColumn" -> (a.t = tname /\ HasCol(cols, a.c)) => (~InUniqueKey(a.c) /\ Len(cols) > 1)   \* recorded under C43
       [] a.op = "RenameColumn" -> (CompositeRenameOpen /\ a.t = tname /\ HasCol(cols, a.c)) => ~(a.c \in Range(pk) /\ Len(pk) > 1)   \* recorded under C43 (repaired)
       [] a.op \in {"ModifyColumn", "ChangeCollation"} ->
            (a.t = tname /\ HasCol(cols, a.col.name)) => ((a.col.name \in Range(pk) => a.col.nn) /\ a.after # a.col.name)
       [] OTHER -> TRUE

\* features of a statement that the harness puts into the signature of a disagreement (evaluated in the pre-state)
ConvLenient(v, from, to) == IF ~IsN(v) /\ ~IsIntTy(from) /\ IsIntTy(to) /\ v.v = <<>> THEN [ok |-> TRUE, v |-> I(0)] ELSE Conv(v, from, to)
Tags(a) ==
  [i \in 1..Cardinality(taint') |-> "after:" \o SetToSeq(taint')[i]] \o
  CASE a.op = "AddIndex" ->
         (IF a.uniq THEN <<"uniq">> ELSE <<>>)
         \o (IF Struct(a) /\ \E j \in DOMAIN a.cols : PosOf(cols, a.cols[j]) # j THEN <<"shifted">> ELSE <<>>)
    [] a.op \in {"ModifyColumn", "ChangeCollation"} ->
         (IF Struct(a) /\ ~ModOK(a)
             /\ \A i \in DOMAIN rows : ConvLenient(rows[i][PosOf(cols, a.col.name)], cols[PosOf(cols, a.col.name)].ty, a.col.ty).ok
          THEN <<"emptystr">> ELSE <<>>)
         \* the statement must fail ONLY because a primary / unique key would hold duplicates afterwards; "inplace" = no
         \* reordering and no NULL -> NOT NULL (the engine then edits the table in place instead of rewriting it)
         \o (IF Struct(a) /\ ModOK(a) /\ (LET n == Eff(a) IN NotNullOK(n.cols, n.rows) /\ ~KeysOK(n.cols, n.pk, n.idx, n.rows, FALSE))
             THEN <<IF a.pos = "last" /\ ~(~cols[PosOf(cols, a.col.name)].nn /\ a.col.nn) THEN "inplace" ELSE "rewrite", "keydup">>
             ELSE <<>>)
    [] a.op = "DropColumn" ->
         IF Struct(a) /\ idx # {} /\ \E c \in Range(pk) : PosOf(cols, c) > PosOf(cols, a.c) THEN <<"hasidx", "beforepk">> ELSE <<>>
    [] OTHER -> <<>>

\* ---------------------------------------------------------------- candidate statements
Distinct2(Sx) == {p \in Sx \X Sx : p[1] # p[2]}
KeySeqs(Sx) == {<<x>> : x \in Sx} \cup Distinct2(Sx)
PosChoices == {[pos |-> "last", after |-> ""], [pos |-> "first", after |-> ""]} \cup {[pos |-> "after", after |-> x] : x \in ColNames}
NewCols(names) == {C(n, ty, nn, DefsOf(ty)[d]) : n \in names, ty \in TypePool, nn \in BOOLEAN, d \in 1..2}
RECURSIVE RowsOver(_)
RowsOver(cs) == IF cs = <<>> THEN {<<>>}
                ELSE {<<ColVals(Head(cs))[i]>> \o r : i \in DOMAIN ColVals(Head(cs)), r \in RowsOver(Tail(cs))}
CandOf(op) ==
  LET T == {"t", "u"} IN
  CASE op = "Insert" -> {[op |-> "Insert", t |-> tname, vals |-> v] : v \in RowsOver(cols)}
    [] op = "AddColumn" ->
         \* every free name and (for the failing case) one name that is taken
         {[op |-> "AddColumn", t |-> tname, col |-> c, pos |-> p.pos, after |-> p.after] :
          c \in NewCols((ColNames \ NamesOf(cols)) \cup {CHOOSE n \in NamesOf(cols) : TRUE}), p \in PosChoices}
    [] op = "DropColumn" -> {[op |-> "DropColumn", t |-> tname, c |-> c] : c \in ColNames}
    [] op = "RenameColumn" -> {[op |-> "RenameColumn", t |-> tname, c |-> p[1], c2 |-> p[2]] : p \in Distinct2(ColNames)}
    [] op = "ModifyColumn" ->
         \* every column and (for the failing case) one name that is free
         {[op |-> "ModifyColumn", t |-> tname, col |-> c, pos |-> p.pos, after |-> p.after] :
          c \in NewCols(NamesOf(cols) \cup (IF ColNames \subseteq NamesOf(cols) THEN {} ELSE {CHOOSE n \in ColNames \ NamesOf(cols) : TRUE})), p \in PosChoices}
    [] op = "ChangeCollation" ->
         {[op |-> "ChangeCollation", t |-> tname, col |-> [cols[i] EXCEPT !.ty.coll = IF @ = "ci" THEN "bin" ELSE "ci"], pos |-> "last", after |-> ""] :
          i \in {j \in DOMAIN cols : ~IsIntTy(cols[j].ty)}}
    [] op = "AddPrimaryKey" -> {[op |-> "AddPrimaryKey", t |-> tname, cols |-> k] : k \in KeySeqs(NamesOf(cols))}
    [] op = "DropPrimaryKey" -> {[op |-> "DropPrimaryKey", t |-> tname]}
    [] op = "AddIndex" -> {[op |-> "AddIndex", t |-> tname, name |-> n, cols |-> k, uniq |-> u] : n \in IdxNames, k \in KeySeqs(NamesOf(cols)), u \in BOOLEAN}
    [] op = "DropIndex" -> {[op |-> "DropIndex", t |-> tname, name |-> n] : n \in IdxNames}
    [] OTHER -> {[op |-> "RenameTable", t |-> p[1], t2 |-> p[2]] : p \in T \X T}

\* in MODIFY the position "last" means "keep the position" (no FIRST / AFTER clause)
Ops == {"Insert", "AddColumn", "DropColumn", "RenameColumn", "ModifyColumn", "ChangeCollation", "AddPrimaryKey", "DropPrimaryKey",
        "AddIndex", "DropIndex", "RenameTable"}

Init == tname = "" /\ cols = <<>> /\ pk = <<>> /\ idx = {} /\ rows = <<>> /\ act = [op |-> "init"] /\ ret = "none" /\ step = 0 /\ taint = {}

\* taint: the STEERED index-corrupting triggers (K1..K6) executed in this behaviour; always {} in generated
\* behaviours (Crisp excludes the triggers), non-empty only in the scripted witness behaviours (MC_SchemaChange)
Apply(a) ==
  /\ act' = a /\ step' = step + 1
  /\ taint' = IF Pre(a) /\ KnownTrigger(a) THEN taint \cup {TriggerId(a)} ELSE taint
  /\ IF Pre(a)
     THEN /\ ret' = "ok"
          /\ IF a.op = "CreateTable"
             THEN tname' = "t" /\ cols' = Tpl(a.k).cols /\ pk' = Tpl(a.k).pk /\ idx' = {} /\ rows' = <<>>
             ELSE IF a.op = "RenameTable" THEN tname' = a.t2 /\ UNCHANGED <<cols, pk, idx, rows>>
             ELSE LET n == Eff(a) IN tname' = tname /\ cols' = n.cols /\ pk' = n.pk /\ idx' = n.idx /\ rows' = n.rows
     ELSE ret' = "fail" /\ UNCHANGED data

\* bounded model: start from a populated table (every template of MCTpls with every bag of at most MaxRows rows
\* that satisfies the keys), so that one step already is a schema change over data
InitMC ==
  \E k \in MCTpls :
     LET rsq == SetToSeq(RowsOver(Tpl(k).cols))
         cands == {<<>>} \cup {<<rsq[i]>> : i \in DOMAIN rsq}
                  \cup (IF MaxRows >= 2 THEN UNION {{<<rsq[i], rsq[j]>> : j \in i..Len(rsq)} : i \in DOMAIN rsq} ELSE {})
     IN \E rs \in cands :
          /\ KeysOK(Tpl(k).cols, Tpl(k).pk, {}, rs, FALSE)
          /\ tname = "t" /\ cols = Tpl(k).cols /\ pk = Tpl(k).pk /\ idx = {} /\ rows = rs
          /\ act = [op |-> "init"] /\ ret = "none" /\ step = 0 /\ taint = {}
Create == \E k \in 1..NTpl : Apply([op |-> "CreateTable", k |-> k])
Next ==
  /\ step < MaxSteps
  /\ IF tname = "" THEN Create
     ELSE \E op \in Ops : \E a \in {x \in CandOf(op) : Crisp(x)} : Apply(a)

\* ---------------------------------------------------------------- random behaviours (simulation)
\* One random behaviour per simulation run.  A step draws a tape of random numbers (each bound by \E over a
\* singleton so that it is evaluated exactly once), decodes NTry candidate statements of one random kind from
\* it (statements of the shapes of CandOf(kind), drawn over all names) and takes the first that succeeds (3 times out of 4) or the first crisp one.
NamesSeq(cs) == [i \in DOMAIN cs |-> cs[i].name]
ColNameSeq == SetToSeq(ColNames)
IdxNameSeq == SetToSeq(IdxNames)
TypeSeq == SetToSeq(TypePool)
Pick(sq, r) == sq[(r % Len(sq)) + 1]
Rv(tp, i, j) == (tp[i] + j * 7919 + j * j * tp[(i % Len(tp)) + 1]) % 10000
\* mostly a name of the first sequence, sometimes (1 in 6) any name
Mostly(pref, any, r1, r2) == IF pref # <<>> /\ r1 % 6 # 0 THEN Pick(pref, r2) ELSE Pick(any, r2)
DrawPos(tp, j, i, keepw) ==
  LET r == Rv(tp, i, j) % (keepw + 4) IN
  IF r < keepw THEN [pos |-> "last", after |-> ""]
  ELSE IF r = keepw THEN [pos |-> "first", after |-> ""]
  ELSE [pos |-> "after", after |-> Mostly(NamesSeq(cols), ColNameSeq, Rv(tp, i + 1, j), Rv(tp, i + 2, j))]
DrawCol(nm, tp, j, i) ==
  LET ty == Pick(TypeSeq, Rv(tp, i, j)) IN C(nm, ty, Rv(tp, i + 1, j) % 2 = 0, DefsOf(ty)[(Rv(tp, i + 2, j) % 2) + 1])
DrawKey(tp, j, i) ==
  LET c1 == Pick(NamesSeq(cols), Rv(tp, i, j))
      c2 == Pick(NamesSeq(cols), Rv(tp, i + 1, j))
  IN IF c1 = c2 \/ Rv(tp, i + 2, j) % 2 = 0 THEN <<c1>> ELSE <<c1, c2>>
Draw(op, tp, j) ==
  LET R(i) == Rv(tp, i, j)
      ex == NamesSeq(cols)
      free == SetToSeq(ColNames \ NamesOf(cols))
      vc == SelectSeq(cols, LAMBDA c : ~IsIntTy(c.ty))
  IN CASE op = "Insert" -> [op |-> "Insert", t |-> tname, vals |-> [c \in DOMAIN cols |-> Pick(ColVals(cols[c]), R(c))]]
       [] op = "AddColumn" ->
            LET p == DrawPos(tp, j, 6, 2) IN
            [op |-> "AddColumn", t |-> tname, col |-> DrawCol(Mostly(free, ColNameSeq, R(1), R(2)), tp, j, 3), pos |-> p.pos, after |-> p.after]
       [] op = "DropColumn" -> [op |-> "DropColumn", t |-> tname, c |-> Mostly(ex, ColNameSeq, R(1), R(2))]
       [] op = "RenameColumn" ->
            LET c == Mostly(ex, ColNameSeq, R(1), R(2))
                c2 == Mostly(free, ColNameSeq, R(3), R(4))
            IN [op |-> "RenameColumn", t |-> tname, c |-> c, c2 |-> IF c2 = c THEN Pick(SetToSeq(ColNames \ {c}), R(5)) ELSE c2]
       [] op = "ModifyColumn" \/ (op = "ChangeCollation" /\ vc = <<>>) ->
            LET p == DrawPos(tp, j, 6, 4) IN
            [op |-> "ModifyColumn", t |-> tname, col |-> DrawCol(Mostly(ex, ColNameSeq, R(1), R(2)), tp, j, 3), pos |-> p.pos, after |-> p.after]
       [] op = "ChangeCollation" ->
            [op |-> "ChangeCollation", t |-> tname, col |-> [Pick(vc, R(1)) EXCEPT !.ty.coll = IF @ = "ci" THEN "bin" ELSE "ci"], pos |-> "last", after |-> ""]
       [] op = "AddPrimaryKey" -> [op |-> "AddPrimaryKey", t |-> tname, cols |-> DrawKey(tp, j, 1)]
       [] op = "DropPrimaryKey" -> [op |-> "DropPrimaryKey", t |-> tname]
       [] op = "AddIndex" -> [op |-> "AddIndex", t |-> tname, name |-> Pick(IdxNameSeq, R(4)), cols |-> DrawKey(tp, j, 1), uniq |-> R(5) % 2 = 0]
       [] op = "DropIndex" -> [op |-> "DropIndex", t |-> tname, name |-> Pick(IdxNameSeq, R(1))]
       [] OTHER -> [op |-> "RenameTable", t |-> IF R(1) % 6 = 0 THEN Other(tname) ELSE tname, t2 |-> IF R(2) % 6 = 0 THEN tname ELSE Other(tname)]
NTry == 6
OpsBag == <<"Insert", "Insert", "Insert", "AddColumn", "AddColumn", "DropColumn", "RenameColumn", "ModifyColumn", "ModifyColumn", "ModifyColumn",
            "ChangeCollation", "AddPrimaryKey", "DropPrimaryKey", "AddIndex", "AddIndex", "DropIndex", "RenameTable">>
Chosen(op, k, tp) ==
  LET cs == [j \in 1..NTry |-> Draw(op, tp, j)]
      crisp == {j \in 1..NTry : Crisp(cs[j])}
      okj == {j \in crisp : Pre(cs[j])}
      best == IF k # 1 /\ okj # {} THEN okj ELSE crisp
  IN IF best = {} THEN [op |-> "RenameTable", t |-> Other(tname), t2 |-> tname]      \* always crisp (fails)
     ELSE cs[CHOOSE j \in best : \A j2 \in best : j <= j2]
NextRandom ==
  /\ step < MaxSteps
  /\ IF tname = "" THEN (\E k \in {RandomElement(1..NTpl)} : Apply([op |-> "CreateTable", k |-> k]))
     ELSE \E o \in {RandomElement(1..Len(OpsBag))} : \E k \in {RandomElement(1..4)} :
          \E t1 \in {RandomElement(0..9999)} : \E t2 \in {RandomElement(0..9999)} : \E t3 \in {RandomElement(0..9999)} :
          \E t4 \in {RandomElement(0..9999)} : \E t5 \in {RandomElement(0..9999)} : \E t6 \in {RandomElement(0..9999)} :
          \E t7 \in {RandomElement(0..9999)} : \E t8 \in {RandomElement(0..9999)} : \E t9 \in {RandomElement(0..9999)} :
            LET op == IF Len(rows) < 2 /\ o % 2 = 0 THEN "Insert" ELSE OpsBag[o]
            IN Apply(Chosen(op, k, <<t1, t2, t3, t4, t5, t6, t7, t8, t9>>))

Spec == Init /\ [][Next]_vars
View == data

\* ---------------------------------------------------------------- invariants (model-checked)
TypeOK ==
  /\ tname \in {"", "t", "u"} /\ Len(cols) <= MaxCols + 1 /\ Len(rows) <= MaxRows
  /\ \A i \in DOMAIN rows : Len(rows[i]) = Len(cols)
ColumnNamesUnique == \A i, j \in DOMAIN cols : cols[i].name = cols[j].name => i = j
KeyColsExist == Range(pk) \subseteq NamesOf(cols) /\ \A x \in idx : x.cols # <<>> /\ Range(x.cols) \subseteq NamesOf(cols)
\* every stored value belongs to its column's type
FitsTy(v, ty) == IsN(v) \/ (IF IsIntTy(ty) THEN v.t = "i" /\ InRangeK(ty.k, v.v) ELSE v.t = "s" /\ Len(v.v) <= ty.n)
ValuesTyped == \A i \in DOMAIN rows : \A j \in DOMAIN cols : FitsTy(rows[i][j], cols[j].ty)
Integrity == NotNullOK(cols, rows) /\ KeysOK(cols, pk, idx, rows, FALSE)
PKNotNull == \A c \in Range(pk) : cols[PosOf(cols, c)].nn

\* DataPreserved (action property): a failed statement changes nothing; a successful ALTER keeps the
\* number of rows and, for every RETAINED column (followed through a rename, wherever it moves), row i
\* holds the old value converted to the column's new type; an added column holds its default in every
\* row.  Stated by column NAME, independently of the positional bookkeeping of the effects above.
NewName(a, c) == IF a.op = "RenameColumn" /\ c = a.c THEN a.c2 ELSE c
Dropped(a, c) == a.op = "DropColumn" /\ c = a.c
DataPreservedStep ==
  /\ ret' = "fail" => UNCHANGED data
  /\ (ret' = "ok" /\ act'.op \notin {"CreateTable", "Insert"}) =>
       /\ Len(rows') = Len(rows)
       /\ \A j \in DOMAIN cols : ~Dropped(act', cols[j].name) =>
            /\ HasCol(cols', NewName(act', cols[j].name))
            /\ LET j2 == PosOf(cols', NewName(act', cols[j].name)) IN
               \A i \in DOMAIN rows :
                  LET cv == Conv(rows[i][j], cols[j].ty, cols'[j2].ty) IN
                  cv.ok /\ (IF IsN(cv.v) THEN IsN(rows'[i][j2]) ELSE (~IsN(rows'[i][j2]) /\ rows'[i][j2].v = cv.v.v))
       /\ act'.op = "AddColumn" =>
            LET j2 == PosOf(cols', act'.col.name)
                c == act'.col
            IN \A i \in DOMAIN rows' :
                 IF c.def # NoDef THEN rows'[i][j2] = DefVal(c.def)
                 ELSE IF c.nn THEN rows'[i][j2] = ZeroOfTy(c.ty) ELSE IsN(rows'[i][j2])
       /\ Len(cols') = Len(cols) + (IF act'.op = "AddColumn" THEN 1 ELSE IF act'.op = "DropColumn" THEN -1 ELSE 0)
  /\ (ret' = "ok" /\ act'.op = "Insert") => (Len(rows') = Len(rows) + 1 /\ SubSeq(rows', 1, Len(rows)) = rows /\ UNCHANGED <<tname, cols, pk, idx>>)
DataPreserved == [][DataPreservedStep]_vars

\* ---------------------------------------------------------------- what the engine must report for a state
YN(b) == IF b THEN "YES" ELSE "NO"
\* PRI / UNI / MUL of SHOW COLUMNS (MySQL rules); "*" where MySQL promotes a NOT NULL unique index of a
\* keyless table to PRI (left unjudged)
ColKey(cs, p, ix, c) ==
  LET promoted == p = <<>> /\ \E i \in ix : i.uniq /\ \A x \in Range(i.cols) : cs[PosOf(cs, x)].nn
  IN IF promoted THEN "*"
     ELSE IF c \in Range(p) THEN "PRI"
     ELSE IF \E i \in ix : i.uniq /\ i.cols = <<c>> THEN "UNI"
     ELSE IF \E i \in ix : i.cols[1] = c THEN "MUL"
     ELSE ""
DefText(c) == IF c.def = NoDef THEN "NULL" ELSE IF DefVal(c.def).t = "i" THEN ToString(DefVal(c.def).v) ELSE Chars(DefVal(c.def).v)
ExpCols(cs, p, ix) ==        \* in column order: Field, Type, Null, Key, Default, Collation
  [i \in DOMAIN cs |-> <<cs[i].name, TypeText(cs[i].ty), YN(~cs[i].nn), ColKey(cs, p, ix, cs[i].name), DefText(cs[i]),
                         IF IsIntTy(cs[i].ty) THEN "NULL" ELSE CollName(cs[i].ty.coll)>>]
ExpIdx(p, ix) ==             \* Key_name, Seq_in_index, Column_name, Non_unique
  {<<"PRIMARY", ToString(i), p[i], "0">> : i \in DOMAIN p}
  \cup UNION {{<<x.name, ToString(i), x.cols[i], IF x.uniq THEN "0" ELSE "1">> : i \in DOMAIN x.cols} : x \in ix}
\* equality look-ups through every key's leading column (the values of the first and of the last row that have one)
LeadCols(p, ix) == (IF p = <<>> THEN {} ELSE {p[1]}) \cup {x.cols[1] : x \in ix}
Probes(t, cs, p, ix, rs) ==
  LET lc == SetToSeq({c \in LeadCols(p, ix) : \E i \in DOMAIN rs : ~IsN(rs[i][PosOf(cs, c)])})
      One(c, last) ==
        LET j == PosOf(cs, c)
            nn == {i \in DOMAIN rs : ~IsN(rs[i][j])}
            i0 == IF last THEN CHOOSE i \in nn : \A i2 \in nn : i >= i2 ELSE CHOOSE i \in nn : \A i2 \in nn : i <= i2
            v == rs[i0][j]
            cl == IF cs[j].ty.coll = "ci" THEN "ci" ELSE "bin"
        IN [sql |-> "SELECT * FROM " \o t \o " WHERE " \o c \o " = " \o Lit(v),
            rows |-> SelectSeq(rs, LAMBDA r : ~IsN(r[j]) /\ NormV(r[j], cl) = NormV(v, cl))]
  IN [k \in 1..(2 * Len(lc)) |-> One(lc[(k + 1) \div 2], k % 2 = 0)]
Exp(t, cs, p, ix, rs) ==
  [table |-> t,
   select |-> IF t = "" THEN "" ELSE "SELECT * FROM " \o t \o " ORDER BY " \o JoinS([i \in DOMAIN cs |-> cs[i].name], ", "),
   rows |-> rs, cols |-> ExpCols(cs, p, ix), idx |-> ExpIdx(p, ix), probes |-> Probes(t, cs, p, ix, rs)]

\* ---------------------------------------------------------------- behaviour dump (binding A); primes: post-state
Emit == PrintT("TR " \o ToJson([step |-> step', op |-> act'.op, sql |-> Sql(act'), ret |-> ret', tags |-> Tags(act'),
                                  exp |-> Exp(tname', cols', pk', idx', rows')]))
=============================================================================
