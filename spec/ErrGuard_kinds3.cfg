CONSTANTS
  MaxTasks = 3
  PanicKinds = {"string", "error", "nilmap", "index", "nilptr", "nil", "nilerr", "typednil", "int"}
  Modes = {"group", "inner", "log"}
INIT Init
NEXT Next
INVARIANTS TypeOK WaitOutcome LogOutcome Progress AllFinish
CONSTRAINT Emit
CHECK_DEADLOCK FALSE
