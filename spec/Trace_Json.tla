----------------------------- MODULE Trace_Json -----------------------------
(* C32, binding B.  Every line of c32_trace.ndjson is one group of statements recorded from the real
   engine by harness/cmd/c32 (gen / exec), documents in the encoding of JsonDoc.tla (the engine's
   printed text is re-encoded with the members in the order it printed them).

     ev = "rt":    raw (the generated document: members in generation order, keys may repeat),
                   d1 = the engine's printed form of CAST(text(raw) AS JSON) / of a JSON column holding it,
                   d2 = the printed form of d1's text parsed again.
                   Laws: d1 = Canonical(raw) (last duplicate wins, keys in MySQL's order), d2 = d1.
     ev = "quote": s (code points), u = JSON_UNQUOTE(JSON_QUOTE(s)), j = CAST(JSON_QUOTE(s) AS JSON),
                   nu = internal/strings.Unquote(Quote(s)).   Laws: u = s, j = the string s, nu = s.
     ev = "order": docs (<= 16 documents, integers as the only numbers), lt[i][j] / eq[i][j] = the SQL
                   comparisons CAST(docs[i] AS JSON) < / = CAST(docs[j] AS JSON) ("t" "f" "n" "e").
                   Laws: every reply is TRUE or FALSE; exactly one of a < b, a = b, b < a; = is reflexive
                   and agrees with structural equality; < is transitive (also through =); where the
                   manual fixes the order (Cmp # "any") the replies agree with it.
   A disagreement prints  MM <json>  and validation continues; every line prints  ST <json>. *)
EXTENDS JsonDoc, Json

TraceLog == ndJsonDeserialize("c32_trace.ndjson")

VARIABLE l

MM(i, e, what, tag, exp) ==
    PrintT("MM " \o ToJson([l |-> i, id |-> e.id, ev |-> e.ev, what |-> what, tag |-> tag, exp |-> exp]))
Chk(cond, i, e, what, tag, exp) == IF cond THEN TRUE ELSE MM(i, e, what, tag, exp)

\* ---- features of a document (classification only) ---------------------------------------------------------
RECURSIVE Strings(_)
Strings(d) ==
    IF IsObj(d) THEN UNION {{d.kv[i][1]} \cup Strings(d.kv[i][2]) : i \in 1..Len(d.kv)}
    ELSE IF IsArr(d) THEN UNION {Strings(d.v[i]) : i \in 1..Len(d.v)}
    ELSE IF d.t = "s" THEN {d.v} ELSE {}
RECURSIVE Nums(_)
Nums(d) ==
    IF IsObj(d) THEN UNION {Nums(d.kv[i][2]) : i \in 1..Len(d.kv)}
    ELSE IF IsArr(d) THEN UNION {Nums(d.v[i]) : i \in 1..Len(d.v)}
    ELSE IF d.t = "num" THEN {d.s} ELSE {}
RECURSIVE HasDup(_)
HasDup(d) ==
    IF IsObj(d) THEN \/ \E i, j \in 1..Len(d.kv) : i # j /\ d.kv[i][1] = d.kv[j][1]
                     \/ \E i \in 1..Len(d.kv) : HasDup(d.kv[i][2])
    ELSE IF IsArr(d) THEN \E i \in 1..Len(d.v) : HasDup(d.v[i])
    ELSE FALSE
HasCp(d, P(_)) == \E s \in Strings(d) : \E k \in 1..Len(s) : P(s[k])
IsCtl(c) == c < 32
IsAstral(c) == c >= 65536
IsNonAscii(c) == c >= 128
Features(d) ==
    (IF Nums(d) # {} THEN {"num"} ELSE {}) \cup (IF HasDup(d) THEN {"dup"} ELSE {})
      \cup (IF HasCp(d, IsCtl) THEN {"ctl"} ELSE {}) \cup (IF HasCp(d, IsAstral) THEN {"astral"} ELSE {})
      \cup (IF HasCp(d, IsNonAscii) THEN {"nonascii"} ELSE {})

JRt(i, e) ==
    IF e.d1.t \in {"err", "m"} THEN MM(i, e, "roundtrip-rejected", Features(e.raw), "a document")
    ELSE /\ Chk(WellFormed(e.d1), i, e, "printed-key-order", Features(e.raw), "keys strictly increasing (length, then bytes)")
         /\ Chk(DocEq(e.d1, Canonical(e.raw)), i, e, "printed-differs", Features(e.raw), Canonical(e.raw))
         /\ Chk(DocEq(e.d2, e.d1), i, e, "reparse-differs", Features(e.raw), e.d1)

JQuote(i, e) ==
    LET tag == (IF \E k \in 1..Len(e.s) : IsCtl(e.s[k]) THEN {"ctl"} ELSE {})
               \cup (IF \E k \in 1..Len(e.s) : e.s[k] \in {34, 92} THEN {"quote-or-backslash"} ELSE {})
               \cup (IF \E k \in 1..Len(e.s) : IsNonAscii(e.s[k]) THEN {"nonascii"} ELSE {})
    IN /\ Chk(e.u = e.s, i, e, "unquote-of-quote", tag, e.s)
       /\ Chk(DocEq(e.j, JStr(e.s)), i, e, "quote-is-json-string", tag, e.s)
       /\ Chk(e.nu = e.s, i, e, "native-unquote-of-quote", tag, e.s)

\* ---- the comparison matrix --------------------------------------------------------------------------------
JOrder(i, e) ==
    LET n == Len(e.docs)
        I == 1..n
        Lt(a, b) == e.lt[a][b] = "t"
        Eq(a, b) == e.eq[a][b] = "t"
        bool == \A a, b \in I : e.lt[a][b] \in {"t", "f"} /\ e.eq[a][b] \in {"t", "f"}
        tri == {<<a, b>> \in I \X I :
                  ~( (Lt(a, b) /\ ~Eq(a, b) /\ ~Lt(b, a)) \/ (~Lt(a, b) /\ Eq(a, b) /\ ~Lt(b, a))
                     \/ (~Lt(a, b) /\ ~Eq(a, b) /\ Lt(b, a)) )}
        eqbad == {<<a, b>> \in I \X I : Eq(a, b) # DocEq(e.docs[a], e.docs[b])}
        trans == {<<a, b, c>> \in I \X I \X I :
                    /\ (Lt(a, b) \/ Eq(a, b)) /\ (Lt(b, c) \/ Eq(b, c)) /\ (Lt(a, b) \/ Lt(b, c))
                    /\ ~Lt(a, c)}
        manual == {<<a, b>> \in I \X I :
                     LET c == Cmp(e.docs[a], e.docs[b]) IN
                     c # "any" /\ ~((Lt(a, b) = (c = "lt")) /\ (Eq(a, b) = (c = "eq")))}
        Pair(S) == LET x == CHOOSE y \in S : TRUE IN [q \in 1..Len(x) |-> e.docs[x[q]]]
    IN /\ Chk(bool, i, e, "comparison-not-boolean", "", "TRUE or FALSE")
       /\ (bool =>
             /\ Chk(tri = {}, i, e, "not-trichotomous", "", IF tri = {} THEN <<>> ELSE Pair(tri))
             /\ Chk(eqbad = {}, i, e, "equality-differs-from-structure", "", IF eqbad = {} THEN <<>> ELSE Pair(eqbad))
             /\ Chk(trans = {}, i, e, "not-transitive", "", IF trans = {} THEN <<>> ELSE Pair(trans))
             /\ Chk(manual = {}, i, e, "order-differs-from-manual", "", IF manual = {} THEN <<>> ELSE Pair(manual)))

Judge(i, e) ==
    /\ (CASE e.ev = "rt" -> JRt(i, e)
          [] e.ev = "quote" -> (IF e.ok THEN JQuote(i, e) ELSE MM(i, e, "quote-rejected", "", "a string"))
          [] e.ev = "order" -> JOrder(i, e)
          [] OTHER -> MM(i, e, "unknown-event", "", ""))
    /\ PrintT("ST " \o ToJson([l |-> i, id |-> e.id,
                               nt |-> (CASE e.ev = "rt" -> (IsObj(e.raw) \/ IsArr(e.raw) \/ e.raw.t \in {"s", "num"})
                                         [] e.ev = "quote" -> Len(e.s) > 0
                                         [] OTHER -> TRUE)]))

Init == l = 1
Next == l <= Len(TraceLog) /\ l' = l + 1 /\ Judge(l, TraceLog[l])

HW == TLCSet(1, l)
Accepted == TLCGet(1) = Len(TraceLog) + 1
=============================================================================
