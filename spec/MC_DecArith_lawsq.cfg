CONSTANTS R = 130
          RS = 25
INIT LInit
NEXT LNext
INVARIANT Laws
CHECK_DEADLOCK FALSE
