\* range tree, one column over {NULL, 0, 1, 2}: every reachable set of <= MaxTree stored ranges (BFS) / -simulate
CONSTANTS
  NV = 3
  K = 1
  MaxLen = 0
  Class = "canon"
  MaxTree = 4
  MinRem = 1
INIT InitTree
NEXT NextTree
VIEW ViewTree
INVARIANTS TypeTree TreeDisjoint
ACTION_CONSTRAINT EmitTree
CHECK_DEADLOCK FALSE
