CONSTANTS
  MaxTasks = 3
  PanicKinds = {"string", "nilmap"}
  Modes = {"group", "inner", "log"}
INIT Init
NEXT Next
INVARIANTS TypeOK WaitOutcome LogOutcome Progress AllFinish
CONSTRAINT Emit
CHECK_DEADLOCK FALSE
