INIT Init
NEXT Next
CONSTANTS
  NS = 2
  Mech = "private"
  MaxLog = 2
  Vals = {0, 1}
VIEW View0
CONSTRAINT Bounded
INVARIANTS NoDirtyRead SerialEquivalence
PROPERTIES RollbackRestores CommitPublishes AutocommitEach
CHECK_DEADLOCK FALSE
