--------------------------- MODULE SimilarText ---------------------------
(* C49.  internal/similartext: Find(names, src) / FindFromMap(names, src).

   "When the engine suggests a similar name ..., it suggests a candidate with minimal edit distance
    to the given name within its threshold, and suggests nothing when no candidate qualifies."

   A name is a tuple of one-character strings (TLC cannot index into a string).  Two unit-cost
   edit distances a reader of the property could mean are defined by the textbook recursion:
     DistID   insert 1, delete 1, substitution = delete + insert = 2  (what the package documents)
     DistLev  insert 1, delete 1, substitution 1                      (classic Levenshtein)
   The property is stated over the SET of suggested names; rendering and order are not part of it.

   The module also contains the enumeration machine of binding A (one state per
   (name, candidate list) case) whose Emit constraint prints every case with the sets the
   specification allows.  Trace_SimilarText.tla reuses Admissible for recorded cases (binding B). *)
EXTENDS Integers, Sequences, FiniteSets, TLC, Json

CONSTANTS Alphabet,      \* e.g. {"a", "b"}
          MaxName,       \* longest given name enumerated
          MaxCand,       \* longest candidate enumerated
          MaxCands       \* longest candidate list enumerated

DistanceSkipped == 3     \* similartext.DistanceSkipped: distances >= this are ignored

Min2(a, b) == IF a < b THEN a ELSE b
Min3(a, b, c) == Min2(a, Min2(b, c))
Range(f) == {f[i] : i \in DOMAIN f}

\* ---- the definition: textbook recursion on the two heads ------------------------------------
RECURSIVE DistRec(_, _, _)
DistRec(s, t, sub) ==
    IF s = <<>> THEN Len(t)
    ELSE IF t = <<>> THEN Len(s)
    ELSE Min3(DistRec(Tail(s), t, sub) + 1,                       \* delete Head(s)
              DistRec(s, Tail(t), sub) + 1,                       \* insert Head(t)
              DistRec(Tail(s), Tail(t), sub) + (IF Head(s) = Head(t) THEN 0 ELSE sub))

\* ---- the same function tabulated row by row (the recursion above is exponential in TLC) ------
\* Row(i)[j + 1] = distance between the first i elements of s and the first j elements of t.
\* LemmaTab (checked by TLC on every pair of the enumeration, and on the short pairs of every
\* recorded trace) states DistTab = DistRec.
RECURSIVE Row(_, _, _, _)
Row(s, t, sub, i) ==
    IF i = 0 THEN [k \in 1..Len(t) + 1 |-> k - 1]
    ELSE LET prev == Row(s, t, sub, i - 1)
             RECURSIVE Cells(_)
             Cells(j) == IF j = 0 THEN <<i>>
                         ELSE LET left == Cells(j - 1)
                              IN Append(left, Min3(prev[j + 1] + 1, left[j] + 1,
                                                   prev[j] + (IF s[i] = t[j] THEN 0 ELSE sub)))
         IN Cells(Len(t))
DistTab(s, t, sub) == Row(s, t, sub, Len(s))[Len(t) + 1]

RecLimit == 6            \* up to this total length the definition itself is evaluated
Dist(s, t, sub) == IF Len(s) + Len(t) <= RecLimit THEN DistRec(s, t, sub) ELSE DistTab(s, t, sub)

SubID == 2
SubLev == 1
DistID(s, t) == Dist(s, t, SubID)
DistLev(s, t) == Dist(s, t, SubLev)
Metrics == {SubID, SubLev}

\* ---- the property ---------------------------------------------------------------------------
\* dl is the tuple of the candidates' distances to the given name, in list order.
\* QCof: q = candidates within the threshold, c = those of them at the minimum distance.
DistsOf(sub, nm, cs) == [i \in DOMAIN cs |-> Dist(cs[i], nm, sub)]
QualIdx(dl) == {i \in DOMAIN dl : dl[i] < DistanceSkipped}
ClosestIdx(dl) == {i \in QualIdx(dl) : \A o \in QualIdx(dl) : dl[i] <= dl[o]}
QCof(dl, cs) == [q |-> {cs[i] : i \in QualIdx(dl)}, c |-> {cs[i] : i \in ClosestIdx(dl)}]
QC(sub, nm, cs) == QCof(TLCEval(DistsOf(sub, nm, cs)), cs)
Qualifying(sub, nm, cs) == QC(sub, nm, cs).q
Closest(sub, nm, cs) == QC(sub, nm, cs).c

\* "suggests nothing exactly when nothing qualifies, and only closest candidates" for one metric
OkSets(S, qc) == ((S = {}) <=> (qc.q = {})) /\ S \subseteq qc.c
OkFor(sub, nm, cs, S) == OkSets(S, QC(sub, nm, cs))

\* The verdict of C49 for a suggested set S, given the two metrics' QC records.
AdmissibleGiven(nm, S, qcI, qcL) == \/ nm = <<>> /\ S = {}     \* an empty given name may always
                                    \/ OkSets(S, qcI)          \* be answered with "no suggestion"
                                    \/ OkSets(S, qcL)
Admissible(nm, cs, S) == AdmissibleGiven(nm, S, QC(SubID, nm, cs), QC(SubLev, nm, cs))
AllowedGiven(nm, cs, qcI, qcL) == {S \in SUBSET Range(cs) : AdmissibleGiven(nm, S, qcI, qcL)}
AllowedSets(nm, cs) == AllowedGiven(nm, cs, QC(SubID, nm, cs), QC(SubLev, nm, cs))

\* ---- enumeration machine (binding A) -----------------------------------------------------------
SeqsUpTo(A, n) == UNION {[1..k -> A] : k \in 0..n}
Names == SeqsUpTo(Alphabet, MaxName)
CandNames == SeqsUpTo(Alphabet, MaxCand)
CandLists == SeqsUpTo(CandNames, MaxCands)

\* Every pair of the enumeration domain is evaluated once with the definition (constant-level,
\* forced by TLCEval) instead of once per case.
EnumDist == TLCEval([sub \in Metrics |-> TLCEval([n \in Names |->
                TLCEval([c \in CandNames |-> DistRec(c, n, sub)])])])

\* A state is one input (name, cands) together with dists[sub] = the candidates' distances under
\* metric sub, computed once when the state is built; everything else is derived at state level
\* (TLC caches LET definitions there, not inside actions).
\* The given name is chosen in Init, the candidate list in Next (TLC computes initial states on one
\* thread).  Every "case" state is one input.
VARIABLES name, cands, dists, phase
vars == <<name, cands, dists, phase>>

NoDists == [sub \in Metrics |-> <<>>]
Init == name \in Names /\ cands = <<>> /\ dists = NoDists /\ phase = "name"
Next ==
    /\ phase = "name"
    /\ \E cs \in CandLists :
          /\ cands' = cs
          /\ dists' = [sub \in Metrics |-> [i \in DOMAIN cs |-> EnumDist[sub][name][cs[i]]]]
    /\ phase' = "case"
    /\ name' = name
Spec == Init /\ [][Next]_vars

QCs(sub) == QCof(dists[sub], cands)          \* the state's QC record for one metric
\* non-trivial: the property forbids at least one answer that could be built from the candidates
NonTrivial(qcI, qcL) == \E S \in SUBSET Range(cands) : ~AdmissibleGiven(name, S, qcI, qcL)

\* ---- model-level checks (TLC, every state) -----------------------------------------------------
TypeOK == /\ name \in Names /\ cands \in CandLists /\ phase \in {"name", "case"}
          /\ \A sub \in Metrics : DOMAIN dists[sub] = DOMAIN cands
\* per-pair facts are checked in the single-candidate states (every pair of the domain occurs there)
DistsOK == Len(cands) = 1 => \A sub \in Metrics : dists[sub] = DistsOf(sub, name, cands)
LemmaTab == Len(cands) = 1 => \A c \in Range(cands), sub \in Metrics :
                /\ DistTab(c, name, sub) = DistRec(c, name, sub)
                /\ DistTab(name, c, sub) = DistRec(c, name, sub)          \* symmetric
MetricSane == Len(cands) = 1 => \A c \in Range(cands) :
                /\ (DistRec(c, name, SubID) = 0) <=> (c = name)
                /\ DistRec(c, name, SubLev) <= DistRec(c, name, SubID)
                /\ DistRec(c, name, SubID) <= 2 * DistRec(c, name, SubLev)
                /\ DistRec(c, name, SubLev) >= (IF Len(c) > Len(name) THEN Len(c) - Len(name) ELSE Len(name) - Len(c))
SaneQC(qc) == /\ qc.c \subseteq qc.q
              /\ (qc.c = {}) <=> (qc.q = {})
              /\ OkSets(qc.c, qc)
PropertySane == LET qcI == QCs(SubID) qcL == QCs(SubLev)
                IN /\ SaneQC(qcI) /\ SaneQC(qcL)
                   /\ qcI.q \subseteq qcL.q                       \* DistLev <= DistID
                   /\ AdmissibleGiven(name, qcI.c, qcI, qcL)      \* some answer is always allowed

\* ---- case dump ---------------------------------------------------------------------------------
RECURSIVE Str(_)
Str(s) == IF s = <<>> THEN "" ELSE Head(s) \o Str(Tail(s))
StrSet(S) == {Str(c) : c \in S}
SeqMap(f, Op(_)) == [i \in DOMAIN f |-> Op(f[i])]

CaseRecord ==
    LET qcI == QCs(SubID) qcL == QCs(SubLev)
    IN [name |-> Str(name), cands |-> SeqMap(cands, Str),
        allowed |-> {StrSet(S) : S \in AllowedGiven(name, cands, qcI, qcL)},
        qID |-> StrSet(qcI.q), cID |-> StrSet(qcI.c), qLev |-> StrSet(qcL.q), cLev |-> StrSet(qcL.c),
        nt |-> NonTrivial(qcI, qcL)]

\* A state CONSTRAINT: printed once per case.
Emit == phase = "case" => PrintT("CASE " \o ToJson(CaseRecord))
=============================================================================
