CONSTANTS
  Alphabet = {"a", "b"}
  MaxName = 3
  MaxCand = 3
  MaxCands = 3
INIT Init
NEXT Next
INVARIANTS TypeOK DistsOK LemmaTab MetricSane PropertySane
CONSTRAINT Emit
CHECK_DEADLOCK FALSE
