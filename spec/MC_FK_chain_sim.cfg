INIT Init
NEXT SimNext
CONSTANTS
  Graph = "chain"
  KP = {0, 1}
  KC = {0, 1}
  ActSet = "six"
  PerKey = TRUE
  Toggle = TRUE
CONSTRAINT StepBound
ACTION_CONSTRAINT Emit
CHECK_DEADLOCK FALSE
