CONSTANTS
  Big = TRUE
INIT Init
NEXT Next
INVARIANT ModelOK
CHECK_DEADLOCK FALSE
