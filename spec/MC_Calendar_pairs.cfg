CONSTANT Years = {}
CONSTANT Ops = {"pair"}
INIT EInit
NEXT ENext
INVARIANT CaseOK
ACTION_CONSTRAINT Emit
CHECK_DEADLOCK FALSE
