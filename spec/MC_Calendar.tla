---------------------------- MODULE MC_Calendar ----------------------------
(* C31: (1) sanity of Calendar.tla itself, model-checked over every date of a year range;
        (2) the boundary-heavy case enumeration executed on the engine (binding A).

   (1)  SInit/SNext: one state per valid date of Years; the invariants are the calendar's own
        laws (day numbers are a bijection that advances by one per calendar day, adding then
        subtracting an interval restores the date when no clamping happens, complete-unit
        differences agree with addition, the MySQL manual's examples).
   (2)  EInit/ENext: one state per case; Emit prints  CASE {op, e, ok, tag, nt}  where e is the SQL
        expression (or the literal to INSERT), ok the SET of canonical result strings the
        specification accepts ("NULL", "ERROR" are outcomes), tag the case family and nt whether
        the case is non-trivial (a clamp, a carry across a month/year end, an invalid input, ...).
        Families are selected by the constant Ops; PInit/PNext draw random pairs for the quick tier. *)
EXTENDS Calendar, Json, FiniteSets

CONSTANTS Years,    \* sanity: the years whose every date is checked
          Ops       \* enumeration: subset of {"unary", "add", "time", "pair", "invalid"}

VARIABLES a, c, ph
vars == <<a, c, ph>>

Ns == {1, 11, 12, 13, 48, -1, -11, -12, -13, -48}
SmallNs == {1, 23, 24, 25, 59, 60, 61, -1, -23, -24, -25, -59, -60, -61}

\* ------------------------------------------------------------------------------------------ (1)
DatesOf(y) == {x \in [y : {y}, m : 1..12, d : 1..31] : ValidDate(x)}
YearsQuick == {1, 4, 100, 400, 1900, 2000, 2024, 9999}
YearsThorough == (1..2400) \cup (9600..9999)      \* six complete 400-year eras from year 1, and the last one
YearsAll == 1..9999
SInit == ph = 0 /\ c = "" /\ a \in {D(y, 1, 1) : y \in Years}
SNext == ph = 0 /\ ph' = 1 /\ c' = c /\ a' \in DatesOf(a.y)

RoundTrip == CivilFromDays(DaysFromCivil(a)) = a /\ FromDays(ToDays(a)) = a
Successor == LET b == NextDay(a) IN
             b.y <= MaxYear => /\ ValidDate(b)
                               /\ DaysFromCivil(b) = DaysFromCivil(a) + 1
                               /\ DayOfWeek(b) = (DayOfWeek(a) % 7) + 1
                               /\ WeekDay(b) = (WeekDay(a) + 1) % 7
                               /\ DayOfYear(b) = (IF b.y = a.y THEN DayOfYear(a) + 1 ELSE 1)
Ranges == /\ DayOfYear(a) \in 1..DaysInYear(a.y)
          /\ DayOfWeek(a) \in 1..7 /\ WeekDay(a) = (DayOfWeek(a) + 5) % 7
          /\ LastDay(a).d >= a.d /\ ValidDate(LastDay(a)) /\ NextDay(LastDay(a)).d = 1
AddLaws ==
    \A u \in DateUnits, n \in Ns :
      LET r == AddInterval(a, n, u) IN
      IsDate(r) =>
        /\ ValidDate(r)
        /\ (NoClamp(a, n, u) => /\ AddInterval(r, -n, u) = a
                                /\ TimestampDiff(u, DT(a, 0), DT(r, 0)) = n
                                /\ TimestampDiff(u, DT(r, 0), DT(a, 0)) = -n)
        /\ (~NoClamp(a, n, u) => r = LastDay(r) /\ r.d < a.d)
        /\ (u = "DAY" => DateDiff(r, a) = n /\ DateDiff(a, r) = -n)
        /\ (u = "WEEK" => DateDiff(r, a) = 7 * n)
SecLaws ==
    InWindow(DT(a, 0)) =>
      \A sod \in {0, 45045, 86399}, u \in SecUnits, n \in {1, 25, 61, -1, -25, -61} :
        LET t == DT(a, sod)
            r == AddSeconds(t, n * UnitSecs(u)) IN
        /\ r.sod \in 0..86399 /\ ValidDate(DateOf(r))
        /\ Secs(r) - Secs(t) = n * UnitSecs(u)
        /\ AddSeconds(r, -n * UnitSecs(u)) = t
        /\ TimestampDiff(u, t, r) = n
\* examples of the MySQL reference manual (date-and-time-functions)
Manual ==
    /\ ToDays(D(2007, 10, 7)) = 733321 /\ ToDays(D(1995, 5, 1)) = 728779 /\ FromDays(730669) = D(2000, 7, 3)
    /\ DayOfWeek(D(2007, 2, 3)) = 7 /\ WeekDay(D(2008, 2, 3)) = 6 /\ WeekDay(D(2007, 11, 6)) = 1
    /\ DayOfYear(D(2007, 2, 3)) = 34
    /\ LastDay(D(2003, 2, 5)) = D(2003, 2, 28) /\ LastDay(D(2004, 2, 5)) = D(2004, 2, 29)
    /\ AddInterval(D(2018, 5, 1), 1, "DAY") = D(2018, 5, 2) /\ AddInterval(D(2018, 5, 1), -1, "YEAR") = D(2017, 5, 1)
    /\ AddInterval(D(2009, 1, 30), 1, "MONTH") = D(2009, 2, 28)
    /\ AddSeconds(DT(D(2020, 12, 31), 86399), 1) = DT(D(2021, 1, 1), 0)
    /\ AddSeconds(DT(D(2025, 1, 1), 0), -1) = DT(D(2024, 12, 31), 86399)
    /\ DateDiff(D(2007, 12, 31), D(2007, 12, 30)) = 1 /\ DateDiff(D(2010, 11, 30), D(2010, 12, 31)) = -31
    /\ TimestampDiff("MONTH", DT(D(2003, 2, 1), 0), DT(D(2003, 5, 1), 0)) = 3
    /\ TimestampDiff("YEAR", DT(D(2002, 5, 1), 0), DT(D(2001, 1, 1), 0)) = -1
    /\ TimestampDiff("MINUTE", DT(D(2003, 2, 1), 0), DT(D(2003, 5, 1), 12 * 3600 + 5 * 60 + 55)) = 128885
    /\ ~Valid(2023, 2, 29) /\ Valid(2000, 2, 29) /\ ~Valid(1900, 2, 29) /\ ~Valid(2023, 4, 31)
\* the day-number laws on every date; the (much more expensive) interval laws on the days where a
\* month or year boundary or a clamp can be involved, and on one mid-month day
Heavy == a.d \in {1, 15, 28, 29, 30, 31}
Sanity == ph = 1 => /\ RoundTrip /\ Successor /\ Ranges
                    /\ (Heavy => AddLaws /\ SecLaws)
                    /\ (a.m = 1 /\ a.d = 1 => Manual)

\* ------------------------------------------------------------------------------------------ (2)
GYears == {1, 1000, 1900, 1999, 2000, 2024, 2100, 9999}
GMonths == {1, 2, 3, 4, 12}
GDays == {1, 28, 29, 30, 31}
Grid == {D(y, m, d) : y \in GYears, m \in GMonths, d \in GDays}
ValidGrid == {x \in Grid : ValidDate(x)}
\* plainly impossible dates besides the short-month ones of the grid (no zero parts: those depend on sql_mode)
Wild == {D(2023, 13, 1), D(2023, 1, 32), D(2024, 2, 30), D(2023, 6, 31), D(2023, 9, 31), D(2023, 11, 31)}
Invalids == {x \in Grid : ~ValidDate(x)} \cup Wild

Rejected == {"NULL", "ERROR"}
Q(s) == "'" \o s \o "'"
I2S(n) == ToString(n)
ExpDate(r) == IF IsDate(r) THEN {DateStr(r)} ELSE IF r.y = NullDate.y THEN {"NULL"} ELSE {}
ExpDT(r) == IF IsDate(r) THEN {DTStr(r)} ELSE IF r.y = NullDate.y THEN {"NULL"} ELSE {}
\* dev: renderings that are NOT accepted but are a recorded deviation of the engine (classification of
\* a disagreement only): a DATE / DATETIME value of a year below 1000 printed without zero padding.
DevStr(s) == IF Len(s) >= 10 /\ SubSeq(s, 1, 1) = "0"
             THEN {IF SubSeq(s, 1, 3) = "000" THEN SubSeq(s, 4, Len(s))
                   ELSE IF SubSeq(s, 1, 2) = "00" THEN SubSeq(s, 3, Len(s)) ELSE SubSeq(s, 2, Len(s))}
             ELSE {}
Case(op, e, ok, tag, nt) == [op |-> op, e |-> e, ok |-> ok, tag |-> tag, nt |-> nt,
                             dev |-> UNION {DevStr(s) : s \in ok \ {"NULL", "ERROR"}}]
F1(f, x) == f \o "(" \o Q(DateStr(x)) \o ")"

UnaryCases(x) ==
    { Case("sel", F1("LAST_DAY", x), {DateStr(LastDay(x))}, "last_day", x.m = 2),
      Case("sel", F1("DAYOFWEEK", x), {I2S(DayOfWeek(x))}, "dayofweek", TRUE),
      Case("sel", F1("WEEKDAY", x), {I2S(WeekDay(x))}, "weekday", TRUE),
      Case("sel", F1("DAYOFYEAR", x), {I2S(DayOfYear(x))}, "dayofyear", x.m > 2),
      Case("sel", F1("TO_DAYS", x), {I2S(ToDays(x))}, "to_days", TRUE),
      Case("sel", "FROM_DAYS(" \o I2S(ToDays(x)) \o ")", {DateStr(x)},
           IF x.m = 12 /\ x.d = 30 /\ IsLeap(x.y) THEN "from_days-dec30-leap" ELSE "from_days", TRUE),
      Case("sel", "CAST(" \o Q(DateStr(x)) \o " AS DATE)", {DateStr(x)}, "cast", x.d >= 29),
      Case("sel", "STR_TO_DATE(" \o Q(DateStr(x)) \o ", '%Y-%m-%d')", {DateStr(x)}, "str_to_date", x.d >= 29),
      Case("insert", DateStr(x), {DateStr(x)}, "insert", x.d >= 29),
      Case("sel", "DATE_FORMAT(" \o Q(DateStr(x)) \o ", '%Y|%m|%d|%j|%e|%c')",
           {Pad4(x.y) \o "|" \o Pad2(x.m) \o "|" \o Pad2(x.d) \o "|" \o Pad3(DayOfYear(x)) \o "|" \o I2S(x.d) \o "|" \o I2S(x.m)},
           "date_format", TRUE),
      \* %y: two digits; dev = the engine's recorded deviation (no zero padding below 10)
      [Case("sel", "DATE_FORMAT(" \o Q(DateStr(x)) \o ", '%y')", {Pad2(x.y % 100)}, "date_format-y", x.y % 100 < 10)
         EXCEPT !.dev = IF x.y % 100 < 10 THEN {I2S(x.y % 100)} ELSE {}] }

AddCases(x) ==
    { cs \in
      UNION { { Case("sel", "DATE_ADD(" \o Q(DateStr(x)) \o ", INTERVAL " \o I2S(n) \o " " \o u \o ")",
                     ExpDate(AddInterval(x, n, u)), "date_add-" \o u, ~NoClamp(x, n, u) \/ x.d >= 28 \/ x.d = 1),
                Case("sel", "DATE_SUB(" \o Q(DateStr(x)) \o ", INTERVAL " \o I2S(n) \o " " \o u \o ")",
                     ExpDate(AddInterval(x, -n, u)), "date_sub-" \o u, ~NoClamp(x, -n, u) \/ x.d >= 28 \/ x.d = 1) }
              : n \in Ns, u \in DateUnits }
      : cs.ok # {} }

Sods == {0, 45045, 86399}
TimeCases(x) ==
    IF ~InWindow(DT(x, 0)) THEN {}
    ELSE { cs \in
           UNION { { Case("sel", "DATE_ADD(" \o Q(DTStr(DT(x, sod))) \o ", INTERVAL " \o I2S(n) \o " " \o u \o ")",
                          ExpDT(AddSeconds(DT(x, sod), n * UnitSecs(u))), "date_add-" \o u,
                          DateOf(AddSeconds(DT(x, sod), n * UnitSecs(u))) # x),
                     Case("sel", "DATE_SUB(" \o Q(DTStr(DT(x, sod))) \o ", INTERVAL " \o I2S(n) \o " " \o u \o ")",
                          ExpDT(AddSeconds(DT(x, sod), -n * UnitSecs(u))), "date_sub-" \o u,
                          DateOf(AddSeconds(DT(x, sod), -n * UnitSecs(u))) # x) }
                   : sod \in Sods, n \in SmallNs, u \in SecUnits }
             \cup { Case("sel", "DATE_ADD(" \o Q(DateStr(x)) \o ", INTERVAL " \o I2S(n) \o " " \o u \o ")",
                         ExpDT(AddSeconds(DT(x, 0), n * UnitSecs(u))), "date_add-" \o u \o "-dateonly", n < 0)
                    : n \in SmallNs, u \in SecUnits }
           : cs.ok # {} }

\* DATEDIFF's tag says whether the span exceeds 106751 days; dev then lists the engine's recorded
\* deviation (saturation at +-106752, findings) so that exactly this wrong value is classified as known
PairCases(x, y) ==
    { [Case("sel", "DATEDIFF(" \o Q(DateStr(x)) \o ", " \o Q(DateStr(y)) \o ")", {I2S(DateDiff(x, y))},
            IF Abs(DateDiff(x, y)) > 106751 THEN "datediff-far" ELSE "datediff", x.m # y.m \/ x.y # y.y)
         EXCEPT !.dev = IF DateDiff(x, y) > 106751 THEN {"106752"} ELSE IF DateDiff(x, y) < -106751 THEN {"-106752"} ELSE {}] }
    \cup { Case("sel", "TIMESTAMPDIFF(" \o u \o ", " \o Q(DateStr(x)) \o ", " \o Q(DateStr(y)) \o ")",
                {I2S(TimestampDiff(u, DT(x, 0), DT(y, 0)))}, "timestampdiff-" \o u, x # y)
           : u \in DateUnits }

\* TIMESTAMPDIFF with times of day: the other value is k whole months away (same day of the month), so
\* the time of day decides whether the last month / year / day is complete.  The tag says whether only
\* the minutes differ within the same hour (the engine's recorded defect, findings).
DiffTimes == {37800, 36600, 37830, 35999}          \* 10:30:00  10:10:00  10:30:30  09:59:59
TsTimeCases(x) ==
    UNION { { Case("sel", "TIMESTAMPDIFF(" \o u \o ", " \o Q(DTStr(DT(x, t1))) \o ", " \o Q(DTStr(DT(AddMonths(x, k), t2))) \o ")",
                   {I2S(TimestampDiff(u, DT(x, t1), DT(AddMonths(x, k), t2)))},
                   "timestampdiff-time-" \o u \o (IF t1 \div 3600 = t2 \div 3600 /\ t1 \div 60 # t2 \div 60 THEN "-samehour" ELSE ""),
                   t1 # t2)
              : u \in {"MONTH", "YEAR", "DAY"} }
            : k \in {k \in {1, -12} : IsDate(AddMonths(x, k)) /\ NoClamp(x, k, "MONTH")}, t1 \in DiffTimes, t2 \in DiffTimes }

Anchor == D(2000, 1, 1)
InvalidCases(x) ==
    LET s == Q(DateStr(x)) IN
    { Case("sel", "CAST(" \o s \o " AS DATE)", Rejected, "cast-invalid", TRUE),
      Case("sel", "CAST(" \o Q(DateStr(x) \o " 10:00:00") \o " AS DATETIME)", Rejected, "castdt-invalid", TRUE),
      Case("sel", "DATE(" \o s \o ")", Rejected, "date-invalid", TRUE),
      Case("sel", "STR_TO_DATE(" \o s \o ", '%Y-%m-%d')", Rejected, "str_to_date-invalid", TRUE),
      Case("insert", DateStr(x), Rejected, "insert-invalid", TRUE),
      Case("sel", "DATE_ADD(" \o s \o ", INTERVAL 1 DAY)", Rejected, "date_add-invalid", TRUE),
      Case("sel", "DATE_SUB(" \o s \o ", INTERVAL 1 MONTH)", Rejected, "date_sub-invalid", TRUE),
      Case("sel", "DATEDIFF(" \o s \o ", " \o Q(DateStr(Anchor)) \o ")", Rejected, "datediff-invalid", TRUE),
      Case("sel", "DATEDIFF(" \o Q(DateStr(Anchor)) \o ", " \o s \o ")", Rejected, "datediff-invalid", TRUE),
      Case("sel", "TIMESTAMPDIFF(DAY, " \o s \o ", " \o Q(DateStr(Anchor)) \o ")", Rejected, "timestampdiff-invalid", TRUE),
      Case("sel", "LAST_DAY(" \o s \o ")", Rejected, "last_day-invalid", TRUE),
      Case("sel", "DAYOFWEEK(" \o s \o ")", Rejected, "dayofweek-invalid", TRUE),
      Case("sel", "DAYOFYEAR(" \o s \o ")", Rejected, "dayofyear-invalid", TRUE),
      Case("sel", "WEEKDAY(" \o s \o ")", Rejected, "weekday-invalid", TRUE),
      Case("sel", "TO_DAYS(" \o s \o ")", Rejected, "to_days-invalid", TRUE) }

CasesFor(x) ==
    IF ValidDate(x)
    THEN (IF "unary" \in Ops THEN UnaryCases(x) ELSE {})
         \cup (IF "add" \in Ops THEN AddCases(x) ELSE {})
         \cup (IF "time" \in Ops THEN TimeCases(x) \cup TsTimeCases(x) ELSE {})
         \cup (IF "pair" \in Ops THEN UNION {PairCases(x, y) : y \in ValidGrid} ELSE {})
    ELSE (IF "invalid" \in Ops THEN InvalidCases(x) ELSE {})

NoCase == [op |-> "none", e |-> "", ok |-> {}, tag |-> "", nt |-> FALSE, dev |-> {}]
EInit == ph = 0 /\ c = NoCase /\ a \in Grid \cup Wild
ENext == ph = 0 /\ ph' = 1 /\ a' = a /\ c' \in CasesFor(a)
\* quick tier: random pairs (one pair per behaviour)
PInit == ph = 0 /\ c = NoCase /\ a = RandomElement(ValidGrid)
PNext == ph = 0 /\ ph' = 1 /\ a' = a /\ c' \in PairCases(a, RandomElement(ValidGrid))

Emit == PrintT("CASE " \o ToJson(c'))
CaseOK == ph = 1 => c.ok # {} /\ c.e # ""
=============================================================================
