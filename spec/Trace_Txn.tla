----------------------------- MODULE Trace_Txn -----------------------------
(* C17, binding B: validates multi-session histories recorded by harness/cmd/dml2 -prop c17 against
   SQLSession.  trace.ndjson lines:
     {"ev":"schema","h":n,"tabs":{..},"autoinc":{..},"nsess":k,"overlap":b}      a fresh engine, k sessions
     {"ev":"step","id":n,"s":x,"op":"stmt|begin|start|commit|rollback|ac|ddl|bad","val":v,"stmt":<AST>,
      "reply":{kind,class,..},"views":[{"s":y,"tabs":{<t>:[rows]}}..],"hook":[{"name":..,"s":..}..]}
          session x executed the statement; views = what session y sees (SELECT * of every table)
          afterwards, for the sessions the driver read; hook = the memory session's transaction events

   STRICT judgement (as long as no two transactions of different sessions have overlapped in time,
   which the specification decides itself from the steps): the specification state `ss` follows
   SQLSession exactly; every logged view must be the view SQLSession prescribes (bags of
   collation-normalised rows) for some outcome SQLTables allows for the statement, i.e. ROLLBACK
   discards exactly the transaction's changes, COMMIT / autocommit / implicit commits publish them,
   nobody sees uncommitted changes and the committed state is the serial result.
   WEAK judgement (after an overlap): only
     own   the acting session's view of the table it modified is an allowed outcome of its statement
           applied to the view it had before (its own writes are visible), and
     vis   a view may only CHANGE to a version some session has committed (NoDirtyRead); a version
           counts as committed when its session committed it (whole tables, see SQLSession).
   A disagreement prints `MT <json>` with what = list of
     "kind"  no allowed outcome has this reply kind / error class
     "own"   the acting session's own view is not an allowed one
     "vis"   another session's view is not the prescribed one (strict) / changed to a version nobody
             committed (weak)
     "hook"  COMMIT / ROLLBACK of an open transaction, or a successful autocommit statement, without
             the CommitTransaction / Rollback event of that session
   and the state is resynchronised to the logged views.                                          *)
EXTENDS SQLSession, Json

TraceLog == ndJsonDeserialize("trace.ndjson")

VARIABLES l, ss, pv, hist, fresh, ovl
vars == <<l, ss, pv, hist, fresh, ovl>>

Dummy == Init0([tabs |-> <<>>, autoinc |-> <<>>, lastid |-> 0], {})
Init == l = 1 /\ ss = Dummy /\ pv = <<>> /\ hist = <<>> /\ fresh = {} /\ ovl = FALSE

Tabs == DOMAIN ss.com.tabs
Sessions == DOMAIN ss.open
TabOf(t) == ss.com.tabs[t]

ViewOf(e, y) == LET i == CHOOSE j \in DOMAIN e.views : e.views[j].s = y IN e.views[i].tabs
Observed(e) == {e.views[j].s : j \in DOMAIN e.views}
SameBag(t, a, b) == BagEqRows(a, b, CollsOf(TabOf(t)))

HasHook(e, name) == \E j \in DOMAIN e.hook : e.hook[j].name = name /\ e.hook[j].s = e.s

\* ---------------------------------------------------------------- candidates of one step (strict)
AutoVals(Tb, rows) == LET ac == AutoCol(Tb) IN
                      IF ac = 0 THEN {} ELSE {rows[i][ac].v : i \in {j \in DOMAIN rows : rows[j][ac].t = "i"}}

ReplyOK(e, o) == o.reply.kind = e.reply.kind /\ (e.reply.kind = "err" => o.reply.class = e.reply.class)
CtlOK(e) == e.reply.kind = "ok"

Cands(e) ==
  LET x == e.s IN
  CASE e.op = "stmt" -> {[ns |-> StmtS(ss, x, e.stmt, o), ok |-> ReplyOK(e, o)] :
                            o \in StmtOutcomes(ss, x, e.stmt, IF x \in Observed(e) THEN AutoVals(TabOf(e.stmt.t), ViewOf(e, x)[e.stmt.t]) ELSE {})}
    [] e.op = "ddl" -> {[ns |-> DdlS(ss, x, e.stmt, o), ok |-> ReplyOK(e, o)] : o \in DdlOutcomes(ss, x, e.stmt)}
    [] e.op \in {"begin", "start"} -> {[ns |-> BeginS(ss, x), ok |-> CtlOK(e)]}
    [] e.op = "commit" -> {[ns |-> CommitS(ss, x), ok |-> CtlOK(e)]}
    [] e.op = "rollback" -> {[ns |-> RollbackS(ss, x), ok |-> CtlOK(e)]}
    [] e.op = "ac" -> {[ns |-> SetAcS(ss, x, e.val = 1), ok |-> CtlOK(e)]}
    \* a statement that fails before it executes: an error, nothing changes (an open transaction stays open)
    [] e.op = "bad" -> {[ns |-> ss, ok |-> e.reply.kind = "err"]}

ViewsOK(e, ns, Y) == \A y \in Y : \A t \in Tabs : SameBag(t, ViewOf(e, y)[t], Visible(ns, y, t))

\* the commit / rollback events the step must show
CommitsNow(e) ==
  LET x == e.s IN
  \/ (e.op \in {"commit", "begin", "start"} /\ ss.open[x])
  \/ (e.op = "stmt" /\ ss.ac[x] /\ ~ss.expl[x] /\ e.reply.kind = "ok")
  \/ e.op = "ddl"
  \/ (e.op = "ac" /\ e.val = 1 /\ ~ss.ac[x] /\ ss.open[x])
HookWhat(e) ==
  IF (CommitsNow(e) /\ e.op # "ddl" /\ ~HasHook(e, "CommitTransaction")) \/ (e.op = "rollback" /\ ss.open[e.s] /\ ~HasHook(e, "Rollback"))
  THEN <<"hook">> ELSE <<>>

\* resynchronisation: the logged views overwrite the rows of the state the rest is judged from
Resync(e, ns) ==
  LET x == e.s
      plain == {y \in Observed(e) : ~ns.open[y]}
      c1 == IF plain = {} THEN ns.com
            ELSE LET y == CHOOSE z \in plain : TRUE IN
                 [ns.com EXCEPT !.tabs = [t \in Tabs |-> [ns.com.tabs[t] EXCEPT !.rows = ViewOf(e, y)[t]]]]
      w1 == [y \in Sessions |->
               IF y \in Observed(e) /\ ns.open[y]
               THEN [t \in DOMAIN ns.work[y] |-> [ns.work[y][t] EXCEPT !.rows = ViewOf(e, y)[t]]]
               ELSE ns.work[y]]
  IN [ns EXCEPT !.com = c1, !.work = w1]

\* reading opens a transaction under autocommit = 0
AfterReads(e, ns) ==
  LET opened == {y \in Observed(e) : ~ns.ac[y] /\ ~ns.open[y]} IN
  [ns EXCEPT !.open = [y \in Sessions |-> ns.open[y] \/ y \in opened]]

NewPV(e) == [y \in Sessions |-> IF y \in Observed(e) THEN ViewOf(e, y) ELSE pv[y]]
\* the versions a committing step publishes: the acting session's view; when that view was not read,
\* the (changed) views of the sessions in plain autocommit mode stand for it
NewHist(e, commits) ==
  [t \in Tabs |-> hist[t] \cup (IF ~commits THEN {}
                                ELSE IF e.s \in Observed(e) THEN {CanonBag(TabOf(t), ViewOf(e, e.s)[t])}
                                ELSE {CanonBag(TabOf(t), ViewOf(e, y)[t]) : y \in Observed(e)})]

Report(e, what, mode, exp) ==
  IF what = <<>> THEN TRUE
  ELSE PrintT("MT " \o ToJson([l |-> l, id |-> e.id, s |-> e.s, op |-> e.op, what |-> what, mode |-> mode, exp |-> exp]))

StrictStep(e) ==
  LET x == e.s
      cs == Cands(e)
      L1 == {c \in cs : c.ok}
      L2 == {c \in L1 : ViewsOK(e, c.ns, Observed(e) \cap {x})}
      L3 == {c \in L2 : ViewsOK(e, c.ns, Observed(e))}
      best == IF L3 # {} THEN L3 ELSE IF L2 # {} THEN L2 ELSE IF L1 # {} THEN L1 ELSE cs
      pick == (CHOOSE c \in best : TRUE).ns
      what == (IF L1 = {} THEN <<"kind">> ELSE IF L2 = {} THEN <<"own">> ELSE IF L3 = {} THEN <<"vis">> ELSE <<>>) \o HookWhat(e)
      exp == [y \in {z \in Observed(e) : ~ViewsOK(e, pick, {z})} |-> [t \in Tabs |-> Visible(pick, y, t)]]
  IN /\ Report(e, what, "strict", [views |-> exp, kinds |-> {c.ok : c \in cs}])
     /\ ss' = AfterReads(e, Resync(e, pick))

\* weak mode: only the transaction flags of ss are maintained
FlagsOnly(e) ==
  LET x == e.s
      ns == CASE e.op = "stmt" -> (IF ss.ac[x] /\ ~ss.expl[x] THEN ss ELSE [ss EXCEPT !.open[x] = TRUE])
              [] e.op = "ddl" -> EndTxn(ss, x)
              [] e.op \in {"begin", "start"} -> [ss EXCEPT !.open[x] = TRUE, !.expl[x] = TRUE]
              [] e.op \in {"commit", "rollback"} -> EndTxn(ss, x)
              [] e.op = "bad" -> ss
              [] e.op = "ac" -> (IF e.val = 1 /\ ~ss.ac[x] THEN [EndTxn(ss, x) EXCEPT !.ac[x] = TRUE] ELSE [ss EXCEPT !.ac[x] = (e.val = 1)])
  IN [ns EXCEPT !.work = [y \in Sessions |-> EmptyF]]

WeakStep(e) ==
  LET x == e.s
      commits == CommitsNow(e)
      h2 == NewHist(e, commits)
      \* own writes: the statement applied to the view the session had
      pre == [ss.com EXCEPT !.tabs = [t \in Tabs |-> [ss.com.tabs[t] EXCEPT !.rows = pv[x][t]]]]
      ownJudged == e.op = "stmt" /\ x \in fresh /\ x \in Observed(e)
      outs == IF ownJudged THEN Outcomes(pre, e.stmt, AutoVals(TabOf(e.stmt.t), ViewOf(e, x)[e.stmt.t])) ELSE {}
      L1 == {o \in outs : ReplyOK(e, o)}
      L2 == {o \in L1 : SameBag(e.stmt.t, ViewOf(e, x)[e.stmt.t], o.rows)}
      \* NoDirtyRead: a view only changes to a committed version (the acting session's modified table aside)
      badvis == {<<y, t>> \in Observed(e) \X Tabs :
                   /\ ~(y = x /\ e.op = "stmt" /\ t = e.stmt.t)
                   /\ ~SameBag(t, ViewOf(e, y)[t], pv[y][t])
                   /\ CanonBag(TabOf(t), ViewOf(e, y)[t]) \notin h2[t]}
      what == (IF ownJudged /\ L1 = {} THEN <<"kind">> ELSE IF ownJudged /\ L2 = {} THEN <<"own">> ELSE <<>>)
              \o (IF badvis # {} THEN <<"vis">> ELSE <<>>) \o HookWhat(e)
  IN /\ Report(e, what, "weak", [badvis |-> badvis, allowed |-> {o.reply.kind : o \in outs}])
     /\ ss' = AfterReads(e, FlagsOnly(e))
     /\ hist' = h2

Next ==
  /\ l <= Len(TraceLog)
  /\ l' = l + 1
  /\ LET e == TraceLog[l] IN
     IF e.ev = "schema" THEN
        LET SS == 1..e.nsess
            st0 == [tabs |-> e.tabs, autoinc |-> e.autoinc, lastid |-> 0] IN
        /\ ss' = Init0(st0, SS)
        /\ pv' = [y \in SS |-> [t \in DOMAIN e.tabs |-> e.tabs[t].rows]]
        /\ hist' = [t \in DOMAIN e.tabs |-> {CanonBag(e.tabs[t], e.tabs[t].rows)}]
        /\ fresh' = SS
        /\ ovl' = FALSE
     ELSE IF e.ev = "step" THEN
        LET o2 == ovl \/ OthersOpen(ss, e.s) IN
        /\ ovl' = o2
        /\ (IF o2 THEN WeakStep(e)
            ELSE StrictStep(e) /\ hist' = NewHist(e, CommitsNow(e)))
        /\ pv' = NewPV(e)
        /\ fresh' = Observed(e)
     ELSE UNCHANGED <<ss, pv, hist, fresh, ovl>>

HW == TLCSet(1, l)
Accepted == TLCGet(1) = Len(TraceLog) + 1
=============================================================================
