CONSTANTS
  Big = FALSE
INIT PInit
NEXT PNext
INVARIANT Injective
CHECK_DEADLOCK FALSE
