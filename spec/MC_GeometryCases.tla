--------------------------- MODULE MC_GeometryCases ---------------------------
(* C52, case generator (`-simulate`, SInit/SNext): one vector of random numbers rv is drawn in the
   step and everything else is a deterministic function of it (so no random draw is ever evaluated
   twice): a random geometry of every kind (nested collections to depth 2) with an SRID and the texts
   every SQL function must return (Geometry!Expect), and a spatial-index case: a table of points /
   rectangles with queries and the ids the predicate selects.  Emit prints them. *)
EXTENDS Geometry, Json

Mod(x, y) == x - (x \div y) * y
Cs == <<0, 1, 2, 5>>
CoordSet == {Cs[i] : i \in DOMAIN Cs}

\* ---- sampling ---------------------------------------------------------------------------------
NRV == 320
VARIABLES rv, sphase
svars == <<rv, sphase>>

\* coordinates used in samples: the small set, a negative value and the bound of the claim;
\* latitude / longitude of SRID 4326 stay inside their legal ranges
CoordsFor(srid) == IF srid = 4326 THEN <<0, 1, 2, 5, -7, 80>> ELSE <<0, 1, 2, 5, -7, 1000>>
Pick(s, r) == s[Mod(r, Len(s)) + 1]
\* the pair at slot i
PairAt(v, i, srid) == <<Pick(CoordsFor(srid), v[i]), Pick(CoordsFor(srid), v[i + 1])>>
PairsAt(v, i, n, srid) == [j \in 1..n |-> PairAt(v, i + 2 * (j - 1), srid)]
RingAt(v, i, n, srid) == LET ps == PairsAt(v, i, n, srid) IN Append(ps, ps[1])

\* a non-collection geometry from <= 24 slots starting at i; kind in 1..6
Simple(v, i, kind, srid) ==
    CASE kind = 1 -> Pt(PairAt(v, i, srid))
      [] kind = 2 -> (IF Mod(v[i], 4) = 0 THEN Ls(RingAt(v, i + 1, 3, srid))                      \* a closed line now and then
                      ELSE Ls(PairsAt(v, i + 1, 2 + Mod(v[i], 3), srid)))
      [] kind = 3 -> (IF Mod(v[i], 2) = 0 THEN Pg(<< RingAt(v, i + 1, 3 + Mod(v[i + 1], 2), srid) >>)
                      ELSE Pg(<< RingAt(v, i + 1, 4, srid), RingAt(v, i + 10, 3, srid) >>))
      [] kind = 4 -> MPt(PairsAt(v, i + 1, 1 + Mod(v[i], 3), srid))
      [] kind = 5 -> (IF Mod(v[i], 2) = 0 THEN MLs(<< PairsAt(v, i + 1, 2, srid) >>)
                      ELSE MLs(<< PairsAt(v, i + 1, 3, srid), RingAt(v, i + 8, 3, srid) >>))
      [] OTHER -> (IF Mod(v[i], 2) = 0 THEN MPg(<< << RingAt(v, i + 1, 3, srid) >> >>)
                   ELSE MPg(<< << RingAt(v, i + 1, 3, srid) >>, << RingAt(v, i + 8, 4, srid), RingAt(v, i + 17, 3, srid) >> >>))

\* a collection from slots starting at i: 0..3 members, each a simple geometry or (depth > 0) a collection
RECURSIVE Coll(_, _, _, _)
Coll(v, i, depth, srid) ==
    LET n == Mod(v[i], 4)
        member(j) == LET k == 1 + Mod(v[i + j], 7)
                         base == i + 4 + (j - 1) * (IF depth > 0 THEN 80 ELSE 25)
                     IN IF k = 7 THEN (IF depth > 0 THEN Coll(v, base, depth - 1, srid) ELSE GC(<<>>))
                        ELSE Simple(v, base, k, srid)
    IN GC([j \in 1..n |-> member(j)])

Srids == <<0, 3857, 4326>>
SampleSrid(v) == Pick(Srids, v[1])
SampleGeom(v) ==
    LET k == 1 + Mod(v[2], 8) IN
    IF k >= 7 THEN Coll(v, 3, 1, SampleSrid(v)) ELSE Simple(v, 3, k, SampleSrid(v))

\* ---- the spatial-index case: rows (points, and rectangles when mixed) and queries, SRID 0, coordinates {0,1,2,5}
Greater(x) == SelectSeq(Cs, LAMBDA u : u > x)
RectAt(v, i) ==
    LET x == Pick(<<0, 1, 2>>, v[i])
        y == Pick(<<0, 1, 2>>, v[i + 1])
    IN [x1 |-> x, y1 |-> y, x2 |-> Pick(Greater(x), v[i + 2]), y2 |-> Pick(Greater(y), v[i + 3])]
ShapeAt(v, i, mixed) ==
    IF mixed /\ Mod(v[i], 3) = 0 THEN [k |-> "r", r |-> RectAt(v, i + 1)]
    ELSE [k |-> "p", c |-> <<Pick(Cs, v[i + 1]), Pick(Cs, v[i + 2])>>]

IdxBase == 250
IdxMixed(v) == Mod(v[IdxBase], 2) = 0
IdxRows(v) == LET n == 4 + Mod(v[IdxBase + 1], 5) IN [j \in 1..n |-> ShapeAt(v, IdxBase + 2 + 5 * (j - 1), IdxMixed(v))]
\* queries: rectangles mostly, a point sometimes; within only over point tables
IdxQuery(v, j) ==
    LET i == IdxBase + 44 + 5 * (j - 1)
        q == IF Mod(v[i], 5) = 0 THEN [k |-> "p", c |-> <<Pick(Cs, v[i + 1]), Pick(Cs, v[i + 2])>>]
             ELSE [k |-> "r", r |-> RectAt(v, i + 1)]
        pred == IF ~IdxMixed(v) /\ Mod(j, 2) = 0 THEN "within" ELSE "intersects"
        rows == IdxRows(v)
    IN [pred |-> pred, wkt |-> WKT(ShapeGeom(q)),
        exp |-> {k \in DOMAIN rows : IF pred = "within" THEN Within(rows[k], q) ELSE Intersects(rows[k], q)},
        \* classification only: the expected ids without the rectangle pairs that merely cross (CrossOnly)
        expweak |-> {k \in DOMAIN rows : (IF pred = "within" THEN Within(rows[k], q) ELSE Intersects(rows[k], q))
                                          /\ ~(rows[k].k = "r" /\ q.k = "r" /\ CrossOnly(rows[k].r, q.r))}]
IdxCase(v) == [mixed |-> IdxMixed(v),
               rows |-> [k \in DOMAIN IdxRows(v) |-> [id |-> k, wkt |-> WKT(ShapeGeom(IdxRows(v)[k]))]],
               qs |-> [j \in 1..3 |-> IdxQuery(v, j)]]

SInit == sphase = 0 /\ rv = <<>>
SNext == /\ sphase = 0
         /\ sphase' = 1
         /\ rv' = [i \in 1..NRV |-> RandomElement(0..9999)]
SValid == sphase = 1 => Valid(SampleGeom(rv))

Emit == PrintT("CASE " \o ToJson([srid |-> SampleSrid(rv'), wkt |-> WKT(SampleGeom(rv')), kind |-> SampleGeom(rv').t, tags |-> Tags(SampleGeom(rv')),
                                  exp |-> Expect(SampleGeom(rv'), SampleSrid(rv')), idx |-> IdxCase(rv')]))
=============================================================================
