CONSTANT Family = "cast"
INIT CInit
NEXT CNext
INVARIANT CasesOK
ACTION_CONSTRAINT Emit
CHECK_DEADLOCK FALSE
