INIT Init
NEXT Next
CONSTRAINT HW
POSTCONDITION Accepted
CHECK_DEADLOCK FALSE
