------------------------------ MODULE Recreate ------------------------------
(* C22.  SHOW CREATE output recreates an identical object.

   State: the observable projection of ONE schema object (table, view, trigger, procedure) --
     live   does the object exist
     obs    [text  : the statement SHOW CREATE prints for it,
             proj  : its catalog projection: a record  information_schema table name -> rows (tuples of
                     strings; record shapes as in Catalog.tla: COLUMNS, STATISTICS, TABLE_CONSTRAINTS,
                     KEY_COLUMN_USAGE, REFERENTIAL_CONSTRAINTS, CHECK_CONSTRAINTS, VIEWS, TRIGGERS, ROUTINES ...),
             probe : the replies of a fixed sequence of DML probe statements (behaviour)]
   Actions:
     Create(o)            a CREATE statement brings an object with observation o into being
     Recreate(acc, new)   DROP the object and execute obs.text in a fresh database; `acc` = the engine
                          accepted the statement it printed itself, `new` = the observation afterwards.
                          ALLOWED only as a STUTTERING step:  acc /\ new = obs  (text' = text: the printed
                          statement is a fixpoint; proj' = proj; probe' = probe).
     Drop
   The action property Fixpoint says that while the object lives nothing observable ever changes; TLC
   checks it on a small universe of observations, and Trace_Recreate checks every recorded re-creation
   of the real engine against Recreate (binding B), naming the components that differ (Diff). *)
EXTENDS Integers, Sequences, FiniteSets, TLC

CONSTANTS Universe        \* the observations a model run may create (any finite set of [text, proj, probe] records)

VARIABLES live, obs
vars == <<live, obs>>

None == [text |-> "", proj |-> [x \in {} |-> <<>>], probe |-> <<>>]

SeqRange(s) == {s[i] : i \in DOMAIN s}

\* ---------------------------------------------------------------- the three equalities of the property
TextSame(a, b) == a.text = b.text
\* catalog projections are compared table by table as SETS of rows
ProjTables(a, b) == (DOMAIN a.proj) \cup (DOMAIN b.proj)
ProjRows(o, w) == IF w \in DOMAIN o.proj THEN SeqRange(o.proj[w]) ELSE {}
ProjSameAt(a, b, w) == ProjRows(a, w) = ProjRows(b, w)
ProjSame(a, b) == \A w \in ProjTables(a, b) : ProjSameAt(a, b, w)
ProbeDiffs(a, b) == IF Len(a.probe) # Len(b.probe) THEN {0}
                    ELSE {i \in DOMAIN a.probe : a.probe[i] # b.probe[i]}
ProbeSame(a, b) == ProbeDiffs(a, b) = {}
SameObs(a, b) == TextSame(a, b) /\ ProjSame(a, b) /\ ProbeSame(a, b)

\* what differs (for the report of a rejected step)
RECURSIVE SetToSeqR(_)
SetToSeqR(Sx) == IF Sx = {} THEN <<>> ELSE LET x == CHOOSE y \in Sx : TRUE IN <<x>> \o SetToSeqR(Sx \ {x})
Diff(acc, old, new) ==
  IF ~acc THEN <<"rejected">>
  ELSE (IF TextSame(old, new) THEN <<>> ELSE <<"text">>)
       \o SetToSeqR({"proj:" \o w : w \in {x \in ProjTables(old, new) : ~ProjSameAt(old, new, x)}})
       \o (IF ProbeSame(old, new) THEN <<>> ELSE <<"probe">>)

\* ---------------------------------------------------------------- actions
Init == live = FALSE /\ obs = None
Create(o) == ~live /\ live' = TRUE /\ obs' = o
Recreate(acc, new) == live /\ acc /\ SameObs(obs, new) /\ live' = TRUE /\ obs' = new
Drop == live /\ live' = FALSE /\ obs' = None

Next == (\E o \in Universe : Create(o)) \/ (\E o \in Universe : Recreate(TRUE, o)) \/ Drop
Spec == Init /\ [][Next]_vars

\* ---------------------------------------------------------------- properties (model-checked)
TypeOK == live \in BOOLEAN /\ (~live => obs = None) /\ (live => obs \in Universe)
\* the printed statement is a fixpoint and re-creation is a stuttering step of everything observable
Fixpoint == [][(live /\ live') => (obs'.text = obs.text /\ ProjSame(obs, obs') /\ ProbeSame(obs, obs'))]_vars
\* Diff is empty exactly for the allowed re-creations (the judge used by Trace_Recreate is the action's guard)
DiffMatchesGuard == \A a, b \in Universe : \A acc \in BOOLEAN : (Diff(acc, a, b) = <<>>) <=> (acc /\ SameObs(a, b))
=============================================================================
