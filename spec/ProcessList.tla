--------------------------- MODULE ProcessList ---------------------------
(* C37.  /repo/processlist.go  (type sqle.ProcessList).

   One action per ProcessList method, written AS CODED (every method runs under pl.mu, so a method
   is one atomic step):  AddConnection, ConnectionReady, BeginQuery, EndQuery, BeginOperation,
   EndOperation, Kill, RemoveConnection.

   As-coded state
     procs[c]   None or [cmd, pid, tok]: Process.Command, Process.QueryPid and the identity of the
                context whose cancel func is stored in Process.Kill (tok = 0: Kill == nil)
     byPid[p]   pl.byQueryPid (0 = no entry)
     ntok       number of contexts issued so far; a TOKEN k is the k-th context returned by a
                successful BeginQuery / BeginOperation
     cancelled  tokens whose context is cancelled (ctx.Err() # nil)
     tconn/trun the status variables Threads_connected / Threads_running

   GROUND TRUTH (ghost; what the server/handler knows, against which list and counters are judged)
     live       connections the server considers connected (AddConn .. RemoveConn)
     running    queries begun (successful BeginQuery) and not yet ended, as [c, pid, tok]
     stale      the members of `running` whose connection was removed after they began (their
                handler's deferred EndQuery has not run yet)
     ops        operations begun and not yet ended, as [c, tok]
     errs       number of error-returning BeginQuery calls (only to bound the state space)

   Environment discipline (server/handler.go, server/context.go):
     * a connection executes one command at a time: BeginQuery needs no query/operation in flight
       on the connection's current incarnation; ConnectionReady is never called during a query
       (it IS called during an operation: SessionManager.SetDB);
     * EndQuery comes for every successfully begun query, possibly after RemoveConnection, and may
       be repeated for a query that has already ended (the server does: tracked iterator + handler);
     * a query pid is fresh w.r.t. every query still running -- or it collides with a pid that is
       registered in the list, which is the coded ErrPidAlreadyUsed return;
     * BeginQuery on a connection that is not registered is the coded "not registered" return;
     * connection ids may be reused after RemoveConnection once the old incarnation's operations
       have ended (its query may still be pending: the `QueryPid == pid` test of EndQuery exists for
       exactly this).

   `act`, `ret`, `hist` are output-only (hidden by View); hist is the history that led to the state,
   so every dumped transition is a self-contained case for the replayer. *)
EXTENDS Integers, FiniteSets, Sequences, TLC, Json

CONSTANTS Conns,     \* e.g. {1, 2, 3}
          Pids,      \* e.g. {1, 2, 3}
          MaxTok,    \* contexts issued per behaviour
          MaxErr     \* error-returning BeginQuery calls per behaviour

VARIABLES procs, byPid, ntok, cancelled, tconn, trun,
          live, running, stale, ops, errs,
          act, ret, hist
vars == <<procs, byPid, ntok, cancelled, tconn, trun, live, running, stale, ops, errs, act, ret, hist>>

None == [cmd |-> "none", pid |-> 0, tok |-> 0]
Entry(cmd, pid, tok) == [cmd |-> cmd, pid |-> pid, tok |-> tok]

CurQ(c) == {r \in running \ stale : r.c = c}      \* the query of c's current incarnation
CurOp(c) == {o \in ops : o.c = c}
Busy(c) == CurQ(c) # {} \/ CurOp(c) # {}
Cancel(t) == IF t = 0 THEN cancelled ELSE cancelled \cup {t}

Init ==
    /\ procs = [c \in Conns |-> None]
    /\ byPid = [p \in Pids |-> 0]
    /\ ntok = 0 /\ cancelled = {} /\ tconn = 0 /\ trun = 0
    /\ live = {} /\ running = {} /\ stale = {} /\ ops = {} /\ errs = 0
    /\ act = [name |-> "init", c |-> 0, p |-> 0, t |-> 0, cls |-> ""]
    /\ ret = "none" /\ hist = <<>>

A(name, c, p, t, cls) == [name |-> name, c |-> c, p |-> p, t |-> t, cls |-> cls]
Do(a, r) == act' = a /\ ret' = r /\ hist' = Append(hist, <<a.name, a.c, a.p, a.t>>)

\* ---- connection life cycle -------------------------------------------------------------------
AddConnection(c) ==
    /\ c \notin live
    /\ CurOp(c) = {}
    /\ tconn' = tconn + 1
    /\ live' = live \cup {c}
    /\ procs' = [procs EXCEPT ![c] = Entry("Connect", 0, 0)]
    /\ Do(A("AddConnection", c, 0, 0, ""), "ok")
    /\ UNCHANGED <<byPid, ntok, cancelled, trun, running, stale, ops, errs>>

\* replaces the entry: a Kill func stored by BeginOperation is dropped without being called
ConnectionReady(c) ==
    /\ c \in live
    /\ CurQ(c) = {}
    /\ procs' = [procs EXCEPT ![c] = Entry("Sleep", 0, 0)]
    /\ Do(A("ConnectionReady", c, 0, 0, ""), "ok")
    /\ UNCHANGED <<byPid, ntok, cancelled, tconn, trun, live, running, stale, ops, errs>>

RemoveConnection(c) ==
    /\ c \in live
    /\ live' = live \ {c}
    /\ stale' = stale \cup {r \in running : r.c = c}
    /\ (IF procs[c] # None
        THEN /\ tconn' = tconn - 1
             /\ cancelled' = Cancel(procs[c].tok)
             /\ byPid' = [p \in Pids |-> IF p = procs[c].pid THEN 0 ELSE byPid[p]]
             /\ procs' = [procs EXCEPT ![c] = None]
        ELSE UNCHANGED <<tconn, cancelled, byPid, procs>>)
    /\ Do(A("RemoveConnection", c, 0, 0, IF CurQ(c) # {} THEN "query-in-flight" ELSE ""), "ok")
    /\ UNCHANGED <<ntok, trun, running, ops, errs>>

\* ---- queries ---------------------------------------------------------------------------------
\* As coded: Threads_running is incremented first, then come the two error returns.
BeginQuery(c, p) ==
    /\ ~Busy(c)
    /\ \A r \in running : r.pid = p => byPid[p] # 0
    /\ trun' = trun + 1
    /\ (IF procs[c] = None \/ byPid[p] # 0
        THEN /\ errs < MaxErr
             /\ errs' = errs + 1
             /\ Do(A("BeginQuery", c, p, 0, "error-return"),
                   IF procs[c] = None THEN "err-unregistered" ELSE "err-pidused")
             /\ UNCHANGED <<procs, byPid, ntok, running>>
        ELSE /\ ntok < MaxTok
             /\ ntok' = ntok + 1
             /\ procs' = [procs EXCEPT ![c] = Entry("Query", p, ntok + 1)]
             /\ byPid' = [byPid EXCEPT ![p] = c]
             /\ running' = running \cup {[c |-> c, pid |-> p, tok |-> ntok + 1]}
             /\ Do(A("BeginQuery", c, p, ntok + 1, "ok"), "ok")
             /\ UNCHANGED errs)
    /\ UNCHANGED <<cancelled, tconn, live, stale, ops>>

EndQuery(r) ==
    /\ r \in running
    /\ running' = running \ {r}
    /\ stale' = stale \ {r}
    /\ byPid' = [byPid EXCEPT ![r.pid] = 0]
    /\ (IF procs[r.c] # None /\ procs[r.c].pid = r.pid
        THEN /\ trun' = trun - 1
             /\ cancelled' = Cancel(procs[r.c].tok)
             /\ procs' = [procs EXCEPT ![r.c] = Entry("Sleep", 0, 0)]
        ELSE UNCHANGED <<trun, cancelled, procs>>)
    /\ Do(A("EndQuery", r.c, r.pid, r.tok, IF r \in stale THEN "after-RemoveConnection" ELSE "normal"),
          IF procs[r.c] = None THEN "gone" ELSE IF procs[r.c].pid = r.pid THEN "ended" ELSE "other-query")
    /\ UNCHANGED <<ntok, tconn, live, ops, errs>>

\* The real server calls EndQuery TWICE for most queries (sql/plan/process.go:267 when the tracked row
\* iterator finishes, and the handler's deferred call, server/handler.go:448): an EndQuery whose pid does
\* not belong to any running query.  As coded it deletes the pid index entry and looks at the entry.
EndQueryAgain(c, p) ==
    /\ \A r \in running : r.pid # p
    /\ byPid' = [byPid EXCEPT ![p] = 0]
    /\ (IF procs[c] # None /\ procs[c].pid = p
        THEN /\ trun' = trun - 1
             /\ cancelled' = Cancel(procs[c].tok)
             /\ procs' = [procs EXCEPT ![c] = Entry("Sleep", 0, 0)]
        ELSE UNCHANGED <<trun, cancelled, procs>>)
    /\ Do(A("EndQuery", c, p, 0, "again"), IF procs[c] = None THEN "gone" ELSE "other-query")
    /\ UNCHANGED <<ntok, tconn, live, running, stale, ops, errs>>

\* ---- operations (a Kill func without a pid; the Command does not change) -----------------------
\* Called when the connection is idle, or -- the two coded refusals -- on an unregistered connection
\* or while a Kill func is already stored.
BeginOperation(c) ==
    /\ ~Busy(c) \/ (procs[c] # None /\ procs[c].tok # 0)
    /\ (IF procs[c] = None \/ procs[c].tok # 0
        THEN /\ Do(A("BeginOperation", c, 0, 0, "error-return"),
                   IF procs[c] = None THEN "err-unregistered" ELSE "err-busy")
             /\ UNCHANGED <<procs, ntok, ops>>
        ELSE /\ ntok < MaxTok
             /\ ntok' = ntok + 1
             /\ procs' = [procs EXCEPT ![c].tok = ntok + 1]
             /\ ops' = ops \cup {[c |-> c, tok |-> ntok + 1]}
             /\ Do(A("BeginOperation", c, 0, ntok + 1, "ok"), "ok"))
    /\ UNCHANGED <<byPid, cancelled, tconn, trun, live, running, stale, errs>>

\* As coded EndOperation calls and clears whatever Kill func the entry holds.
EndOperation(o) ==
    /\ o \in ops
    /\ ops' = ops \ {o}
    /\ (IF procs[o.c] # None /\ procs[o.c].tok # 0
        THEN /\ cancelled' = Cancel(procs[o.c].tok)
             /\ procs' = [procs EXCEPT ![o.c].tok = 0]
        ELSE UNCHANGED <<cancelled, procs>>)
    /\ Do(A("EndOperation", o.c, 0, o.tok, ""), "ok")
    /\ UNCHANGED <<byPid, ntok, tconn, trun, live, running, stale, errs>>

\* ---- KILL QUERY / KILL CONNECTION both arrive as Kill(connection id) ----------------------------
Kill(c) ==
    /\ cancelled' = (IF procs[c] # None THEN Cancel(procs[c].tok) ELSE cancelled)
    /\ Do(A("Kill", c, 0, IF procs[c] # None THEN procs[c].tok ELSE 0,
            IF procs[c] # None /\ procs[c].tok # 0 THEN "hit" ELSE "nothing"), "ok")
    /\ UNCHANGED <<procs, byPid, ntok, tconn, trun, live, running, stale, ops, errs>>

Next ==
    \/ \E c \in Conns : AddConnection(c) \/ ConnectionReady(c) \/ RemoveConnection(c)
                        \/ BeginOperation(c) \/ Kill(c)
    \/ \E c \in Conns, p \in Pids : BeginQuery(c, p) \/ EndQueryAgain(c, p)
    \/ \E r \in running : EndQuery(r)
    \/ \E o \in ops : EndOperation(o)

Spec == Init /\ [][Next]_vars

View == <<procs, byPid, ntok, cancelled, tconn, trun, live, running, stale, ops, errs>>

\* ---- properties that hold on the model (checked exhaustively by TLC) ---------------------------
Registered == {c \in Conns : procs[c] # None}

TypeOK ==
    /\ \A c \in Conns : procs[c] = None \/ (procs[c].cmd \in {"Connect", "Sleep", "Query"}
                                            /\ procs[c].pid \in Pids \cup {0} /\ procs[c].tok \in 0..ntok)
    /\ \A p \in Pids : byPid[p] \in Conns \cup {0}
    /\ cancelled \subseteq 1..ntok
    /\ live \subseteq Conns /\ stale \subseteq running
    /\ ntok \in 0..MaxTok /\ errs \in 0..MaxErr

\* byQueryPid is exactly the inverse of the listed running queries
PidIndex ==
    \A p \in Pids :
        /\ byPid[p] # 0 => procs[byPid[p]] # None /\ procs[byPid[p]].pid = p
        /\ \A c \in Registered : procs[c].pid = p => byPid[p] = c

\* the list shows exactly the connected sessions and, for each, the query it is running
ListShowsLive ==
    /\ Registered = live
    /\ \A c \in live :
        /\ procs[c].cmd = "Query" <=> CurQ(c) # {}
        /\ \A r \in CurQ(c) : procs[c].pid = r.pid /\ procs[c].tok = r.tok
        /\ CurQ(c) = {} => procs[c].pid = 0
    /\ \A c \in Conns : Cardinality(CurQ(c)) <= 1

ConnectedCounter == tconn = Cardinality(live)

\* a step cancels nothing but the current token of the connection it is directed at, and the
\* begin/connect steps cancel nothing
KillTargeted ==
    [][/\ (cancelled' \ cancelled) \subseteq ({procs[act'.c].tok} \ {0})
       /\ act'.name \in {"AddConnection", "ConnectionReady", "BeginQuery", "BeginOperation"}
            => cancelled' = cancelled]_vars

\* a context is not cancelled when it is issued ...
FreshNotCancelled == [][ntok' > ntok => ntok' \notin cancelled']_vars
\* ... and the context a connection currently holds becomes cancelled only by a Kill directed at that
\* connection while it holds that very context (an earlier KILL never reaches a later query)
OnlyKillCancelsCurrent ==
    [][\A c \in Conns :
         (/\ procs'[c] # None /\ procs'[c].tok # 0 /\ procs'[c].tok \in cancelled'
          /\ ~(procs[c] # None /\ procs[c].tok = procs'[c].tok /\ procs[c].tok \in cancelled))
         => (act'.name = "Kill" /\ act'.c = c /\ procs[c] # None /\ procs[c].tok = procs'[c].tok)]_vars
\* a kill is never lost: Kill on a connection holding a context cancels it
KillHits == [][act'.name = "Kill" /\ procs[act'.c] # None /\ procs[act'.c].tok # 0
                  => procs[act'.c].tok \in cancelled']_vars

\* ---- the property the DESIGN violates (model-level; judged on the real object by the replayer) ---
\* Ground truth for Threads_running: every running query of a live connection counts; a query whose
\* connection has been removed but whose EndQuery is still to come may or may not be counted (the
\* property does not say), so the counter must lie between the two cardinalities.
RunLo == Cardinality(running \ stale)
RunHi == Cardinality(running)
RunningCounter == trun \in RunLo..RunHi

\* ---- transition dump for replay into the real ProcessList (binding A) --------------------------
QText(pid) == IF pid = 0 THEN "" ELSE "q" \o ToString(pid)
\* what the replayer compares after the step: the list (Processes(); k = a Kill func is stored),
\* byQueryPid, the number of issued contexts and which of them are cancelled, the as-coded counters and
\* the ground truth (nlive; nrunl..nrun) the real counters are judged against
Proj == [procs |-> {[c |-> c, cmd |-> procs[c].cmd, pid |-> procs[c].pid, q |-> QText(procs[c].pid),
                     k |-> procs[c].tok # 0] : c \in Registered},
         byPid |-> {[p |-> p, c |-> byPid[p]] : p \in {x \in Pids : byPid[x] # 0}},
         ntok |-> ntok, cancelled |-> cancelled, tconn |-> tconn, trun |-> trun,
         nlive |-> Cardinality(live), nrun |-> RunHi, nrunl |-> RunLo]
\* one self-contained case per transition: the history that reaches the pre-state (as <<name, c, p, t>>
\* tuples), the step, and the expected observables after it
Emit == PrintT("TR " \o ToJson([h |-> hist, a |-> act', r |-> ret',
                               pre |-> [trun |-> trun, nrun |-> RunHi, nrunl |-> RunLo, tconn |-> tconn,
                                        ncanc |-> Cardinality(cancelled), ntok |-> ntok],
                               post |-> Proj']))
=============================================================================
