CONSTANTS
  ColNames = {"a", "b", "c", "d"}
  IdxNames = {"i1", "i2"}
  MaxCols = 4
  MaxRows = 4
  MaxSteps = 14
  Level = "full"
  MCTpls = {1}
INIT InitScript
NEXT NextScript
INVARIANTS TypeOK ColumnNamesUnique KeyColsExist ValuesTyped Integrity PKNotNull
ACTION_CONSTRAINT EmitScript
CHECK_DEADLOCK FALSE
