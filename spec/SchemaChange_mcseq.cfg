CONSTANTS
  ColNames = {"a", "b", "c"}
  IdxNames = {"i1"}
  MaxCols = 3
  MaxRows = 2
  MaxSteps = 3
  Level = "small"
  MCTpls = {1}
INIT Init
NEXT Next
VIEW View
INVARIANTS TypeOK ColumnNamesUnique KeyColsExist ValuesTyped Integrity PKNotNull
PROPERTIES DataPreserved
CHECK_DEADLOCK FALSE
