--------------------------- MODULE IndexedSet ---------------------------
(* C47.  sql/in_mem_table: IndexedSet / MultiMap and the table-editor layer built on them
   (Insert/Delete/Update of IndexedSetTableEditor, MultiInsert/MultiDelete/MultiUpdate of
   MultiIndexedSetTableEditor).

   Abstract state: one SET of elements.  The implementation keeps one MultiMap per keyer; the
   property is that every index always denotes this same set ("for every key of every index,
   exactly the elements currently stored under that key").

   An element is [pk, a]:  keyer 0 (the "primary" keyer of the editors) is pk, keyer 1 is
   a % 2 (colliding on purpose, and it changes when `a` changes, so an update must re-key index 1).
   For the Multi editors `a` is a bit mask of sub-rows {1, 2} (bit 1 = value 1, bit 2 = value 2).

   One action per public call.  `act` / `ret` are output-only (hidden by View). *)
EXTENDS Integers, FiniteSets, Sequences, TLC, Json

CONSTANTS PKs,      \* e.g. {1, 2}
          As        \* e.g. 0..3

Elem == [pk : PKs, a : As]
Key1(e) == e.a % 2
KeyOf(i, e) == IF i = 0 THEN e.pk ELSE Key1(e)
Keys(i) == IF i = 0 THEN PKs ELSE {0, 1}

VARIABLES set, act, ret, step
vars == <<set, act, ret, step>>

Under(i, k) == {e \in set : KeyOf(i, e) = k}        \* what GetMany(keyer i, k) must return

Init == set = {} /\ act = [name |-> "init"] /\ ret = "none" /\ step = 0

Do(a, r, s) == act' = a /\ ret' = r /\ set' = s /\ step' = step + 1

\* ---- IndexedSet API ----------------------------------------------------------------------
\* Put: the documented caller discipline is that an equal element is not already present.
Put(e) == e \notin set /\ Do([name |-> "Put", e |-> e], "ok", set \cup {e})
Remove(e) == Do([name |-> "Remove", e |-> e], IF e \in set THEN "found" ELSE "notfound", set \ {e})
RemoveMany(i, k) == Do([name |-> "RemoveMany", i |-> i, k |-> k], "ok", set \ Under(i, k))
Clear == Do([name |-> "Clear"], "ok", {})

\* ---- IndexedSetTableEditor (rows are elements) ---------------------------------------------
EdInsert(e) == IF Under(0, e.pk) # {}
               THEN Do([name |-> "EdInsert", e |-> e], "dup", set)
               ELSE Do([name |-> "EdInsert", e |-> e], "ok", set \cup {e})
EdDelete(e) == Do([name |-> "EdDelete", e |-> e], "ok", set \ Under(0, e.pk))
\* Update(old, new) as coded: es = GetMany(pk(old)); one entry -> Remove(old); Put(new);
\* otherwise remove all of es and Put(new).  Discipline of the executor: `old` is a stored row and
\* the new primary key is old's or unused (anything else is "an internal coding error" per the
\* package comment).
EdUpdate(o, n) ==
    /\ o \in set
    /\ (n.pk = o.pk \/ Under(0, n.pk) = {})
    /\ Cardinality(Under(0, o.pk)) = 1
    /\ Do([name |-> "EdUpdate", o |-> o, n |-> n], "ok", (set \ {o}) \cup {n})

\* ---- MultiIndexedSetTableEditor: a row (pk, x) is one sub-row x of the entry with that pk ------
Bit(x) == IF x = 1 THEN 1 ELSE 2
Has(e, x) == (e.a \div Bit(x)) % 2 = 1
With(e, x) == IF Has(e, x) THEN e ELSE [e EXCEPT !.a = @ + Bit(x)]
Without(e, x) == IF Has(e, x) THEN [e EXCEPT !.a = @ - Bit(x)] ELSE e
The(pk) == CHOOSE e \in Under(0, pk) : TRUE
MultiInsert(pk, x) ==
    IF Cardinality(Under(0, pk)) # 1
    THEN Do([name |-> "MultiInsert", pk |-> pk, x |-> x], "notfound", set)
    ELSE Do([name |-> "MultiInsert", pk |-> pk, x |-> x], "ok", (set \ {The(pk)}) \cup {With(The(pk), x)})
MultiDelete(pk, x) ==
    IF Cardinality(Under(0, pk)) # 1
    THEN Do([name |-> "MultiDelete", pk |-> pk, x |-> x], "notfound", set)
    ELSE Do([name |-> "MultiDelete", pk |-> pk, x |-> x], "ok", (set \ {The(pk)}) \cup {Without(The(pk), x)})
\* MultiUpdate = MultiDelete(old) then MultiInsert(new); the second half is skipped when the first fails.
MultiUpdate(pk1, x1, pk2, x2) ==
    LET a == [name |-> "MultiUpdate", pk |-> pk1, x |-> x1, pk2 |-> pk2, x2 |-> x2] IN
    IF Cardinality(Under(0, pk1)) # 1 THEN Do(a, "notfound", set)
    ELSE LET s1 == (set \ {The(pk1)}) \cup {Without(The(pk1), x1)}
             u2 == {e \in s1 : e.pk = pk2}
         IN IF Cardinality(u2) # 1 THEN Do(a, "notfound", s1)
            ELSE LET t == CHOOSE e \in u2 : TRUE IN Do(a, "ok", (s1 \ {t}) \cup {With(t, x2)})

\* Only pk-unique states are reachable through the editors; Put can create pk duplicates
\* (allowed by the container, not by the editors), so the Multi actions check cardinality as coded.
Next ==
    \/ \E e \in Elem : Put(e) \/ Remove(e) \/ EdInsert(e) \/ EdDelete(e)
    \/ \E i \in {0, 1} : \E k \in Keys(i) : RemoveMany(i, k)
    \/ Clear
    \/ \E o \in Elem, n \in Elem : EdUpdate(o, n)
    \/ \E pk \in PKs, x \in {1, 2} : MultiInsert(pk, x) \/ MultiDelete(pk, x)
    \/ \E pk1 \in PKs, x1 \in {1, 2}, pk2 \in PKs, x2 \in {1, 2} : MultiUpdate(pk1, x1, pk2, x2)

Spec == Init /\ [][Next]_vars

View == set

\* ---- properties --------------------------------------------------------------------------
TypeOK == set \subseteq Elem
\* every index is a partition of the same set
IndexesAgree == \A i \in {0, 1} : UNION {Under(i, k) : k \in Keys(i)} = set
\* editor-only histories keep the primary keyer injective
RemoveRemoves == [][\A e \in Elem : (act'.name = "Remove" /\ act'.e = e) => e \notin set']_vars
CountIsCard == Cardinality(set) <= Cardinality(Elem)

\* ---- transition dump for replay into the real containers (binding A) -----------------------
Emit == PrintT("TR " \o ToJson([pre |-> set, act |-> act', ret |-> ret', post |-> set', step |-> step']))
=============================================================================
