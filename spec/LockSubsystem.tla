--------------------------- MODULE LockSubsystem ---------------------------
(* C38.  sql/lock_subsystem.go at the granularity of its atomic steps.

   One action = the code of ONE session from one `verifhook.Yield(point, session)` to the next
   (or to the return of the call).  The value of pc is the name of the Yield point the session is
   parked at:

     trylock.load  trylock.cas  trylock.addlock      tryLock (TryLock and every attempt of Lock)
     lock.sleep                                      Lock between two attempts
     unlock.load   unlock.cas   unlock.dellock       Unlock
     releaseall.load  releaseall.cas                 ReleaseAll, per name of the session's lock set
     state.load                                      GetLockState

   so `Invoke` is "call entry up to the first Yield" (getOrCreateLock / getNamedLock happen here,
   under the map mutex), and the return of a call is fused with its last atomic step (there is no
   Yield between them and the session can do nothing else in between).

   lock[n] = [o, c, p]: owner (0 = free), count, and p = identity of the allocated *ownedLock the
   map slot points to.  The code compares POINTERS in CompareAndSwapPointer, every new value is a
   fresh allocation, so a CAS succeeds iff nobody installed anything since the load: `nextp`
   numbers the allocations; View replaces the numbers by "is my snapshot still current".

   held[s] = BaseSession.locks (AddLock / DelLock / IterLocks).  ReleaseAll walks held[s] in an
   arbitrary order (Go map iteration) and does NOT remove the names it frees - modelled as coded.

   Ghost state (no counterpart in the code):
     holders[n]  sessions that believe they hold n: from their acquiring CAS to their releasing CAS
     ast         state of LockAtomic, updated at the linearisation points
                    successful CAS                      (try / lock / unlock / relall)
                    the load that decides a failing return   (try "false", unlock "notowned",
                                                              the last failed attempt of a Lock that times out)
                    the load of state; Invoke for the calls that return without any atomic step
     gh[s]       how many linearisation points the running call of s has had and the reply
                 LockAtomic gave there; compared with the real reply when the call returns
     bad         "" or the first disagreement found that way
     mon         (Monitor = TRUE only) the EXACT linearizability monitor: the set of all
                 configurations <<LockAtomic state, per session: call not yet linearised /
                 linearised with reply r>> that are consistent with the calls and returns so far.
                 A call may linearise anywhere between its Invoke and its return, in any order with
                 the other pending calls; a return keeps the configurations in which the call is
                 linearised with exactly the reply returned.  mon = {} <=> the history of calls and
                 returns up to here has NO linearisation against LockAtomic.
   The fixed linearisation points read ReleaseAll as one LockAtomic!RelOne per successful CAS
   (ReleaseAll frees the session's locks one after the other).  The monitor reads it as stated,
   as ONE atomic relall; see C38.py for what that finds. *)
EXTENDS Integers, Sequences, FiniteSets, TLC, Json

CONSTANTS Sess,      \* session ids, positive integers
          Names,     \* lock names, strings
          Budget,    \* [Sess -> Nat]: calls per session
          Timeouts,  \* classes of Lock timeouts offered: subset of {"inf", "zero", "fin"}
          Monitor,   \* BOOLEAN: maintain the exact linearizability monitor `mon`
          Record     \* BOOLEAN: maintain act/step (off for the liveness run, which has no VIEW)

VARIABLES lock, created, held, loc, nops, nextp,      \* the implementation
          holders, ast, gh, bad, mon,                 \* ghosts
          act, step                                   \* output only
vars == <<lock, created, held, loc, nops, nextp, holders, ast, gh, bad, mon, act, step>>

LA == INSTANCE LockAtomic

NoName == LA!NoName
R(x, i) == LA!R(x, i)
NoRet == R("none", 0)
NoOp == [k |-> "none", n |-> NoName, t |-> "na"]
Z == [o |-> 0, c |-> 0, p |-> 0]
IdleLoc == [pc |-> "idle", op |-> NoOp, snap |-> Z, tgt |-> NoName, todo |-> {}, cnt |-> 0]
IdleGh == [lin |-> 0, ret |-> NoRet]
NoAct == [s |-> 0, at |-> "init", nxt |-> "init", op |-> NoOp, tgt |-> NoName, ok |-> TRUE, ret |-> NoRet]

Ops == [k : {"try", "unlock", "state"}, n : Names, t : {"na"}]
       \cup [k : {"lock"}, n : Names, t : Timeouts]
       \cup {[k |-> "relall", n |-> NoName, t |-> "na"]}

\* ---- replies -------------------------------------------------------------------------------
\* What the property distinguishes of a reply: an unlock that fails fails (whether the lock was
\* never created or is somebody else's); a lock that was never created is free.
ProjRet(k, r) ==
    IF k = "unlock" /\ r.s \in {"noexist", "notowned"} THEN R("fail", 0)
    ELSE IF k = "state" /\ r.s = "noexist" THEN R("free", 0)
    ELSE r

\* ---- the exact linearizability monitor ---------------------------------------------------------
\* a configuration: [st |-> LockAtomic state, p |-> [Sess -> pending record]]
\* pending record: ph = "idle" (not in a call), "todo" (called, not linearised), "done" (linearised, reply r)
IdlePend == [ph |-> "idle", o |-> NoOp, r |-> NoRet]
LinOne(c) == {[st |-> LA!Apply(c.st, s, c.p[s].o).st,
               p |-> [c.p EXCEPT ![s] = [ph |-> "done", o |-> c.p[s].o, r |-> LA!Apply(c.st, s, c.p[s].o).ret]]] :
              s \in {x \in Sess : c.p[x].ph = "todo" /\ LA!Enabled(c.st, x, c.p[x].o)}}
RECURSIVE Close(_)
Close(G) == LET N == G \cup UNION {LinOne(c) : c \in G} IN IF N = G THEN G ELSE Close(N)
\* a pending call can linearise at any time: it is enough to close the set when a call starts
MonInvoke(G, s, o) == IF Monitor THEN Close({[c EXCEPT !.p[s] = [ph |-> "todo", o |-> o, r |-> NoRet]] : c \in G}) ELSE {}
MonReturn(G, s, k, r) ==
    IF Monitor THEN {[c EXCEPT !.p[s] = IdlePend] : c \in {x \in G : x.p[s].ph = "done" /\ x.p[s].r = ProjRet(k, r)}}
    ELSE {}

\* budgets selectable from a .cfg
B1 == [s \in Sess |-> 1]
B2 == [s \in Sess |-> 2]
B3 == [s \in Sess |-> 3]
B4 == [s \in Sess |-> 4]
B5 == [s \in Sess |-> 5]
B32 == [s \in Sess |-> IF s = 1 THEN 3 ELSE IF s = 2 THEN 2 ELSE 0]
B321 == [s \in Sess |-> IF s = 1 THEN 3 ELSE IF s = 2 THEN 2 ELSE 1]

Init ==
    /\ lock = [n \in Names |-> Z]
    /\ created = {}
    /\ held = [s \in Sess |-> {}]
    /\ loc = [s \in Sess |-> IdleLoc]
    /\ nops = [s \in Sess |-> 0]
    /\ nextp = 1
    /\ holders = [n \in Names |-> {}]
    /\ ast = LA!AInit
    /\ gh = [s \in Sess |-> IdleGh]
    /\ bad = ""
    /\ mon = IF Monitor THEN {[st |-> LA!AInit, p |-> [s \in Sess |-> IdlePend]]} ELSE {}
    /\ act = NoAct
    /\ step = 0

\* the ghost verdict when a call of kind k returns r and its ghost record is g
BadAfter(k, r, g) ==
    IF bad # "" THEN bad
    ELSE IF g.lin # 1 THEN "lincount"
    ELSE IF ProjRet(k, r) # g.ret THEN "ret"
    ELSE ""

Note(s, nxt, ok, r) ==
    /\ mon' = mon
    /\ act' = IF Record THEN [s |-> s, at |-> loc[s].pc, nxt |-> nxt, op |-> loc'[s].op, tgt |-> loc'[s].tgt, ok |-> ok, ret |-> r]
              ELSE NoAct
    /\ step' = IF Record THEN step + 1 ELSE 0

\* the same for the step that starts call o
NoteInv(s, o, nxt) ==
    /\ mon' = MonInvoke(mon, s, o)
    /\ act' = IF Record THEN [s |-> s, at |-> "idle", nxt |-> nxt, op |-> o, tgt |-> loc'[s].tgt, ok |-> TRUE, ret |-> NoRet]
              ELSE NoAct
    /\ step' = IF Record THEN step + 1 ELSE 0
\* ... and for a call that returns r before reaching any Yield point
NoteInvRet(s, o, r) ==
    /\ mon' = MonReturn(MonInvoke(mon, s, o), s, o.k, r)
    /\ act' = IF Record THEN [s |-> s, at |-> "idle", nxt |-> "idle", op |-> o, tgt |-> o.n, ok |-> TRUE, ret |-> r]
              ELSE NoAct
    /\ step' = IF Record THEN step + 1 ELSE 0

\* nn is a legal choice from the set S (NoName when there is nothing to choose)
Choice(S, nn) == IF S = {} THEN nn = NoName ELSE nn \in S

\* session s goes on to Yield point p with local state l
Goto(s, l) == loc' = [loc EXCEPT ![s] = l]

\* the call of s returns r; its ghost record (after this step) is g.  The call stays visible in the
\* act record of this step; the local state is cleared so that states reached by different calls merge.
Return(s, r, g) ==
    /\ bad' = BadAfter(loc[s].op.k, r, g)
    /\ mon' = MonReturn(mon, s, loc[s].op.k, r)
    /\ loc' = [loc EXCEPT ![s] = IdleLoc]
    /\ gh' = [gh EXCEPT ![s] = IdleGh]
    /\ act' = IF Record THEN [s |-> s, at |-> loc[s].pc, nxt |-> "idle", op |-> loc[s].op, tgt |-> loc[s].tgt, ok |-> TRUE, ret |-> r]
              ELSE NoAct
    /\ step' = IF Record THEN step + 1 ELSE 0

\* linearise the whole call of s here: the new ghost record and atomic state
LinNow(s, o) == LET a == LA!Apply(ast, s, o) IN [st |-> a.st, g |-> [lin |-> gh[s].lin + 1, ret |-> a.ret]]

\* ---- Invoke: call entry up to the first Yield -----------------------------------------------
InvokeTry(s, o) ==      \* TryLock / Lock: getOrCreateLock, then the first attempt
    /\ created' = created \cup {o.n}
    /\ Goto(s, [IdleLoc EXCEPT !.pc = "trylock.load", !.op = o, !.tgt = o.n])
    /\ NoteInv(s, o, "trylock.load")
    /\ UNCHANGED <<ast, gh, bad>>

InvokeNamed(s, o, point) ==     \* Unlock / GetLockState: getNamedLock
    /\ UNCHANGED created
    /\ IF o.n \in created
       THEN /\ Goto(s, [IdleLoc EXCEPT !.pc = point, !.op = o, !.tgt = o.n])
            /\ NoteInv(s, o, point)
            /\ UNCHANGED <<ast, gh, bad>>
       ELSE \* no map entry: returns at once (ErrLockDoesNotExist / LockDoesNotExist)
            LET l == LinNow(s, o) IN
            /\ ast' = l.st
            /\ bad' = BadAfter(o.k, R("noexist", 0), l.g)
            /\ NoteInvRet(s, o, R("noexist", 0))
            /\ UNCHANGED <<loc, gh>>

InvokeRelAll(s, o, nn) ==   \* ReleaseAll: IterLocks over held[s]; every name in it has a map entry
    /\ Choice(held[s], nn)
    /\ UNCHANGED created
    /\ LET nothing == LA!Owned(ast, s) = {}      \* the atomic relall has no effect: linearise it here
           l == LinNow(s, o) IN
       IF held[s] = {}
       THEN /\ ast' = IF nothing THEN l.st ELSE ast
            /\ bad' = BadAfter("relall", R("count", 0), IF nothing THEN l.g ELSE gh[s])
            /\ NoteInvRet(s, o, R("count", 0))
            /\ UNCHANGED <<loc, gh>>
       ELSE /\ Goto(s, [IdleLoc EXCEPT !.pc = "releaseall.load", !.op = o, !.tgt = nn, !.todo = held[s] \ {nn}])
            /\ ast' = IF nothing THEN l.st ELSE ast
            /\ gh' = [gh EXCEPT ![s] = IF nothing THEN l.g ELSE IdleGh]
            /\ NoteInv(s, o, "releaseall.load")
            /\ UNCHANGED bad

Invoke(s, o, nn) ==
    /\ loc[s].pc = "idle"
    /\ nops[s] < Budget[s]
    /\ IF o.k = "relall" THEN TRUE ELSE nn = NoName      \* (no disjunction here: TLC would branch on it)
    /\ nops' = [nops EXCEPT ![s] = @ + 1]
    /\ UNCHANGED <<lock, held, nextp, holders>>
    /\ CASE o.k \in {"try", "lock"} -> InvokeTry(s, o)
         [] o.k = "unlock" -> InvokeNamed(s, o, "unlock.load")
         [] o.k = "state" -> InvokeNamed(s, o, "state.load")
         [] o.k = "relall" -> InvokeRelAll(s, o, nn)

\* ---- ReleaseAll: on to the next name of the iteration, or return the count ---------------------
\* l = local state after the current name was dealt with, g = ghost record after this step
RelNext(s, l, g, nn) ==
    IF l.todo = {}
    THEN Return(s, R("count", l.cnt), g)
    ELSE /\ Goto(s, [l EXCEPT !.pc = "releaseall.load", !.tgt = nn, !.todo = l.todo \ {nn}, !.snap = Z])
         /\ gh' = [gh EXCEPT ![s] = g]
         /\ Note(s, "releaseall.load", TRUE, NoRet)
         /\ UNCHANGED bad

\* ---- Load: atomic.LoadPointer and the branch on what it saw ------------------------------------
Load(s, nn) ==
    LET l == loc[s]  cur == lock[l.tgt] IN
    /\ l.pc \in {"trylock.load", "unlock.load", "releaseall.load", "state.load"}
    /\ IF l.pc = "releaseall.load" /\ cur.o # s THEN Choice(l.todo, nn) ELSE nn = NoName
    /\ UNCHANGED <<lock, created, held, nops, nextp, holders>>
    /\ CASE l.pc = "trylock.load" ->
              (IF cur.o = 0 \/ cur.o = s
               THEN /\ Goto(s, [l EXCEPT !.pc = "trylock.cas", !.snap = cur])
                    /\ Note(s, "trylock.cas", TRUE, NoRet)
                    /\ UNCHANGED <<ast, gh, bad>>
               ELSE IF l.op.k = "try"
               THEN \* owned by somebody else: TryLock returns false; linearises here
                    LET x == LinNow(s, l.op) IN
                    /\ ast' = x.st
                    /\ Return(s, R("false", 0), x.g)
               ELSE \* Lock: a failed attempt; the candidate linearisation point of a timeout
                    /\ Goto(s, [l EXCEPT !.pc = "lock.sleep"])
                    /\ gh' = [gh EXCEPT ![s] = [lin |-> 1, ret |-> LA!Apply(ast, s, l.op).ret]]
                    /\ Note(s, "lock.sleep", TRUE, NoRet)
                    /\ UNCHANGED <<ast, bad>>)
         [] l.pc = "unlock.load" ->
              (IF cur.o # s
               THEN LET x == LinNow(s, l.op) IN
                    /\ ast' = x.st
                    /\ Return(s, R("notowned", 0), x.g)
               ELSE /\ Goto(s, [l EXCEPT !.pc = "unlock.cas", !.snap = cur])
                    /\ Note(s, "unlock.cas", TRUE, NoRet)
                    /\ UNCHANGED <<ast, gh, bad>>)
         [] l.pc = "releaseall.load" ->
              (IF cur.o # s
               THEN /\ RelNext(s, l, gh[s], nn)
                    /\ UNCHANGED ast
               ELSE /\ Goto(s, [l EXCEPT !.pc = "releaseall.cas", !.snap = cur])
                    /\ Note(s, "releaseall.cas", TRUE, NoRet)
                    /\ UNCHANGED <<ast, gh, bad>>)
         [] l.pc = "state.load" ->
              (LET x == LinNow(s, l.op) IN
               /\ ast' = x.st
               /\ Return(s, IF cur.o = 0 THEN R("free", 0) ELSE R("used", cur.o), x.g))

\* ---- Cas: atomic.CompareAndSwapPointer(dest, curr, newVal) ---------------------------------------
Install(n, o, c) == /\ lock' = [lock EXCEPT ![n] = [o |-> o, c |-> c, p |-> nextp]]
                    /\ nextp' = nextp + 1

Cas(s, nn) ==
    LET l == loc[s]  n == l.tgt  ok == lock[n].p = l.snap.p IN
    /\ l.pc \in {"trylock.cas", "unlock.cas", "releaseall.cas"}
    /\ IF l.pc = "releaseall.cas" /\ ok THEN Choice(l.todo, nn) ELSE nn = NoName
    /\ UNCHANGED <<created, held, nops>>
    /\ IF ~ok
       THEN \* somebody installed a new value since the load: loop
            LET back == CASE l.pc = "trylock.cas" -> "trylock.load"
                          [] l.pc = "unlock.cas" -> "unlock.load"
                          [] l.pc = "releaseall.cas" -> "releaseall.load" IN
            /\ Goto(s, [l EXCEPT !.pc = back, !.snap = Z])
            /\ Note(s, back, FALSE, NoRet)
            /\ UNCHANGED <<lock, nextp, holders, ast, gh, bad>>
       ELSE CASE l.pc = "trylock.cas" ->
                  (LET x == LinNow(s, l.op) IN
                   /\ Install(n, s, IF l.snap.o = 0 THEN 1 ELSE l.snap.c + 1)
                   /\ ast' = x.st
                   /\ IF l.snap.o = 0
                      THEN /\ holders' = [holders EXCEPT ![n] = @ \cup {s}]
                           /\ Goto(s, [l EXCEPT !.pc = "trylock.addlock", !.snap = Z])
                           /\ gh' = [gh EXCEPT ![s] = x.g]
                           /\ Note(s, "trylock.addlock", TRUE, NoRet)
                           /\ UNCHANGED bad
                      ELSE /\ UNCHANGED holders
                           /\ Return(s, IF l.op.k = "try" THEN R("true", 0) ELSE R("ok", 0), x.g))
              [] l.pc = "unlock.cas" ->
                  (LET x == LinNow(s, l.op) IN
                   /\ ast' = x.st
                   /\ IF l.snap.c > 1
                      THEN /\ Install(n, s, l.snap.c - 1)
                           /\ UNCHANGED holders
                           /\ Return(s, R("ok", 0), x.g)
                      ELSE /\ Install(n, 0, 0)
                           /\ holders' = [holders EXCEPT ![n] = @ \ {s}]
                           /\ Goto(s, [l EXCEPT !.pc = "unlock.dellock", !.snap = Z])
                           /\ gh' = [gh EXCEPT ![s] = x.g]
                           /\ Note(s, "unlock.dellock", TRUE, NoRet)
                           /\ UNCHANGED bad)
              [] l.pc = "releaseall.cas" ->
                  (LET \* one LockAtomic!RelOne; the call is linearised once nothing of s is left
                       st2 == LA!FreeAll(ast, IF ast.own[n] = s THEN {n} ELSE {})
                       g2 == [lin |-> IF LA!Owned(st2, s) = {} THEN 1 ELSE 0,
                              ret |-> R("count", (IF gh[s].ret.s = "count" THEN gh[s].ret.i ELSE 0) + 1)]
                   IN
                   /\ Install(n, 0, 0)
                   /\ holders' = [holders EXCEPT ![n] = @ \ {s}]
                   /\ ast' = st2
                   /\ RelNext(s, [l EXCEPT !.cnt = @ + 1], g2, nn))

\* ---- the session-set updates ------------------------------------------------------------------------
AddLock(s) ==
    /\ loc[s].pc = "trylock.addlock"
    /\ held' = [held EXCEPT ![s] = @ \cup {loc[s].tgt}]
    /\ Return(s, IF loc[s].op.k = "try" THEN R("true", 0) ELSE R("ok", 0), gh[s])
    /\ UNCHANGED <<lock, created, nops, nextp, holders, ast>>

DelLock(s) ==
    /\ loc[s].pc = "unlock.dellock"
    /\ held' = [held EXCEPT ![s] = @ \ {loc[s].tgt}]
    /\ Return(s, R("ok", 0), gh[s])
    /\ UNCHANGED <<lock, created, nops, nextp, holders, ast>>

\* ---- Lock: time.Sleep, then the loop condition i == 0 || timeout < 0 || time.Since(start) < timeout ----
Sleep(s, again) ==
    LET l == loc[s] IN
    /\ l.pc = "lock.sleep"
    /\ UNCHANGED <<lock, created, held, nops, nextp, holders, ast>>
    /\ \/ /\ again /\ l.op.t \in {"inf", "fin"}         \* another attempt; the candidate point is dropped
          /\ Goto(s, [l EXCEPT !.pc = "trylock.load"])
          /\ gh' = [gh EXCEPT ![s] = IdleGh]
          /\ Note(s, "trylock.load", TRUE, NoRet)
          /\ UNCHANGED bad
       \/ /\ ~again /\ l.op.t \in {"zero", "fin"}        \* ErrLockTimeout
          /\ Return(s, R("timeout", 0), gh[s])

\* Every nondeterministic choice is a parameter of an action (nn: the name ReleaseAll's iteration
\* visits next, NoName when there is no choice; again: a Lock with a finite timeout goes on or
\* gives up), so each action instance has ONE successor: `tlc -simulate` evaluates the Emit action
\* constraint on every successor of the instance it picked, and must print only the step taken.
NN == Names \cup {NoName}
Step(s) == (\E nn \in NN : Load(s, nn) \/ Cas(s, nn)) \/ AddLock(s) \/ DelLock(s) \/ (\E again \in BOOLEAN : Sleep(s, again))
Next == \E s \in Sess : (\E o \in Ops, nn \in NN : Invoke(s, o, nn)) \/ Step(s)

Spec == Init /\ [][Next]_vars
\* a session that is inside a call keeps running (the Go scheduler is fair); calls are not forced
FairSpec == Spec /\ \A s \in Sess : WF_vars(Step(s))

\* ---- VIEW: pointer numbers replaced by "my snapshot is still current"; outputs dropped ----------------
View == <<[n \in Names |-> [o |-> lock[n].o, c |-> lock[n].c]],
          [s \in Sess |-> [l |-> [loc[s] EXCEPT !.snap = [o |-> loc[s].snap.o, c |-> loc[s].snap.c,
                                                          p |-> IF loc[s].tgt \in Names /\ loc[s].snap.p = lock[loc[s].tgt].p THEN 1 ELSE 0]]]],
          created, held, nops, holders, ast, gh, bad, mon>>

\* ---- properties ------------------------------------------------------------------------------------------
PCs == {"idle", "trylock.load", "trylock.cas", "trylock.addlock", "lock.sleep", "unlock.load", "unlock.cas",
        "unlock.dellock", "releaseall.load", "releaseall.cas", "state.load"}
TypeOK ==
    /\ \A n \in Names : lock[n].o \in Sess \cup {0} /\ lock[n].c \in Nat /\ lock[n].p \in 0..nextp - 1
    /\ created \subseteq Names
    /\ \A s \in Sess : held[s] \subseteq Names /\ loc[s].pc \in PCs /\ loc[s].op \in Ops \cup {NoOp} /\ nops[s] \in 0..Budget[s]
    /\ \A n \in Names : holders[n] \subseteq Sess

\* mutual exclusion, stated on what the sessions believe, not on the single owner field
AtMostOneOwner == \A n \in Names : Cardinality(holders[n]) <= 1
HoldersIsOwner == \A n \in Names : holders[n] = (IF lock[n].o = 0 THEN {} ELSE {lock[n].o})
CountPositiveWhenOwned == \A n \in Names : (lock[n].o = 0) <=> (lock[n].c = 0)
\* at quiescence a lock owned by s is in s's set (otherwise disconnect leaks it)
OwnedImpliesRegistered == \A s \in Sess, n \in Names : (lock[n].o = s /\ loc[s].pc = "idle") => n \in held[s]
CreatedOK == /\ \A n \in Names : lock[n].o # 0 => n \in created
             /\ \A s \in Sess : held[s] \subseteq created
\* every call had exactly one linearisation point and returned what LockAtomic returns there
Linearizable == bad = ""
\* the ghost state IS the projection of the real state (a refinement mapping)
GhostIsReal == \A n \in Names : ast.own[n] = lock[n].o /\ ast.cnt[n] = lock[n].c
\* ... and it moves by steps of LockAtomic (ReleaseAll: one RelOne per lock): with GhostIsReal this
\* is refinement of LockAtomic!SpecSplit under the mapping own[n] = lock[n].o, cnt[n] = lock[n].c
RefinesSplit == [][(ast' = ast) \/ LA!NextSplit]_vars
\* a failing call has no effect
FailNoEffect == [][(act'.ret.s \in {"false", "timeout", "notowned", "noexist", "free", "used"}) =>
                        (lock' = lock /\ held' = held)]_vars

\* Monitor = TRUE: the calls and returns so far have a linearisation against LockAtomic (relall atomic)
MonitorOK == Monitor => mon # {}

\* ---- liveness (FairSpec, Record = FALSE, no VIEW) ----------------------------------------------------------
WaitingInf(s, n) == loc[s].op.k = "lock" /\ loc[s].op.t = "inf" /\ loc[s].op.n = n
\* an untimed Lock does not wait for ever on a lock that stays free: it gets it once it is released
WaiterGetsFreeLock == \A s \in Sess, n \in Names : []<>~(WaitingInf(s, n) /\ lock[n].o = 0)
\* every call returns, except an untimed Lock whose lock is held by somebody else
Blocked(s) == \E n \in Names : WaitingInf(s, n) /\ lock[n].o \notin {0, s}
CallsReturn == \A s \in Sess : []<>(loc[s].pc = "idle" \/ Blocked(s))

\* ---- behaviour / transition dump for the gated replay (binding A) --------------------------------------------
EmitRec == [step |-> step', act |-> act',
            lock |-> [n \in Names |-> [o |-> lock'[n].o, c |-> lock'[n].c]],
            created |-> created',
            held |-> {[s |-> s, names |-> held'[s]] : s \in Sess}]
Emit == PrintT("TR " \o ToJson(EmitRec))
\* exhaustive dump of a small configuration: every transition of the VIEW-quotient graph once, with the
\* identities of its end points; C38.py covers all of them with paths from the initial state
EmitX == PrintT("TX " \o ToJson([pre |-> View, post |-> View', tr |-> EmitRec]))
=============================================================================
