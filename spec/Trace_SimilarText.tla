------------------------ MODULE Trace_SimilarText ------------------------
(* C49, binding B.  Every line of the log is one call recorded from the real
   internal/similartext package:
       [name, cands, find, map, err]
   name / candidates are tuples of one-character strings, find / map are the SETS of names that
   Find / FindFromMap suggested (parsed from the rendering), err is "" unless the call panicked or
   rendered something that is not a suggestion.  Step l loads line l's input into the
   specification's variables (name, cands, dists = the distances by the specification's Dist);
   the state constraint Judge then judges the logged output with SimilarText!AdmissibleGiven.
   A disagreement is printed as  MM <json>  and validation continues; acceptance is the
   high-water mark of l. *)
EXTENDS SimilarText

TraceLog == ndJsonDeserialize("c49_trace.ndjson")

VARIABLE l
tvars == <<name, cands, dists, phase, l>>

\* Pairs up to this total length are also used to check DistTab against the definition.
LemmaLimit == 8
LemmaPairs == {c \in Range(cands) : Len(c) + Len(name) <= LemmaLimit}
LemmaHolds == \A c \in LemmaPairs, sub \in Metrics : DistTab(c, name, sub) = DistRec(c, name, sub)

Kind(S, qcI, qcL) == IF S = {} THEN "missing"
                     ELSE IF ~(S \subseteq qcI.q) /\ ~(S \subseteq qcL.q) THEN "not-qualifying"
                     ELSE "not-closest"

\* Judges logged line i, whose input is the current state.
CheckLine(i, e) ==
    LET qcI == QCs(SubID)
        qcL == QCs(SubLev)
        SF == Range(e.find)
        SM == Range(e.map)
        okF == e.err = "" /\ AdmissibleGiven(name, SF, qcI, qcL)
        okM == e.err = "" /\ AdmissibleGiven(name, SM, qcI, qcL)
        report(api, S) ==
            PrintT("MM " \o ToJson([l |-> i, api |-> api, name |-> Str(name), cands |-> SeqMap(cands, Str),
                                     got |-> StrSet(S), err |-> e.err,
                                     kind |-> IF e.err # "" THEN "error" ELSE Kind(S, qcI, qcL),
                                     qID |-> StrSet(qcI.q), cID |-> StrSet(qcI.c),
                                     qLev |-> StrSet(qcL.q), cLev |-> StrSet(qcL.c)]))
    IN /\ (IF okF THEN TRUE ELSE report("Find", SF))
       /\ (IF okM THEN TRUE ELSE report("FindFromMap", SM))
       /\ (IF LemmaHolds THEN TRUE
           ELSE PrintT("LEMMA " \o ToJson([l |-> i, name |-> Str(name), cands |-> SeqMap(cands, Str)])))
       /\ PrintT("ST " \o ToJson([l |-> i, nt |-> NonTrivial(qcI, qcL),
                                   id |-> OkSets(SF, qcI), lev |-> OkSets(SF, qcL),
                                   lem |-> Cardinality(LemmaPairs)]))

TInit == l = 1 /\ name = <<>> /\ cands = <<>> /\ dists = NoDists /\ phase = "trace"
TNext ==
    /\ l <= Len(TraceLog)
    /\ LET e == TraceLog[l]
       IN /\ name' = e.name
          /\ cands' = e.cands
          /\ dists' = [sub \in Metrics |-> DistsOf(sub, e.name, e.cands)]
    /\ phase' = "trace"
    /\ l' = l + 1

\* CONSTRAINTs (state-level evaluation).  The state reached by step l - 1 carries that line's input.
Judge == l > 1 => CheckLine(l - 1, TraceLog[l - 1])
HW == TLCSet(1, l)                          \* high-water mark of the validated prefix
Accepted == TLCGet(1) = Len(TraceLog) + 1   \* POSTCONDITION
=============================================================================
