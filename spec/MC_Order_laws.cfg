CONSTANT MaxRows = 4
INIT Init
NEXT Next
INVARIANT Laws
CHECK_DEADLOCK FALSE
