------------------------------- MODULE MC_Proc -------------------------------
(* C24.  The design theorem over ProcMachine and the program source of binding A.

   Theorem (invariant Agree): for every program of the bounded grammar whose structured run stays
   inside the bounds, running the op list produced by Compile on the REPAIRED machine yields the
   same error class, caller variables, log rows and result sets as the structured semantics.
   Predictions (Emit): for the machine AS CODED the outcome and the deviation tags are emitted next
   to the structured expectation; binding A executes the program on the real engine.

   Two program sources:
   * exhaustive (Init/Next): every body over a small alphabet with at most XSize statement nodes and
     nesting XDepth; the first top-level statement is chosen in Init and the rest in Next (TLC computes
     initial states on one thread);
   * sampled (SInit/SNext, `-simulate`): a program decoded from a random tape drawn inside the step
     (TLC evaluates the initial predicate once per simulation run), nesting <= SDepth, <= SSize nodes. *)
EXTENDS ProcMachine, Json

CONSTANTS XDepth, XSize,       \* exhaustive bounds
          SDepth, SSize,       \* sampling bounds
          EmitOneIn            \* exhaustive mode: emit one program in EmitOneIn (1 = all)

VARIABLES prog, phase
vars == <<prog, phase>>

Lbl(d) == "l" \o ToString(d)
VX == Var("x")
VY == Var("y")
Blk(lbl, decls, hs, body) == [k |-> "block", lbl |-> lbl, decls |-> decls, hs |-> hs, body |-> body]
Decl(v, has, d) == [v |-> v, has |-> has, d |-> d]
Hnd(act, cond, s) == [act |-> act, cond |-> cond, s |-> s]
SetS(v, e) == [k |-> "set", v |-> v, e |-> e]
Arm(c, body) == [c |-> c, body |-> body]
Params(mx, my) == << [n |-> "x", m |-> mx], [n |-> "y", m |-> my] >>

\* ================================================================== sampled programs (random tape)
TapeLen == 160
T(t, p) == t[((p - 1) % TapeLen) + 1]
Ch(t, p, k) == T(t, p) % k
V2(t, p) == IF Ch(t, p, 2) = 0 THEN "x" ELSE "y"

\* expression: positions p .. p+2
GenE(t, p) ==
  LET c == Ch(t, p, 9) v == Var(V2(t, p + 1)) IN
  CASE c \in {0, 1} -> v
    [] c = 2 -> Lit(I(Ch(t, p + 2, 4)))
    [] c = 3 -> Lit(NULL)
    [] c \in {4, 5} -> Op2("plus", v, Lit(I(1 + Ch(t, p + 2, 2))))
    [] c = 6 -> Op2("times", v, Lit(I(2)))
    [] c = 7 -> Op2("minus", v, Var(V2(t, p + 2)))
    [] c = 8 -> Op2("plus", v, Var(V2(t, p + 2)))
\* condition: positions p .. p+3
GenC(t, p) ==
  LET c == Ch(t, p, 8) v == Var(V2(t, p + 1)) k == Lit(I(1 + Ch(t, p + 2, 3)))
      w == Var(V2(t, p + 3)) IN
  CASE c \in {0, 1} -> Op2("lt", v, k)
    [] c = 2 -> Op2("eq", v, w)
    [] c = 3 -> Op1("isnull", v)
    [] c = 4 -> Op1("not", Op2("lt", v, k))
    [] c = 5 -> Op2("and", Op2("lt", v, k), Op1("not", Op1("isnull", w)))
    [] c = 6 -> Op2("or", Op2("ge", v, k), Op1("isnull", w))
    [] c = 7 -> Op2("ne", v, w)

\* ctx = [loops, blks]: labels of the enclosing loops / labelled blocks
RECURSIVE GenS(_, _, _, _, _, _), GenSeq(_, _, _, _, _, _, _)

\* k statements (as far as the node budget n allows); result [ss, p, z] (z = nodes used)
GenSeq(t, p, lvl, n, ctx, k, acc) ==
  IF k = 0 \/ n <= acc.z THEN [ss |-> acc.ss, p |-> p, z |-> acc.z]
  ELSE LET r == GenS(t, p, lvl, n - acc.z, ctx, k) IN
       GenSeq(t, r.p, lvl, n, ctx, k - 1, [ss |-> Append(acc.ss, r.s), z |-> acc.z + r.z])

Body(t, p, lvl, n, ctx) == GenSeq(t, p + 1, lvl, n, ctx, 1 + Ch(t, p, 3), [ss |-> <<>>, z |-> 0])

\* one statement at nesting level lvl (compound statements allowed while lvl <= SDepth) within n nodes
GenS(t, p, lvl, n, ctx, kk) ==
  LET compound == lvl <= SDepth /\ n >= 2
      c == Ch(t, p, IF compound THEN 24 ELSE 10)
      simple(s) == [s |-> s, p |-> p + 6, z |-> 1]
      jl == ctx.loops \cup ctx.blks
      pick(xs) == LET sq == SelectSeq(<<Lbl(0), Lbl(1), Lbl(2), Lbl(3), Lbl(4), Lbl(5)>>, LAMBDA l : l \in xs) IN sq[1 + Ch(t, p + 1, Len(sq))]
      inner(kind) == [loops |-> IF kind = "loop" THEN ctx.loops \cup {Lbl(lvl)} ELSE ctx.loops,
                      blks |-> IF kind = "blk" THEN ctx.blks \cup {Lbl(lvl)} ELSE ctx.blks]
  IN
  CASE c \in {0, 1, 2} -> simple(SetS(V2(t, p + 1), GenE(t, p + 2)))
    [] c = 3 -> simple([k |-> "ins", e |-> GenE(t, p + 2)])
    [] c = 4 -> simple([k |-> "sel", e |-> GenE(t, p + 2)])
    [] c = 5 -> simple([k |-> "dup"])
    [] c = 6 -> simple([k |-> "sig"])
    [] c \in {7, 8} -> simple(IF jl = {} THEN [k |-> "ins", e |-> GenE(t, p + 2)]
                              ELSE [k |-> "leave", l |-> pick(jl)])
    [] c = 9 -> simple(IF ctx.loops = {} THEN SetS(V2(t, p + 1), GenE(t, p + 2))
                       ELSE [k |-> "iter", l |-> pick(ctx.loops)])
    [] c \in {10, 11, 12} ->      \* IF [ELSEIF] [ELSE]
         (LET b1 == Body(t, p + 5, lvl + 1, n - 1, ctx)
              two == Ch(t, p + 1, 3) = 0 /\ n - 1 - b1.z >= 1
              b2 == IF two THEN Body(t, b1.p + 4, lvl + 1, n - 1 - b1.z, ctx) ELSE [ss |-> <<>>, p |-> b1.p, z |-> 0]
              hasE == Ch(t, p + 2, 2) = 0 /\ n - 1 - b1.z - b2.z >= 1
              be == IF hasE THEN Body(t, b2.p, lvl + 1, n - 1 - b1.z - b2.z, ctx) ELSE [ss |-> <<>>, p |-> b2.p, z |-> 0]
          IN [s |-> [k |-> "if",
                     arms |-> <<Arm(GenC(t, p + 1), b1.ss)>> \o (IF two THEN <<Arm(GenC(t, b1.p), b2.ss)>> ELSE <<>>),
                     els |-> be.ss],
              p |-> be.p, z |-> 1 + b1.z + b2.z + be.z])
    [] c \in {13, 14} ->          \* CASE (simple or searched), with or without ELSE
         (LET simp == Ch(t, p + 1, 2) = 0
              b1 == Body(t, p + 6, lvl + 1, n - 1, ctx)
              hasE == Ch(t, p + 2, 2) = 0 /\ n - 1 - b1.z >= 1
              be == IF hasE THEN Body(t, b1.p, lvl + 1, n - 1 - b1.z, ctx) ELSE [ss |-> <<>>, p |-> b1.p, z |-> 0]
          IN [s |-> [k |-> "case", simple |-> simp,
                     e |-> IF simp THEN Var(V2(t, p + 3)) ELSE Lit(NULL),
                     arms |-> <<Arm(IF simp THEN Lit(I(Ch(t, p + 4, 3))) ELSE GenC(t, p + 2), b1.ss)>>,
                     els |-> be.ss],
              p |-> be.p, z |-> 1 + b1.z + be.z])
    [] c \in {15, 16} ->
         (LET b == Body(t, p + 5, lvl + 1, n - 1, inner("loop")) IN
          [s |-> [k |-> "while", lbl |-> Lbl(lvl), c |-> GenC(t, p + 1), body |-> b.ss], p |-> b.p, z |-> 1 + b.z])
    [] c \in {17, 18} ->
         (LET b == Body(t, p + 5, lvl + 1, n - 1, inner("loop")) IN
          [s |-> [k |-> "repeat", lbl |-> Lbl(lvl), c |-> GenC(t, p + 1), body |-> b.ss], p |-> b.p, z |-> 1 + b.z])
    [] c = 19 ->
         (LET b == Body(t, p + 1, lvl + 1, n - 1, inner("loop")) IN
          [s |-> [k |-> "loop", lbl |-> Lbl(lvl), body |-> b.ss], p |-> b.p, z |-> 1 + b.z])
    [] c \in {22, 23} ->          \* IF c THEN LEAVE / ITERATE END IF  (an ordinary IF when no label is in scope)
         (LET j == IF jl = {} THEN SetS(V2(t, p + 1), GenE(t, p + 2))
                   ELSE IF ctx.loops # {} /\ Ch(t, p + 5, 2) = 0 THEN [k |-> "iter", l |-> pick(ctx.loops)]
                   ELSE [k |-> "leave", l |-> pick(jl)]
          IN [s |-> [k |-> "if", arms |-> <<Arm(GenC(t, p + 6), <<j>>)>>, els |-> <<>>], p |-> p + 10, z |-> 2])
    [] c \in {20, 21} ->          \* nested block: label, declarations, one handler
         (LET lab == Ch(t, p + 1, 2) = 0
              dc == Ch(t, p + 2, 8)
              hc == Ch(t, p + 3, 5)
              b == Body(t, p + 10, lvl + 1, n - 1, IF lab THEN inner("blk") ELSE ctx)
              hs == CASE hc = 0 -> << Hnd("continue", "exc", SetS(V2(t, p + 4), GenE(t, p + 5))) >>
                      [] hc = 1 -> << Hnd("exit", "exc", SetS(V2(t, p + 4), GenE(t, p + 5))) >>
                      [] hc = 2 -> << Hnd("exit", "nf", SetS(V2(t, p + 4), GenE(t, p + 5))) >>
                      [] OTHER -> <<>>
              decls == CASE dc \in {0, 3, 4} -> << Decl(V2(t, p + 8), TRUE, I(Ch(t, p + 9, 4))) >>
                         [] dc = 1 -> << Decl(V2(t, p + 8), FALSE, NULL) >>
                         [] dc = 2 -> << Decl("x", TRUE, I(Ch(t, p + 9, 4))), Decl("y", TRUE, I(5)) >>
                         [] OTHER -> <<>>
          IN [s |-> Blk(IF lab THEN Lbl(lvl) ELSE "", decls, hs, b.ss), p |-> b.p, z |-> 1 + b.z])

Modes == <<"in", "out", "inout">>
ArgVals == <<NULL, I(0), I(1), I(2), I(7)>>
GenProg(t) ==
  LET hc == Ch(t, 3, 4)
      hs == CASE hc = 0 -> << Hnd("continue", "exc", SetS(V2(t, 4), GenE(t, 5))) >>
              [] hc = 1 -> << Hnd("exit", "exc", SetS(V2(t, 4), GenE(t, 5))) >>
              [] OTHER -> <<>>
      dc == Ch(t, 8, 8)
      decls == CASE dc \in {0, 3} -> << Decl(V2(t, 9), TRUE, I(Ch(t, 10, 4))) >>
                 [] dc = 1 -> << Decl(V2(t, 9), FALSE, NULL) >>
                 [] OTHER -> <<>>
      lab == Ch(t, 11, 3) = 0
      b == GenSeq(t, 14, 1, SSize, [loops |-> {}, blks |-> IF lab THEN {Lbl(0)} ELSE {}], 2 + Ch(t, 12, 4),
                  [ss |-> <<>>, z |-> 0])
  IN [params |-> Params(Modes[1 + Ch(t, 1, 3)], Modes[1 + Ch(t, 2, 3)]),
      \* the caller's value of an OUT argument is NULL in 3 of 4 programs
      args |-> << IF Modes[1 + Ch(t, 1, 3)] = "out" /\ Ch(t, 13, 4) # 0 THEN NULL ELSE ArgVals[1 + Ch(t, 6, 5)],
                  IF Modes[1 + Ch(t, 2, 3)] = "out" /\ Ch(t, 13, 4) # 0 THEN NULL ELSE ArgVals[1 + Ch(t, 7, 5)] >>,
      body |-> Blk(IF lab THEN Lbl(0) ELSE "", decls, hs, b.ss)]

Trivial == [params |-> Params("in", "in"), args |-> <<NULL, NULL>>, body |-> Blk("", <<>>, <<>>, <<>>)]

SInit == prog = Trivial /\ phase = 0
SNext ==
  /\ phase = 0
  /\ phase' = 1
  /\ prog' = GenProg([i \in 1..TapeLen |-> RandomElement(0..7919)])     \* 7920 = 2 * lcm(2,3,4,5,8,9,10,22)

\* ================================================================== exhaustive programs (small alphabet)
XE == {VX, VY, Op2("plus", VX, Lit(I(1)))}
XC == {Op2("lt", VX, Lit(I(2))), Op1("isnull", VY)}
XSimple(ctx) ==
  {SetS("x", e) : e \in XE \ {VX}} \cup {SetS("y", e) : e \in {VX, Lit(I(0))}}
  \cup {[k |-> "ins", e |-> VX], [k |-> "sel", e |-> VY], [k |-> "dup"], [k |-> "sig"]}
  \cup {[k |-> "leave", l |-> l] : l \in ctx.loops \cup ctx.blks}
  \cup {[k |-> "iter", l |-> l] : l \in ctx.loops}

\* statement sequences with EXACTLY n nodes (n >= 0), compound statements allowed while lvl <= XDepth
RECURSIVE XSeq(_, _, _), XStmt(_, _, _)
XSeq(lvl, n, ctx) ==
  IF n = 0 THEN {<<>>}
  ELSE UNION {{<<s>> \o r : s \in XStmt(lvl, k, ctx), r \in XSeq(lvl, n - k, ctx)} : k \in 1..n}
XInner(lvl, ctx, kind) == [loops |-> IF kind = "loop" THEN ctx.loops \cup {Lbl(lvl)} ELSE ctx.loops,
                           blks |-> IF kind = "blk" THEN ctx.blks \cup {Lbl(lvl)} ELSE ctx.blks]
XHs == {<<>>, << Hnd("continue", "exc", SetS("y", Lit(I(9)))) >>, << Hnd("exit", "exc", SetS("y", Lit(I(9)))) >>}
XDecls == {<<>>, << Decl("x", TRUE, I(5)) >>}
XStmt(lvl, n, ctx) ==
  IF n = 1 THEN XSimple(ctx)
  ELSE IF lvl > XDepth THEN {}
  ELSE
    {[k |-> "if", arms |-> <<Arm(c, b)>>, els |-> <<>>] : c \in XC, b \in XSeq(lvl + 1, n - 1, ctx)}
    \cup UNION {{[k |-> "if", arms |-> <<Arm(c, b)>>, els |-> e] : c \in {Op2("lt", VX, Lit(I(2)))},
                    b \in XSeq(lvl + 1, j, ctx), e \in XSeq(lvl + 1, n - 1 - j, ctx)} : j \in 1..(n - 2)}
    \cup {[k |-> "case", simple |-> TRUE, e |-> VX, arms |-> <<Arm(Lit(I(1)), b)>>, els |-> <<>>] : b \in XSeq(lvl + 1, n - 1, ctx)}
    \cup {[k |-> "while", lbl |-> Lbl(lvl), c |-> c, body |-> b] : c \in {Op2("lt", VX, Lit(I(2)))},
             b \in XSeq(lvl + 1, n - 1, XInner(lvl, ctx, "loop"))}
    \cup {[k |-> "repeat", lbl |-> Lbl(lvl), c |-> c, body |-> b] : c \in XC,
             b \in XSeq(lvl + 1, n - 1, XInner(lvl, ctx, "loop"))}
    \cup {[k |-> "loop", lbl |-> Lbl(lvl), body |-> b] : b \in XSeq(lvl + 1, n - 1, XInner(lvl, ctx, "loop"))}
    \cup {Blk(Lbl(lvl), d, h, b) : d \in XDecls, h \in XHs, b \in XSeq(lvl + 1, n - 1, XInner(lvl, ctx, "blk"))}

Ctx0 == [loops |-> {}, blks |-> {}]
XHead == UNION {XStmt(1, k, Ctx0) : k \in 1..XSize}
RECURSIVE Nodes(_), NodesSeq(_)
NodesSeq(ss) == IF ss = <<>> THEN 0 ELSE Nodes(Head(ss)) + NodesSeq(Tail(ss))
Nodes(s) == CASE s.k \in {"if", "case"} -> 1 + NodesSeq(s.arms[1].body) + NodesSeq(s.els)
              [] s.k \in {"while", "repeat", "loop", "block"} -> 1 + NodesSeq(s.body)
              [] OTHER -> 1
\* the sets of tails are computed once (TLC re-evaluates recursive definitions at every use)
XTails == [n \in 0..(XSize - 1) |-> UNION {XSeq(1, j, Ctx0) : j \in 0..n}]
ASSUME TLCSet(7, XTails)

XProg(ss) == [params |-> Params("inout", "out"), args |-> <<I(0), NULL>>,
              body |-> Blk("", <<>>, << Hnd("continue", "exc", SetS("y", Lit(I(8)))) >>, ss)]

Init == phase = 0 /\ \E s \in XHead : prog = XProg(<<s>>)
Next ==
  /\ phase = 0
  /\ phase' = 1
  /\ \E tl \in TLCGet(7)[XSize - Nodes(prog.body.body[1])], top \in 1..3 :
        prog' = [XProg(prog.body.body \o tl) EXCEPT
                   !.body.hs = IF top = 1 THEN <<>> ELSE IF top = 2 THEN @ ELSE << Hnd("exit", "exc", SetS("y", Lit(I(8)))) >>]

\* ================================================================== theorem and emission
Agree ==
  phase = 1 =>
    LET s == RunS(prog) IN
    s.excl \/ (LET mf == RunM(prog, Fixed) IN ~mf.excl /\ mf.tags = {} /\ ObsAll(mf) = ObsAll(s))

Case(p) ==
  LET s == RunS(p) IN
  IF s.excl THEN [excl |-> TRUE]
  ELSE LET mc == RunM(p, Coded) IN
       [excl |-> FALSE, prog |-> p, exp |-> Obs(s), mach |-> Obs(mc), mexcl |-> mc.excl,
        tags |-> mc.tags, nt |-> s.nt, steps |-> mc.steps, nops |-> mc.nops]

\* exhaustive mode emits one program in EmitOneIn, and every program that contains an ITERATE (the rarest
\* control transfer of the enumeration: label resolution of ITERATE is only exercised by these)
RECURSIVE HasIter(_), HasIterSeq(_)
HasIterSeq(ss) == \E i \in DOMAIN ss : HasIter(ss[i])
HasIter(s) == CASE s.k = "iter" -> TRUE
                [] s.k \in {"if", "case"} -> HasIterSeq(s.arms[1].body) \/ HasIterSeq(s.els)
                [] s.k \in {"while", "repeat", "loop", "block"} -> HasIterSeq(s.body)
                [] OTHER -> FALSE
Emit == (phase' = 1 /\ (EmitOneIn = 1 \/ RandomElement(1..EmitOneIn) = 1 \/ HasIter(prog'.body)))
          => PrintT("CASE " \o ToJson(Case(prog')))
=============================================================================
