INIT Init
NEXT Next
CONSTANTS
  Preset = "cons"
  K = {0, 1}
  MaxRows = 3
  MaxVal = 3
  Modes2 = {"plain", "ignore"}
  MaxId = 6
VIEW View
CONSTRAINT Bounded
INVARIANTS InvPKUnique InvUniqueIdx InvNotNull InvChecks InvGenerated InvAutoCovers
PROPERTIES AutoIncMonotone FailedStmtNoEffect
CHECK_DEADLOCK FALSE
