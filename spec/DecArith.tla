------------------------------ MODULE DecArith ------------------------------
(* C25 (and the number model of C26 / C27).  Arbitrary-precision signed decimal arithmetic on DIGIT
   SEQUENCES.  TLC's integers are 32-bit, so nothing here relies on them for VALUES: native
   integers only appear as single digits, carries (< 100), lengths and scales.

   A magnitude is a sequence of digits 0..9, LEAST significant digit first, without
   most-significant zeros; zero is <<>>.
   A number is [n : BOOLEAN, m : magnitude, s : Nat] and denotes (IF n THEN -1 ELSE 1) * m * 10^-s.
   There is no negative zero: m = <<>> implies n = FALSE (Mk enforces it).

   Exported: DAdd, DSub, DMul, DNeg, DCmp (DecCmp), TDiv / TMod (truncating toward zero, remainder
   with the sign of the dividend), Str (canonical decimal text with exactly s fraction digits),
   the integer type table (IntTypes, TMin, TMax, InType), two's-complement wrap diagnostics
   (WrapS / WrapU), and the result rule of the SQL operators  + - * unary- DIV % /  (Outcome). *)
EXTENDS Integers, Sequences, TLC

\* ------------------------------------------------------------------ magnitudes
Tl(q) == IF q = <<>> THEN q ELSE Tail(q)
Hd(q) == IF q = <<>> THEN 0 ELSE q[1]

RECURSIVE Strip(_)
Strip(m) == IF m = <<>> THEN m
            ELSE IF m[Len(m)] = 0 THEN Strip(SubSeq(m, 1, Len(m) - 1)) ELSE m

RECURSIVE AddC(_, _, _)          \* a + b + c (c a carry 0..1)
AddC(a, b, c) ==
  IF a = <<>> /\ b = <<>> THEN (IF c = 0 THEN <<>> ELSE <<c>>)
  ELSE LET t == Hd(a) + Hd(b) + c IN <<t % 10>> \o AddC(Tl(a), Tl(b), t \div 10)
AddM(a, b) == AddC(a, b, 0)

RECURSIVE CmpFrom(_, _, _)
CmpFrom(a, b, i) == IF i = 0 THEN 0
                    ELSE IF a[i] < b[i] THEN -1
                    ELSE IF a[i] > b[i] THEN 1
                    ELSE CmpFrom(a, b, i - 1)
CmpM(a, b) == IF Len(a) < Len(b) THEN -1
              ELSE IF Len(a) > Len(b) THEN 1
              ELSE CmpFrom(a, b, Len(a))

RECURSIVE SubB(_, _, _)          \* a - b - borrow, for a >= b
SubB(a, b, br) ==
  IF a = <<>> THEN <<>>
  ELSE LET d == a[1] - Hd(b) - br IN
       IF d < 0 THEN <<d + 10>> \o SubB(Tail(a), Tl(b), 1) ELSE <<d>> \o SubB(Tail(a), Tl(b), 0)
SubM(a, b) == Strip(SubB(a, b, 0))                       \* requires CmpM(a, b) >= 0

RECURSIVE MulDC(_, _, _)         \* a * digit + carry
MulDC(a, d, c) ==
  IF a = <<>> THEN (IF c = 0 THEN <<>> ELSE <<c>>)
  ELSE LET p == a[1] * d + c IN <<p % 10>> \o MulDC(Tail(a), d, p \div 10)
MulD(a, d) == IF d = 0 THEN <<>> ELSE MulDC(a, d, 0)

RECURSIVE MulM(_, _)             \* schoolbook: a * b = a * b[1] + 10 * (a * Tail(b))
MulM(a, b) ==
  IF a = <<>> \/ b = <<>> THEN <<>>
  ELSE LET rest == MulM(a, Tail(b)) IN
       AddM(MulD(a, b[1]), IF rest = <<>> THEN <<>> ELSE <<0>> \o rest)

Zeros(k) == [i \in 1..k |-> 0]
Shift(m, k) == IF m = <<>> THEN m ELSE Zeros(k) \o m        \* m * 10^k

\* long division, most significant digit of a first; b # <<>>.  One quotient digit = how often b can
\* be subtracted from the running remainder (at most 9 times).
RECURSIVE CountSub(_, _, _)
CountSub(r, b, k) == IF CmpM(r, b) < 0 THEN [k |-> k, r |-> r] ELSE CountSub(SubM(r, b), b, k + 1)
RECURSIVE DivStep(_, _, _, _)
DivStep(a, b, i, st) ==
  IF i = 0 THEN st
  ELSE LET c == CountSub(Strip(<<a[i]>> \o st.r), b, 0)
       IN DivStep(a, b, i - 1, [q |-> <<c.k>> \o st.q, r |-> c.r])
DivModM(a, b) == LET st == DivStep(a, b, Len(a), [q |-> <<>>, r |-> <<>>]) IN [q |-> Strip(st.q), r |-> st.r]

RECURSIVE Pow2R(_)
Pow2R(k) == IF k = 0 THEN <<1>>
            ELSE IF k % 2 = 0 THEN LET h == Pow2R(k \div 2) IN MulM(h, h)
            ELSE MulD(Pow2R(k - 1), 2)
\* TLC re-evaluates a definition at every use (it only pre-computes constants that involve no RECURSIVE
\* operator), so the tables of this module are computed once at start-up and kept in TLC registers
\* 21..23 (values set while the assumptions are checked are inherited by every worker).
Pow2Tab0 == [k \in 0..64 |-> Pow2R(k)]
Pow2(k) == TLCGet(21)[k]

\* small native naturals <-> magnitudes (lengths, years, bit widths ... never 64-bit values)
RECURSIVE FromNat(_)
FromNat(i) == IF i = 0 THEN <<>> ELSE <<i % 10>> \o FromNat(i \div 10)
RECURSIVE ToNat(_)
ToNat(m) == IF m = <<>> THEN 0 ELSE m[1] + 10 * ToNat(Tail(m))        \* requires Len(m) <= 9

\* ------------------------------------------------------------------ signed decimals
Mk(n, m, s) == [n |-> (n /\ m # <<>>), m |-> m, s |-> s]
IntV(n, m) == Mk(n, m, 0)
Zero == IntV(FALSE, <<>>)
IsZero(x) == x.m = <<>>
Max(i, j) == IF i > j THEN i ELSE j
Rescale(x, s) == Mk(x.n, Shift(x.m, s - x.s), s)             \* requires s >= x.s; exact

DNeg(x) == Mk(~x.n, x.m, x.s)
DAdd(x, y) ==
  LET s == Max(x.s, y.s)
      a == Shift(x.m, s - x.s)
      b == Shift(y.m, s - y.s)
  IN IF x.n = y.n THEN Mk(x.n, AddM(a, b), s)
     ELSE IF CmpM(a, b) >= 0 THEN Mk(x.n, SubM(a, b), s) ELSE Mk(y.n, SubM(b, a), s)
DSub(x, y) == DAdd(x, DNeg(y))
DMul(x, y) == Mk(x.n # y.n, MulM(x.m, y.m), x.s + y.s)

DCmp(x, y) ==                                              \* -1 / 0 / 1, by value (1.0 = 1)
  LET s == Max(x.s, y.s)
      a == Shift(x.m, s - x.s)
      b == Shift(y.m, s - y.s)
  IN IF x.n /\ ~y.n THEN -1
     ELSE IF ~x.n /\ y.n THEN 1
     ELSE IF x.n THEN CmpM(b, a) ELSE CmpM(a, b)
DecCmp(x, y) == DCmp(x, y)

\* truncated division: the integer q and the remainder r with x = q * y + r, |r| < |y|, r has the
\* sign of x (or is the non-negative zero); y # 0
TDivMod(x, y) ==
  LET s == Max(x.s, y.s)
      a == Shift(x.m, s - x.s)
      b == Shift(y.m, s - y.s)
      qr == DivModM(a, b)
  IN [q |-> IntV(x.n # y.n, qr.q), r |-> Mk(x.n, qr.r, s)]
TDiv(x, y) == TDivMod(x, y).q
TMod(x, y) == TDivMod(x, y).r

\* ------------------------------------------------------------------ text
DC == <<"0", "1", "2", "3", "4", "5", "6", "7", "8", "9">>
RECURSIVE MStr(_)                 \* digits, most significant first
MStr(m) == IF m = <<>> THEN "" ELSE MStr(Tail(m)) \o DC[m[1] + 1]
Str(x) ==
  LET pad == IF Len(x.m) <= x.s THEN x.m \o Zeros(x.s + 1 - Len(x.m)) ELSE x.m
      ip == SubSeq(pad, x.s + 1, Len(pad))
      fp == SubSeq(pad, 1, x.s)
  IN (IF x.n THEN "-" ELSE "") \o MStr(ip) \o (IF x.s > 0 THEN "." \o MStr(fp) ELSE "")

\* a number written most significant digit first (how the enumeration modules write constants)
RECURSIVE Rev(_)
Rev(q) == IF q = <<>> THEN q ELSE Rev(Tail(q)) \o <<q[1]>>
Dec(neg, msd, s) == Mk(neg, Strip(Rev(msd)), s)

\* ------------------------------------------------------------------ integer types
One == <<1>>
IntTypes == {"i8", "u8", "i16", "u16", "i24", "u24", "i32", "u32", "i64", "u64"}
Width(t) == CASE t \in {"i8", "u8"} -> 8 [] t \in {"i16", "u16"} -> 16 [] t \in {"i24", "u24"} -> 24
              [] t \in {"i32", "u32"} -> 32 [] t \in {"i64", "u64", "S", "U"} -> 64
Unsigned(t) == t \in {"u8", "u16", "u24", "u32", "u64", "U"}
AllT == IntTypes \cup {"S", "U"}
TMaxTab0 == [t \in AllT |-> IF Unsigned(t) THEN IntV(FALSE, SubM(Pow2(Width(t)), One)) ELSE IntV(FALSE, SubM(Pow2(Width(t) - 1), One))]
TMinTab0 == [t \in AllT |-> IF Unsigned(t) THEN Zero ELSE IntV(TRUE, Pow2(Width(t) - 1))]
ASSUME /\ TLCSet(21, Pow2Tab0)
       /\ TLCSet(22, TMaxTab0)
       /\ TLCSet(23, TMinTab0)
TMax(t) == TLCGet(22)[t]
TMin(t) == TLCGet(23)[t]
InType(x, t) == x.s = 0 /\ DCmp(x, TMin(t)) >= 0 /\ DCmp(x, TMax(t)) <= 0
SqlName(t) == CASE t = "i8" -> "TINYINT" [] t = "u8" -> "TINYINT UNSIGNED" [] t = "i16" -> "SMALLINT"
                [] t = "u16" -> "SMALLINT UNSIGNED" [] t = "i24" -> "MEDIUMINT" [] t = "u24" -> "MEDIUMINT UNSIGNED"
                [] t = "i32" -> "INT" [] t = "u32" -> "INT UNSIGNED" [] t = "i64" -> "BIGINT" [] t = "u64" -> "BIGINT UNSIGNED"
                [] t = "S" -> "SIGNED" [] t = "U" -> "UNSIGNED"

\* what a two's-complement machine word of w bits would hold (diagnostic labels only)
WrapU(x, w) == LET r == DivModM(x.m, Pow2(w)).r IN
               IF x.n /\ r # <<>> THEN IntV(FALSE, SubM(Pow2(w), r)) ELSE IntV(FALSE, r)
WrapS(x, w) == LET u == WrapU(x, w) IN
               IF CmpM(u.m, Pow2(w - 1)) >= 0 THEN IntV(TRUE, SubM(Pow2(w), u.m)) ELSE u

\* ------------------------------------------------------------------ the SQL operators
(* An operand is [t, x] with t an integer type tag ("S"/"U" = CAST AS SIGNED / UNSIGNED, or a column
   type of IntTypes) or "D" (DECIMAL(p, s), x.s = s).  Integer arithmetic is carried out in BIGINT:
   the result type of + - * DIV is UNSIGNED when an operand is unsigned, else SIGNED; unary minus is
   SIGNED; % takes the type of the dividend and always fits.  The property (C25): the engine returns
   the exact value when it fits the result type; when it does not fit, either the out-of-range error
   (MySQL) or still the exact value in a wider type -- never anything else. *)
Ops2 == {"plus", "minus", "times", "intdiv", "mod", "div"}
IsIntT(t) == t # "D"
Exact(op, x, y) == CASE op = "plus" -> DAdd(x, y) [] op = "minus" -> DSub(x, y) [] op = "times" -> DMul(x, y)
                     [] op = "intdiv" -> TDiv(x, y) [] op = "mod" -> TMod(x, y) [] op = "neg" -> DNeg(x)
ResultT(op, ta, tb) ==
  IF op = "neg" THEN (IF IsIntT(ta) THEN "S" ELSE "D")
  ELSE IF op = "intdiv" THEN (IF Unsigned(ta) \/ Unsigned(tb) THEN "U" ELSE "S")       \* also for DECIMAL operands
  ELSE IF ~IsIntT(ta) \/ ~IsIntT(tb) THEN "D"
  ELSE IF op = "mod" THEN (IF Unsigned(ta) THEN "U" ELSE "S")
  ELSE IF Unsigned(ta) \/ Unsigned(tb) THEN "U" ELSE "S"
Fits(x, rt) == rt = "D" \/ InType(x, rt)

\* [exp: the MySQL outcome, accept: every outcome the property allows, fit, exact,
\*  rscale: the scale the DECIMAL result type declares (max of the scales for + -, their sum for *), "-" if n/a]
NatStr(k) == Str(IntV(FALSE, FromNat(k)))
Outcome(op, a, b) ==
  IF op \in {"div", "intdiv", "mod"} /\ IsZero(b.x)
  THEN [exp |-> "NULL", accept |-> {"NULL"}, fit |-> TRUE, exact |-> "NULL", rscale |-> "-"]
  ELSE LET e == Exact(op, a.x, b.x)
           rt == ResultT(op, a.t, b.t)
           rs == IF rt = "D" /\ op \in {"plus", "minus", "times"} THEN NatStr(e.s) ELSE "-"
       IN IF Fits(e, rt) THEN [exp |-> Str(e), accept |-> {Str(e)}, fit |-> TRUE, exact |-> Str(e), rscale |-> rs]
          ELSE [exp |-> "OutOfRange", accept |-> {"OutOfRange", Str(e)}, fit |-> FALSE, exact |-> Str(e), rscale |-> rs]

\* Diagnostic labels for a disagreement (never part of the verdict): the values a silently wrapping
\* implementation would return, and the value obtained when an unsigned operand above the signed
\* maximum is first forced into the signed range.
ClampS(x) == IF DCmp(x, TMax("S")) > 0 THEN TMax("S") ELSE x
Diag(op, a, b) ==
  IF op \in {"div", "intdiv", "mod"} /\ IsZero(b.x) THEN [wrap |-> {}, clamp |-> "-", nz |-> "-"]
  ELSE LET e == Exact(op, a.x, b.x)
           ints == IsIntT(a.t) /\ IsIntT(b.t)
           big == ints /\ (DCmp(a.x, TMax("S")) > 0 \/ DCmp(b.x, TMax("S")) > 0)
           rt == ResultT(op, a.t, b.t)
       IN [wrap |-> IF rt = "D" THEN {}
                    ELSE IF op = "neg" THEN {Str(WrapS(e, w)) : w \in {8, 16, 32, 64}}
                    ELSE IF Fits(e, rt) /\ InType(e, "S") THEN {}          \* a wrapped word would equal e
                    ELSE {Str(WrapS(e, 64)), Str(WrapU(e, 64))},
           clamp |-> IF big THEN Str(WrapS(Exact(op, ClampS(a.x), ClampS(b.x)), 64)) ELSE "-",
           nz |-> IF IsZero(e) THEN "-" \o Str(e) ELSE "-"]                   \* a negative zero
=============================================================================
