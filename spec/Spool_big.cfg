\* C35 thorough: external cancel at any step, every fault kind; everything except "ok => complete".
CONSTANTS
  BatchSize = 3
  RowCap = 3
  ResCap = 2
  MaxRows = 8
  Kills = TRUE
  Timeouts = TRUE
  CtxAwareIter = TRUE
  Faults = TRUE
INIT Init
NEXT Next
INVARIANTS TypeOK InOrder BatchSizes MoreFlags Conservation ErrorReturned NoSendOnClosed Joined
PROPERTY RefinesNoOk
CHECK_DEADLOCK TRUE
