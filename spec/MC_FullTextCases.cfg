INIT SInit
NEXT SNext
INVARIANT SModelOK
ACTION_CONSTRAINT Emit
CHECK_DEADLOCK FALSE
