CONSTANTS
  AcctUsers = {"alice", ""}
  AcctHosts = {"localhost", "127.0.0.1", "%", "10.%", "127.0.0.%"}
  Plugins = {"native", "sha2"}
  LockKinds = {"no", "create", "update"}
  MaxAccts = 2
  AttemptUsers = {"alice", "bob"}
  Lens = {1, 8, 19, 21, 40}
  NulLens = {1, 19, 20, 21, 32}
  PadLens = {1, 12}
INIT Init
NEXT Next
INVARIANTS TypeOK AcceptSound MalformedRejected EmptyOnlyPasswordless ExactAccepted WrongRejected NoAccountRejected AllLockedRejected AcceptComplete ExactFirst
ACTION_CONSTRAINT Emit
CHECK_DEADLOCK FALSE
