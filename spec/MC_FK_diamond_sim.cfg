INIT Init
NEXT SimNext
CONSTANTS
  Graph = "diamond"
  KP = {0, 1}
  KC = {0, 1}
  ActSet = "six"
  PerKey = TRUE
  Toggle = FALSE
CONSTRAINT StepBound
ACTION_CONSTRAINT Emit
CHECK_DEADLOCK FALSE
