---------------------------- MODULE MC_StoreConv ----------------------------
(* C27: TLC enumerates (type, value, mode) over boundary-heavy domains, checks the laws of the store
   relation on the specification itself (Idempotent, outcome well-formedness, strict/IGNORE coherence)
   and prints every case with the expected outcome class and stored value for the engine (binding A).
   The type is chosen in Init, value and mode in Next. *)
EXTENDS StoreConv, Json

CONSTANTS Big          \* FALSE: quick domains;  TRUE: longer strings, more decimal types

I(i) == IntVal(IF i < 0 THEN DNeg(NatV(0 - i)) ELSE NatV(i))
D(neg, msd, s) == DecVal(Dec(neg, msd, s))
S(cps) == StrVal(cps)
Nm(q) == NamesVal(q)
One1 == IntV(FALSE, One)

\* ---- types -----------------------------------------------------------------------------------------
Members == <<"a", "b", "c">>
StrLens == IF Big THEN {1, 3, 4} ELSE {1, 3}
Types == {IntTy(t) : t \in IntTypes}
         \cup {StrTy(k, n) : k \in {"char", "varchar", "binary", "varbinary"}, n \in StrLens}
         \cup {EnumTy(Members), SetTy(Members), YearTy}
         \cup {BitTy(n) : n \in {1, 4, 8, 16}}
         \cup {DecTy(5, 2), DecTy(3, 0), DecTy(4, 4)} \cup (IF Big THEN {DecTy(10, 3), DecTy(20, 10)} ELSE {})

\* ---- values per type -------------------------------------------------------------------------------
IntVals(t) == {IntVal(x) : x \in {DSub(TMin(t), One1), TMin(t), DAdd(TMin(t), One1), DNeg(One1), Zero, One1,
                                   DSub(TMax(t), One1), TMax(t), DAdd(TMax(t), One1),
                                   DAdd(TMax("u64"), One1), DSub(TMin("i64"), One1)}}
              \cup {S(<<49, 50>>), S(<<45, 55>>), S(<<97, 98, 99>>)}                 \* '12', '-7', 'abc'
              \cup {LET m == TMax(t).m IN StrVal([i \in 1..Len(m) |-> 48 + m[Len(m) + 1 - i]])}      \* 'MAX' as text
\* strings over a small alphabet (a, e-acute = U+00E9, space), all lengths 0 .. n+1; the crisp region
\* excludes over-long strings that end in a space and CHAR values that end in a space
RECURSIVE Strings(_, _)
Strings(alpha, len) == IF len = 0 THEN {<<>>} ELSE {<<c>> \o q : c \in alpha, q \in Strings(alpha, len - 1)}
UpTo(alpha, n) == UNION {Strings(alpha, l) : l \in 0..n}
EndsInSpace(q) == q # <<>> /\ q[Len(q)] = 32
StrVals(ty) ==
  LET alpha == IF ty.k \in {"binary", "varbinary"} THEN {97, 98} ELSE {97, 233, 32}
      all == UpTo(alpha, ty.n + 1)
  IN {S(q) : q \in {q \in all : /\ ~(Len(q) > ty.n /\ EndsInSpace(q))
                               /\ ~(ty.k = "char" /\ EndsInSpace(q))}}
EnumVals == {Nm(<<m>>) : m \in {"a", "b", "c", "z"}} \cup {I(i) : i \in {-1, 0, 1, 2, 3, 4}}
SetVals == {Nm(q) : q \in UpTo({"a", "b", "c", "z"}, 2)} \cup {Nm(<<"c", "b", "a">>), Nm(<<"a", "z", "c">>)}
           \cup {I(i) : i \in {-1, 0, 1, 5, 7, 8}}
BitVals(n) == {IntVal(x) : x \in {Zero, One1, IntV(FALSE, SubM(Pow2(n), <<2>>)), IntV(FALSE, SubM(Pow2(n), One)),
                                  IntV(FALSE, Pow2(n)), IntV(FALSE, AddM(Pow2(n), One)), TMax("u64")}}
YearVals == {I(i) : i \in {-1, 0, 1, 69, 70, 99, 100, 1900, 1901, 1902, 2000, 2154, 2155, 2156, 9999}}
            \cup {S(<<48>>), S(<<48, 48>>), S(<<54, 57>>), S(<<55, 48>>), S(<<49, 57, 48, 49>>), S(<<50, 49, 53, 53>>),
                  S(<<50, 49, 53, 54>>), S(<<49, 57, 48, 48>>)}                       \* '0' '00' '69' '70' '1901' '2155' '2156' '1900'
DecVals == {D(FALSE, <<>>, 0), D(FALSE, <<1, 0, 0, 5>>, 3), D(FALSE, <<1, 0, 0, 4>>, 3), D(TRUE, <<1, 0, 0, 5>>, 3),
            D(FALSE, <<9, 9, 9, 9, 9>>, 2), D(FALSE, <<9, 9, 9, 9, 9, 4>>, 3), D(FALSE, <<9, 9, 9, 9, 9, 5>>, 3),
            D(TRUE, <<9, 9, 9, 9, 9, 5>>, 3), D(FALSE, <<1, 0, 0, 0>>, 0), D(TRUE, <<1, 0, 0, 0>>, 0),
            D(FALSE, <<1>>, 3), D(FALSE, <<1, 2, 3, 4, 5, 6, 7, 8, 9, 0>>, 2), D(FALSE, <<1, 5>>, 1), D(FALSE, <<2, 5>>, 1),
            D(TRUE, <<5>>, 1), D(FALSE, <<4>>, 1), D(FALSE, <<9, 9, 9>>, 0), D(FALSE, <<9, 9, 9, 5>>, 1), D(FALSE, <<9, 9, 9, 4>>, 1),
            D(FALSE, <<9, 9, 9, 9>>, 4), D(FALSE, <<9, 9, 9, 9, 5>>, 5), D(FALSE, <<1>>, 0), D(TRUE, <<1, 2, 3, 4, 5>>, 5),
            D(FALSE, <<1, 2, 3, 4, 5, 6, 7, 8, 9, 0, 1, 2, 3, 4, 5, 6, 7, 8, 9, 0, 5>>, 11)}
ValsOf(ty) == CASE ty.k = "int" -> IntVals(ty.t)
                [] ty.k \in {"char", "varchar", "binary", "varbinary"} -> StrVals(ty)
                [] ty.k = "enum" -> EnumVals [] ty.k = "set" -> SetVals
                [] ty.k = "bit" -> BitVals(ty.n) [] ty.k = "year" -> YearVals [] ty.k = "decimal" -> DecVals
\* numeric SET values beyond the mask are only specified in strict mode
InRegion(ty, v, mode) == ~(ty.k = "set" /\ v.k = "int" /\ mode = "ignore" /\ Store(ty, v, "strict").o = "Rejected")

VARIABLES ty, v, mode, ph
vars == <<ty, v, mode, ph>>
Init == ty \in Types /\ v = StrVal(<<>>) /\ mode = "none" /\ ph = 0
Next ==
  /\ ph = 0
  /\ ph' = 1
  /\ ty' = ty
  /\ v' \in ValsOf(ty)
  /\ mode' \in {"strict", "ignore"}
  /\ InRegion(ty, v', mode')

\* ---- laws of the specification itself -------------------------------------------------------------
Laws ==
  ph = 1 =>
    LET out == Store(ty, v, mode)
        st == Store(ty, v, "strict")
        ig == Store(ty, v, "ignore")
    IN /\ out.o \in {"Stored", "Rejected", "Adjusted"}
       /\ Idempotent(ty, v, mode)
       /\ (mode = "ignore" => out.o # "Rejected")
       /\ (InRegion(ty, v, "ignore") =>
             /\ (st.o = "Stored" <=> ig.o = "Stored")                 \* the modes agree on representable values,
             /\ (st.o = "Stored" => ig = st)
             /\ (st.o = "Rejected" <=> (ig.o = "Adjusted" /\ st.o # "Adjusted"))   \* IGNORE adjusts exactly what strict rejects,
             /\ (st.o = "Adjusted" => ig = st))                       \* and reported rounding is the same in both

\* ---- cases for the engine (binding A) ----------------------------------------------------------------
Quote(m) == "'" \o m \o "'"
RECURSIVE JoinQ(_)
JoinQ(q) == IF Len(q) = 1 THEN Quote(q[1]) ELSE Quote(q[1]) \o "," \o JoinQ(Tail(q))
DDL(t) == CASE t.k = "int" -> SqlName(t.t)
            [] t.k = "char" -> "CHAR(" \o NatStr(t.n) \o ")"
            [] t.k = "varchar" -> "VARCHAR(" \o NatStr(t.n) \o ")"
            [] t.k = "binary" -> "BINARY(" \o NatStr(t.n) \o ")"
            [] t.k = "varbinary" -> "VARBINARY(" \o NatStr(t.n) \o ")"
            [] t.k = "enum" -> "ENUM(" \o JoinQ(t.members) \o ")"
            [] t.k = "set" -> "SET(" \o JoinQ(t.members) \o ")"
            [] t.k = "bit" -> "BIT(" \o NatStr(t.n) \o ")"
            [] t.k = "year" -> "YEAR"
            [] t.k = "decimal" -> "DECIMAL(" \o NatStr(t.p) \o "," \o NatStr(t.s) \o ")"
\* the value as the harness needs it to write the SQL literal: number text / code points / comma list
JVal(x) == [k |-> x.k, num |-> (IF x.k \in {"int", "dec"} THEN Str(x.x) ELSE ""), cps |-> x.cps, list |-> Join(x.names)]
JOut(o) == [o |-> o.o, kind |-> o.v.kind, s |-> o.v.s, cps |-> o.v.cps]
Emit == PrintT("CASE " \o ToJson([ddl |-> DDL(ty'), tk |-> ty'.k, val |-> JVal(v'), mode |-> mode', exp |-> JOut(Store(ty', v', mode'))]))
=============================================================================
