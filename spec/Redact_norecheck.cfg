CONSTANTS
  Clients = {c1, c2}
  Lexemes = {a}
  MaxCalls = 1
  Recheck = FALSE
INIT MInit
NEXT MNext
INVARIANTS TypeOK LockOK Injective CountersMatch RepliesAgree NoOrphans
PROPERTIES Stable
CHECK_DEADLOCK FALSE
