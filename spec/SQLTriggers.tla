----------------------------- MODULE SQLTriggers -----------------------------
(* Triggers over the tables of SQLTables (C23).

   A trigger (as created) is a record
     [name, tid, table, timing "before"|"after", event "insert"|"update"|"delete", rel ""|"follows"|"precedes", other,
      body]
   whose body is a BEGIN .. END block: a sequence of 1..3 statements  [k, col, e, t, vals, op]  from the templates
     k = "audit"   INSERT INTO audit (tid, o1..ow, n1..nw) VALUES (<tid>, OLD.c1.., NEW.c1..)   (NULL where OLD / NEW
                   does not exist); the audit table has an AUTO_INCREMENT sequence column, so the ORDER in which
                   statements ran is observable
     k = "set"     SET NEW.c<col> = e          (BEFORE INSERT / UPDATE only)
     k = "signal"  IF e THEN SIGNAL SQLSTATE '45000'
     k = "uvar"    SET @cnt = @cnt + 1         (a user variable counts the executions)
     k = "ins"     INSERT INTO t (c1..cw) VALUES (vals)                     -- DML on ANOTHER table t, which has its
     k = "upd"     UPDATE t SET c3 = COALESCE(c3,0) + 1 WHERE c1 <op> e ORDER BY c1      own BEFORE / AFTER triggers
     k = "del"     DELETE FROM t WHERE c1 <op> e ORDER BY c1                             (op: "eq" | "ge")
   where e / vals are expressions over the row  OLD.c1..OLD.cw ++ NEW.c1..NEW.cw  (ordinals 1..2w) of the firing
   row; they are evaluated when the statement runs and the resulting statement is an ordinary SQLTables statement.

   MySQL rules modelled:
     * triggers of one (table, timing, event) run in creation order, FOLLOWS x / PRECEDES x placing a new trigger
       directly after / before x (ExecOrder);
     * per affected row, in the statement's processing order: the BEFORE triggers in order (each sees the NEW left
       by the previous one), then the row edit with the final NEW (NOT NULL / CHECK / key checks apply to it), then
       the AFTER triggers in order (they see the stored row); the statements of a body run in their order;
     * every body runs exactly once per affected row;
     * CASCADES: a DML statement inside a trigger body is a statement like any other: the triggers of ITS table
       fire per row it affects, exactly as for a top-level statement (BEFORE / edit / AFTER, their own bodies
       included, to any depth), wherever the statement stands in the body;
     * an error in any row at any depth (SIGNAL, duplicate key, NOT NULL, ..) fails the whole top-level statement:
       all tables AND the audit table are unchanged (user variables are not transactional: @cnt is left open).
   Outside the fragment (not generated): rows an UPDATE leaves unchanged, UPDATE / DELETE of several rows without
   ORDER BY over the full primary key, REPLACE / ON DUPLICATE KEY UPDATE / IGNORE, trigger bodies that write the
   table whose statement fired them (MySQL rejects them), cyclic cascades.                                      *)
EXTENDS SQLTables

\* ------------------------------------------------------------------ execution order
InsertAt(seq, pos, x) == SubSeq(seq, 1, pos - 1) \o <<x>> \o SubSeq(seq, pos, Len(seq))
NamePos(seq, n) == IF \E i \in DOMAIN seq : seq[i].name = n THEN CHOOSE i \in DOMAIN seq : seq[i].name = n ELSE 0

\* created: all triggers in creation order; result: those of (table, timing, event) in execution order
RECURSIVE Place(_, _, _)
Place(created, k, acc) ==
  IF k > Len(created) THEN acc
  ELSE LET tr == created[k]
           p == IF tr.rel = "" THEN 0 ELSE NamePos(acc, tr.other)
       IN Place(created, k + 1,
                IF p = 0 THEN Append(acc, tr)
                ELSE IF tr.rel = "follows" THEN InsertAt(acc, p + 1, tr) ELSE InsertAt(acc, p, tr))
ExecOrder(created, table, timing, event) ==
  Place(SelectSeq(created, LAMBDA tr : tr.table = table /\ tr.timing = timing /\ tr.event = event), 1, <<>>)

\* ------------------------------------------------------------------ the statements of a body
NullRowW(w) == [i \in 1..w |-> NULL]
AuditEntry(tid, old, new) == <<I(tid)>> \o old \o new

cRef(i) == ECol(i, "none")
PkOrder == <<Ord(1, FALSE)>>
\* the ordinary statement a DML template denotes for the firing row (env = OLD ++ NEW)
Instantiate(b, env) ==
  CASE b.k = "ins" -> SInsert(b.t, "plain", [i \in DOMAIN b.vals |-> i], << [i \in DOMAIN b.vals |-> Cell(ELit(EvRow(b.vals[i], env)))] >>, <<>>)
    [] b.k = "upd" -> SUpdate(b.t, FALSE, <<SetItem(3, EOp2("plus", [k |-> "fn", f |-> "coalesce", a |-> <<cRef(3), ELit(I(0))>>], ELit(I(1))))>>,
                              EOp2(b.op, cRef(1), ELit(EvRow(b.e, env))), PkOrder, -1)
    [] b.k = "del" -> SDelete(b.t, EOp2(b.op, cRef(1), ELit(EvRow(b.e, env))), PkOrder, -1)

\* cx = [tabs (table -> table definition), trigs (all triggers as created)]
\* s  = [db (table -> rows), aud (audit entries appended by the top-level statement), cnt (@cnt), err]
RECURSIVE TStmt(_, _, _), RunBlock(_, _, _, _, _), RunTrigs(_, _, _, _, _)

\* the statements k.. of trigger tr's body for the row (old, x.new); x = [new, s]
RunBlock(cx, tr, k, old, x) ==
  IF k > Len(tr.body) \/ x.s.err # "" THEN x
  ELSE LET b == tr.body[k]
           env == old \o x.new
       IN RunBlock(cx, tr, k + 1, old,
            CASE b.k = "audit" -> [x EXCEPT !.s.aud = Append(@, AuditEntry(tr.tid, old, x.new))]
              [] b.k = "set" -> [x EXCEPT !.new[b.col] = EvRow(b.e, env)]
              [] b.k = "signal" -> (IF IsTrue(EvRow(b.e, env)) THEN [x EXCEPT !.s.err = "signal"] ELSE x)
              [] b.k = "uvar" -> [x EXCEPT !.s.cnt = @ + 1]
              [] b.k \in {"ins", "upd", "del"} -> [x EXCEPT !.s = TStmt(cx, Instantiate(b, env), x.s)])

\* the triggers k.. of trs (in execution order) for one row
RunTrigs(cx, trs, k, old, x) ==
  IF k > Len(trs) \/ x.s.err # "" THEN x
  ELSE RunTrigs(cx, trs, k + 1, old, RunBlock(cx, trs[k], 1, old, x))

\* ------------------------------------------------------------------ statements (top-level or inside a body)
TInsert(cx, stmt, s0) ==
  LET t == stmt.t
      T == cx.tabs[t]
      w == NCols(T)
      bef == ExecOrder(cx.trigs, t, "before", "insert")
      aft == ExecOrder(cx.trigs, t, "after", "insert")
      RECURSIVE Go(_, _)
      Go(k, s) ==
        IF k > Len(stmt.rows) \/ s.err # "" THEN s
        ELSE LET b0 == BaseRow(T, stmt.cols, stmt.rows[k])
                 x1 == RunTrigs(cx, bef, 1, NullRowW(w), [new |-> b0, s |-> s])
             IN IF x1.s.err # "" THEN x1.s
                ELSE LET ins == InsRow2(T, [rows |-> x1.s.db[t], hi |-> 0, first |-> 0, aff |-> 0, err |-> ""], "plain", <<>>, x1.new, 0)
                         i1 == CHOOSE z \in ins : TRUE
                     IN IF i1.err # "" THEN [x1.s EXCEPT !.err = i1.err]
                        ELSE LET stored == i1.rows[Len(i1.rows)]
                                 x2 == RunTrigs(cx, aft, 1, NullRowW(w), [new |-> stored, s |-> [x1.s EXCEPT !.db[t] = i1.rows]])
                             IN Go(k + 1, x2.s)
  IN Go(1, s0)

TUpdate(cx, stmt, s0) ==
  LET t == stmt.t
      T == cx.tabs[t]
      bef == ExecOrder(cx.trigs, t, "before", "update")
      aft == ExecOrder(cx.trigs, t, "after", "update")
      sel == Targets(T, s0.db[t], stmt.where, stmt.order, stmt.limit)
      RECURSIVE Go(_, _)
      Go(k, s) ==
        IF k > Len(sel) \/ s.err # "" THEN s
        ELSE LET i == sel[k]
                 old == s.db[t][i]
                 new0 == Regen(T, ApSets(stmt.set, 1, old, <<>>))
                 x1 == RunTrigs(cx, bef, 1, old, [new |-> new0, s |-> s])
                 nw == Regen(T, x1.new)
                 rows == x1.s.db[t]
                 errs == (IF NotNullViol(T, nw) THEN {"notnull"} ELSE {}) \cup (IF CheckViol(T, nw) THEN {"check"} ELSE {})
                 coll == \E j \in DOMAIN rows : j # i /\ Conf(T, rows[j], nw)
             IN IF x1.s.err # "" THEN x1.s
                ELSE IF errs # {} THEN [x1.s EXCEPT !.err = CHOOSE c \in errs : TRUE]
                ELSE IF coll THEN [x1.s EXCEPT !.err = "dup"]
                ELSE LET x2 == RunTrigs(cx, aft, 1, old, [new |-> nw, s |-> [x1.s EXCEPT !.db[t][i] = nw]])
                     IN Go(k + 1, x2.s)
  IN Go(1, s0)

TDelete(cx, stmt, s0) ==
  LET t == stmt.t
      T == cx.tabs[t]
      w == NCols(T)
      rows0 == s0.db[t]
      bef == ExecOrder(cx.trigs, t, "before", "delete")
      aft == ExecOrder(cx.trigs, t, "after", "delete")
      sel == Targets(T, rows0, stmt.where, stmt.order, stmt.limit)
      RECURSIVE Go(_, _)
      Go(k, s) ==
        IF k > Len(sel) \/ s.err # "" THEN s
        ELSE LET old == rows0[sel[k]]
                 x1 == RunTrigs(cx, bef, 1, old, [new |-> NullRowW(w), s |-> s])
             IN IF x1.s.err # "" THEN x1.s
                ELSE Go(k + 1, RunTrigs(cx, aft, 1, old, [new |-> NullRowW(w), s |-> x1.s]).s)
      r == Go(1, s0)
  \* (the statement's own table is written by nobody else while it runs)
  IN IF r.err # "" THEN r ELSE [r EXCEPT !.db[t] = RemoveIdx(rows0, Range(sel))]

TStmt(cx, stmt, s) ==
  CASE stmt.k = "insert" -> TInsert(cx, stmt, s)
    [] stmt.k = "update" -> TUpdate(cx, stmt, s)
    [] stmt.k = "delete" -> TDelete(cx, stmt, s)

\* the outcome of a top-level statement from the tables db and @cnt = cnt:
\* [db, aud (audit entries appended), cnt, kind, class]
TOutcome(cx, stmt, db, cnt) ==
  LET r == TStmt(cx, stmt, [db |-> db, aud |-> <<>>, cnt |-> cnt, err |-> ""])
  IN IF r.err # "" THEN [db |-> db, aud |-> <<>>, cnt |-> r.cnt, kind |-> "err", class |-> r.err]
     ELSE [db |-> r.db, aud |-> r.aud, cnt |-> r.cnt, kind |-> "ok", class |-> ""]
=============================================================================
