----------------------------- MODULE SQLTriggers -----------------------------
(* Triggers over the tables of SQLTables (C23).

   A trigger (as created) is a record
     [name, tid, timing "before"|"after", event "insert"|"update"|"delete", rel ""|"follows"|"precedes", other,
      body [k, col, e]]
   on the base table; bodies come from three templates
     k = "audit"   INSERT INTO audit (tid, o1..ow, n1..nw) VALUES (<tid>, OLD.c1.., NEW.c1..)   (NULL where
                   OLD / NEW does not exist); the audit table has an AUTO_INCREMENT sequence column, so
                   the ORDER in which bodies ran is observable
     k = "set"     SET NEW.c<col> = e          (BEFORE INSERT / UPDATE only)
     k = "signal"  IF e THEN SIGNAL SQLSTATE '45000'
   where e is an expression over the row  OLD.c1..OLD.cw ++ NEW.c1..NEW.cw  (ordinals 1..2w).

   MySQL rules modelled:
     * triggers of one (timing, event) run in creation order, FOLLOWS x / PRECEDES x placing a new trigger
       directly after / before x (ExecOrder);
     * per affected row, in the statement's processing order: the BEFORE triggers in order (each sees
       the NEW left by the previous one), then the row edit with the final NEW (NOT NULL / CHECK / key
       checks apply to it), then the AFTER triggers in order (they see the stored row);
     * every body runs exactly once per affected row;
     * an error in any row (SIGNAL, duplicate key, NOT NULL, ..) fails the whole statement: the base
       table AND the audit table are unchanged.
   Outside the fragment (not generated): rows an UPDATE leaves unchanged, UPDATE / DELETE of several
   rows without ORDER BY over the full primary key, REPLACE / ON DUPLICATE KEY UPDATE / IGNORE,
   triggers that modify the base table.                                                                 *)
EXTENDS SQLTables

\* ------------------------------------------------------------------ execution order
InsertAt(seq, pos, x) == SubSeq(seq, 1, pos - 1) \o <<x>> \o SubSeq(seq, pos, Len(seq))
NamePos(seq, n) == IF \E i \in DOMAIN seq : seq[i].name = n THEN CHOOSE i \in DOMAIN seq : seq[i].name = n ELSE 0

\* created: all triggers of the table in creation order; result: those of (timing, event) in execution order
RECURSIVE Place(_, _, _)
Place(created, k, acc) ==
  IF k > Len(created) THEN acc
  ELSE LET tr == created[k]
           p == IF tr.rel = "" THEN 0 ELSE NamePos(acc, tr.other)
       IN Place(created, k + 1,
                IF p = 0 THEN Append(acc, tr)
                ELSE IF tr.rel = "follows" THEN InsertAt(acc, p + 1, tr) ELSE InsertAt(acc, p, tr))
ExecOrder(created, timing, event) ==
  Place(SelectSeq(created, LAMBDA tr : tr.timing = timing /\ tr.event = event), 1, <<>>)

\* ------------------------------------------------------------------ running the bodies for one row
NullRowW(w) == [i \in 1..w |-> NULL]
AuditEntry(tid, old, new) == <<I(tid)>> \o old \o new

\* x = [new, aud (sequence of audit entries appended so far), err]
RECURSIVE RunBodies(_, _, _, _)
RunBodies(trs, k, old, x) ==
  IF k > Len(trs) \/ x.err # "" THEN x
  ELSE LET b == trs[k].body
           env == old \o x.new
       IN RunBodies(trs, k + 1, old,
            CASE b.k = "audit" -> [x EXCEPT !.aud = Append(@, AuditEntry(trs[k].tid, old, x.new))]
              [] b.k = "set" -> [x EXCEPT !.new[b.col] = EvRow(b.e, env)]
              [] b.k = "signal" -> (IF IsTrue(EvRow(b.e, env)) THEN [x EXCEPT !.err = "signal"] ELSE x))

\* ------------------------------------------------------------------ statements
\* s = [rows, aud, err]
TInsert(T, created, stmt, rows0) ==
  LET w == NCols(T)
      bef == ExecOrder(created, "before", "insert")
      aft == ExecOrder(created, "after", "insert")
      RECURSIVE Go(_, _)
      Go(k, s) ==
        IF k > Len(stmt.rows) \/ s.err # "" THEN s
        ELSE LET b0 == BaseRow(T, stmt.cols, stmt.rows[k])
                 x1 == RunBodies(bef, 1, NullRowW(w), [new |-> b0, aud |-> s.aud, err |-> ""])
             IN IF x1.err # "" THEN [s EXCEPT !.err = x1.err]
                ELSE LET ins == InsRow2(T, [rows |-> s.rows, hi |-> 0, first |-> 0, aff |-> 0, err |-> ""], "plain", <<>>, x1.new, 0)
                         i1 == CHOOSE z \in ins : TRUE
                     IN IF i1.err # "" THEN [s EXCEPT !.err = i1.err]
                        ELSE LET stored == i1.rows[Len(i1.rows)]
                                 x2 == RunBodies(aft, 1, NullRowW(w), [new |-> stored, aud |-> x1.aud, err |-> ""])
                             IN Go(k + 1, [rows |-> i1.rows, aud |-> x2.aud, err |-> x2.err])
  IN Go(1, [rows |-> rows0, aud |-> <<>>, err |-> ""])

TUpdate(T, created, stmt, rows0) ==
  LET w == NCols(T)
      bef == ExecOrder(created, "before", "update")
      aft == ExecOrder(created, "after", "update")
      sel == Targets(T, rows0, stmt.where, stmt.order, stmt.limit)
      RECURSIVE Go(_, _)
      Go(k, s) ==
        IF k > Len(sel) \/ s.err # "" THEN s
        ELSE LET i == sel[k]
                 old == s.rows[i]
                 new0 == Regen(T, ApSets(stmt.set, 1, old, <<>>))
                 x1 == RunBodies(bef, 1, old, [new |-> new0, aud |-> s.aud, err |-> ""])
                 nw == Regen(T, x1.new)
                 errs == (IF NotNullViol(T, nw) THEN {"notnull"} ELSE {}) \cup (IF CheckViol(T, nw) THEN {"check"} ELSE {})
                 coll == \E j \in DOMAIN s.rows : j # i /\ Conf(T, s.rows[j], nw)
             IN IF x1.err # "" THEN [s EXCEPT !.err = x1.err]
                ELSE IF errs # {} THEN [s EXCEPT !.err = CHOOSE c \in errs : TRUE]
                ELSE IF coll THEN [s EXCEPT !.err = "dup"]
                ELSE LET x2 == RunBodies(aft, 1, old, [new |-> nw, aud |-> x1.aud, err |-> ""])
                     IN Go(k + 1, [rows |-> [s.rows EXCEPT ![i] = nw], aud |-> x2.aud, err |-> x2.err])
  IN Go(1, [rows |-> rows0, aud |-> <<>>, err |-> ""])

TDelete(T, created, stmt, rows0) ==
  LET w == NCols(T)
      bef == ExecOrder(created, "before", "delete")
      aft == ExecOrder(created, "after", "delete")
      sel == Targets(T, rows0, stmt.where, stmt.order, stmt.limit)
      RECURSIVE Go(_, _)
      Go(k, s) ==
        IF k > Len(sel) \/ s.err # "" THEN s
        ELSE LET old == rows0[sel[k]]
                 x1 == RunBodies(bef, 1, old, [new |-> NullRowW(w), aud |-> s.aud, err |-> ""])
             IN IF x1.err # "" THEN [s EXCEPT !.err = x1.err]
                ELSE LET x2 == RunBodies(aft, 1, old, [new |-> NullRowW(w), aud |-> x1.aud, err |-> ""])
                     IN Go(k + 1, [s EXCEPT !.aud = x2.aud, !.err = x2.err])
      r == Go(1, [rows |-> rows0, aud |-> <<>>, err |-> ""])
  IN IF r.err # "" THEN r ELSE [r EXCEPT !.rows = RemoveIdx(rows0, Range(sel))]

\* the outcome of a statement on the base table with rows rows0: [rows, aud (appended audit entries), kind, class]
TOutcome(T, created, stmt, rows0) ==
  LET r == CASE stmt.k = "insert" -> TInsert(T, created, stmt, rows0)
             [] stmt.k = "update" -> TUpdate(T, created, stmt, rows0)
             [] stmt.k = "delete" -> TDelete(T, created, stmt, rows0)
  IN IF r.err # "" THEN [rows |-> rows0, aud |-> <<>>, kind |-> "err", class |-> r.err]
     ELSE [rows |-> r.rows, aud |-> r.aud, kind |-> "ok", class |-> ""]
=============================================================================
