\* C41: as Privileges_sim.cfg, Persist/Reload steps instead of SET ROLE steps
\* random histories (-simulate), invariants checked along them, every step printed by Emit
CONSTANTS
  Users = {"u1", "u2"}
  Roles = {"r1"}
  Dbs = {"d1", "d2"}
  Tbls = {"t1", "t2"}
  Privs = {"SELECT", "INSERT", "UPDATE", "DELETE", "CREATE", "DROP", "ALTER", "INDEX", "EXECUTE", "CREATE USER", "GRANT OPTION", "SUPER"}
  DynPrivs = {"REPLICATION_SLAVE_ADMIN", "CLONE_ADMIN"}
  MaxSet = 2
  WithAll = TRUE
  MaxStep = 100
  InitAll = TRUE
INIT Init
NEXT NextSimReload
VIEW View
INVARIANTS TypeOK NoOrphans HierarchyMonotone DynGrantOptionIsGlobal
PROPERTIES ReloadIdentity DropForgets
ACTION_CONSTRAINT Emit
CHECK_DEADLOCK FALSE
