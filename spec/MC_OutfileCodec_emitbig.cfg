CONSTANTS
  Core = FALSE
  Long = TRUE
  Escs = {92, 33}
INIT SInit
NEXT SNext
INVARIANT ModelOK
ACTION_CONSTRAINT Emit
CHECK_DEADLOCK FALSE
