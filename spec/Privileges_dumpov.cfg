\* C39: every transition out of the states in which a user and a role hold different table-level
\* privileges on one table (role granted to the user or not): InitOv, one step (NextFirst), printed by Emit
CONSTANTS
  Users = {"u1", "u2"}
  Roles = {"r1"}
  Dbs = {"d1"}
  Tbls = {"t1", "t2"}
  Privs = {"SELECT", "INSERT", "DROP", "GRANT OPTION", "SUPER"}
  DynPrivs = {"REPLICATION_SLAVE_ADMIN"}
  MaxSet = 1
  WithAll = TRUE
  MaxStep = 2
  InitAll = TRUE
INIT InitOv
NEXT NextFirst
VIEW View
INVARIANTS TypeOK NoOrphans
ACTION_CONSTRAINT Emit
CHECK_DEADLOCK FALSE
