----------------------------- MODULE ErrGuard -----------------------------
(* C48.  errguard.Go(g, fn) / errguard.RecoverAndLog(what).

   "A function run through the engine's guarded goroutine helper never crashes the process: a
    panic, with any panic value, becomes an error returned by the group, and an ordinary returned
    error is propagated unchanged."

   A configuration is a tree of at most MaxTasks tasks.  Task i is  [p, m, e]:
     p  parent (0 = spawned by the main goroutine, else an earlier task that spawns it when it starts)
     m  "group"  run with errguard.Go on the group its parent runs in (the root group for p = 0)
        "inner"  run with errguard.Go on a fresh group of its parent; the parent Waits for that group
                 before it ends and, when the parent itself ends nil, returns that Wait's result
        "log"    a plain goroutine whose first deferred call is errguard.RecoverAndLog (a leaf)
     e  how its own function ends: [k |-> "nil"], [k |-> "err"] (returns its own distinct error
        value) or [k |-> "panic", v |-> kind of panic value].
   Tasks complete in any order (all schedules).  A group remembers the FIRST non-nil result of its
   members (errgroup); which member that is, is left to the schedule.  There is no action in which
   the process dies or in which Wait does not return.

   Results are [k, t]: "nil", "err" of task t (the very error value t returned), "panic" of task t
   (an error converted from t's panic, mentioning the panic value).  *)
EXTENDS Integers, Sequences, FiniteSets, TLC, Json

CONSTANTS MaxTasks,       \* <= 4
          PanicKinds,     \* kinds of panic values, e.g. {"string", "error", "nilmap", "nil"}
          Modes           \* spawn modes in use, a subset of {"group", "inner", "log"} containing "group"

Range(f) == {f[i] : i \in DOMAIN f}

NilEnd == [k |-> "nil", v |-> ""]
ErrEnd == [k |-> "err", v |-> ""]
Endings == {NilEnd, ErrEnd} \cup {[k |-> "panic", v |-> pk] : pk \in PanicKinds}

Nil == [k |-> "nil", t |-> 0]
Res(kind, i) == [k |-> kind, t |-> i]

\* ---- well-formed configurations ---------------------------------------------------------------
\* the tasks that may be appended to configuration c
NextTasks(c) ==
    {[p |-> 0, m |-> md, e |-> en] : md \in Modes \cap {"group", "log"}, en \in Endings}
    \cup {[p |-> pp, m |-> md, e |-> en] : pp \in {j \in DOMAIN c : c[j].m # "log"},
                                          md \in Modes, en \in Endings}
OkTask(t) == t.m = "log" => t.e.k # "err"       \* a plain goroutine has no error to return
ValidCfg(c) == \A i \in DOMAIN c :
                  /\ c[i].p \in 0..(i - 1)
                  /\ c[i].e \in Endings
                  /\ c[i].m \in (IF c[i].p = 0 THEN Modes \cap {"group", "log"} ELSE Modes)
                  /\ (c[i].p # 0 => c[c[i].p].m # "log")
                  /\ OkTask(c[i])

VARIABLES cfg,      \* the configuration
          phase,    \* "build" -> "run" -> "waited"
          done,     \* tasks whose goroutine has finished
          gerr,     \* gerr[g]: first non-nil result recorded by group g (0 = root, i = inner group of task i)
          ret,      \* what the root Wait returned
          logged    \* "log" tasks whose panic RecoverAndLog recovered and logged
vars == <<cfg, phase, done, gerr, ret, logged>>

T == DOMAIN cfg
\* the group a non-"log" task reports to
RECURSIVE Grp(_)
Grp(i) == IF cfg[i].p = 0 THEN 0
          ELSE IF cfg[i].m = "inner" THEN cfg[i].p
          ELSE Grp(cfg[i].p)
Members(g) == {i \in T : cfg[i].m # "log" /\ Grp(i) = g}
LogTasks == {i \in T : cfg[i].m = "log"}

\* ---- the declarative statement: what Wait may return --------------------------------------------
\* the non-nil results task i can report to its group ({} = it reports nil)
RECURSIVE Produced(_)
Produced(i) == IF cfg[i].e.k = "panic" THEN {Res("panic", i)}
               ELSE IF cfg[i].e.k = "err" THEN {Res("err", i)}
               ELSE UNION {Produced(c) : c \in Members(i)}
Allowed == LET P == UNION {Produced(i) : i \in Members(0)}
           IN IF P = {} THEN {Nil} ELSE P
AllNil == \A i \in T \ LogTasks : cfg[i].e.k = "nil"
ExpectedLogs == {i \in LogTasks : cfg[i].e.k = "panic"}

\* ---- the machine: all schedules ------------------------------------------------------------------
NoErr == [g \in 0..MaxTasks |-> Nil]

Init == /\ cfg \in {<<>>} \cup {<<t>> : t \in {x \in NextTasks(<<>>) : OkTask(x)}}
        /\ phase = "build" /\ done = {} /\ gerr = NoErr /\ ret = Nil /\ logged = {}

Extend == /\ phase = "build" /\ Len(cfg) < MaxTasks
          /\ \E t \in NextTasks(cfg) : OkTask(t) /\ cfg' = Append(cfg, t)
          /\ UNCHANGED <<phase, done, gerr, ret, logged>>

\* main spawns the root tasks; every task spawns its children when it starts
Launch == /\ phase = "build"
          /\ phase' = "run"
          /\ UNCHANGED <<cfg, done, gerr, ret, logged>>

\* what task i hands to its group when its goroutine finishes
ResultOf(i) == IF cfg[i].e.k = "panic" THEN Res("panic", i)       \* the panic became an error
               ELSE IF cfg[i].e.k = "err" THEN Res("err", i)      \* its own error, unchanged
               ELSE gerr[i]                                        \* nil, or its inner group's Wait

Finish(i) ==
    /\ phase \in {"run", "waited"}
    /\ i \in T \ done
    /\ Members(i) \subseteq done                       \* a parent first Waits for its inner group
    /\ done' = done \cup {i}
    /\ IF cfg[i].m = "log"
       THEN /\ logged' = IF cfg[i].e.k = "panic" THEN logged \cup {i} ELSE logged
            /\ gerr' = gerr
       ELSE /\ logged' = logged
            /\ gerr' = IF ResultOf(i).k # "nil" /\ gerr[Grp(i)].k = "nil"
                       THEN [gerr EXCEPT ![Grp(i)] = ResultOf(i)]
                       ELSE gerr
    /\ UNCHANGED <<cfg, phase, ret>>

WaitReturns ==
    /\ phase = "run"
    /\ Members(0) \subseteq done
    /\ phase' = "waited"
    /\ ret' = gerr[0]
    /\ UNCHANGED <<cfg, done, gerr, logged>>

Next == Extend \/ Launch \/ WaitReturns \/ \E i \in 1..MaxTasks : Finish(i)
Spec == Init /\ [][Next]_vars

\* ---- model-level checks ------------------------------------------------------------------------
TypeOK == /\ ValidCfg(cfg) /\ Len(cfg) <= MaxTasks
          /\ phase \in {"build", "run", "waited"}
          /\ done \subseteq T /\ logged \subseteq LogTasks
WaitOutcome == phase = "waited" =>
                  /\ ret \in Allowed
                  /\ (ret = Nil) <=> AllNil
                  /\ (ret.k = "err" => cfg[ret.t].e.k = "err")          \* an error is the task's own
                  /\ (ret.k = "panic" => cfg[ret.t].e.k = "panic")      \* every panic surfaces as an error
Terminal == phase = "waited" /\ done = T
LogOutcome == Terminal => logged = ExpectedLogs
\* Wait always returns and every goroutine finishes: a non-terminal running state can move
Progress == phase = "run" => \/ Members(0) \subseteq done
                             \/ \E i \in T \ done : Members(i) \subseteq done
AllFinish == (phase = "waited" /\ done # T) => \E i \in T \ done : Members(i) \subseteq done

\* ---- dumps -------------------------------------------------------------------------------------
RECURSIVE Key(_)
Key(c) == IF c = <<>> THEN ""
          ELSE Key(SubSeq(c, 1, Len(c) - 1)) \o ToString(c[Len(c)].p) \o c[Len(c)].m \o "/"
               \o c[Len(c)].e.k \o ":" \o c[Len(c)].e.v \o ";"

\* state CONSTRAINT: one CASE line per configuration (its freshly launched state), one END line per
\* terminal state (which results the schedules actually produce)
Emit == /\ (phase = "run" /\ done = {}) =>
              PrintT("CASE " \o ToJson([key |-> Key(cfg), tasks |-> cfg, allowed |-> Allowed,
                                        logs |-> ExpectedLogs]))
        /\ Terminal => PrintT("END " \o ToJson([key |-> Key(cfg), ret |-> ret]))
=============================================================================
