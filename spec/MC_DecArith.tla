---------------------------- MODULE MC_DecArith ----------------------------
(* C25.  Algebraic sanity of the digit-sequence arithmetic of DecArith against TLC's native
   integers on every pair of small operands (|x|, |y| <= R; with scales 0..2 for |x|, |y| <= RS):
   + - * compare, truncated division / remainder, text, wrap diagnostics, type membership.
   One invariant over the state graph {(x, y, sx, sy)}; x is chosen in Init, the rest in Next.
   The enumeration of engine cases is MC_DecArithCases.tla. *)
EXTENDS DecArith, TLC

CONSTANTS R, RS

\* ------------------------------------------------------------------ (1) laws
Abs(i) == IF i < 0 THEN -i ELSE i
Sgn(i) == IF i < 0 THEN -1 ELSE IF i > 0 THEN 1 ELSE 0
N(i) == IntV(i < 0, FromNat(Abs(i)))
NS(i, s) == Mk(i < 0, FromNat(Abs(i)), s)
P10(k) == IF k = 0 THEN 1 ELSE IF k = 1 THEN 10 ELSE 100
NTDiv(i, j) == Sgn(i) * Sgn(j) * (Abs(i) \div Abs(j))
NTMod(i, j) == i - j * NTDiv(i, j)

VARIABLES vx, vy, sx, sy, ph
lvars == <<vx, vy, sx, sy, ph>>
LInit == vx \in (0 - R)..R /\ vy = 0 /\ sx = 0 /\ sy = 0 /\ ph = 0
LNext ==
  /\ ph = 0
  /\ ph' = 1
  /\ vx' = vx
  /\ vy' \in (0 - R)..R
  /\ IF Abs(vx) <= RS /\ Abs(vy') <= RS THEN sx' \in 0..2 /\ sy' \in 0..2 ELSE sx' = 0 /\ sy' = 0

IntLaws ==
  /\ Str(N(vx)) = ToString(vx)
  /\ DAdd(N(vx), N(vy)) = N(vx + vy)
  /\ DSub(N(vx), N(vy)) = N(vx - vy)
  /\ DMul(N(vx), N(vy)) = N(vx * vy)
  /\ DCmp(N(vx), N(vy)) = Sgn(vx - vy)
  /\ DNeg(N(vx)) = N(0 - vx)
  /\ (vy # 0 => /\ TDiv(N(vx), N(vy)) = N(NTDiv(vx, vy))
               /\ TMod(N(vx), N(vy)) = N(NTMod(vx, vy)))
  /\ WrapU(N(vx), 8) = N(vx % 256)
  /\ WrapS(N(vx), 8) = N(((vx + 128) % 256) - 128)
  /\ InType(N(vx), "i8") = (vx \in -128..127)
  /\ InType(N(vx), "u8") = (vx \in 0..255)
  /\ InType(N(vx * vy), "i16") = (vx * vy \in -32768..32767)
ScaledLaws ==
  LET s == Max(sx, sy)
      xs == vx * P10(s - sx)
      ys == vy * P10(s - sy)
      X == NS(vx, sx)
      Y == NS(vy, sy)
  IN /\ DAdd(X, Y) = NS(xs + ys, s)
     /\ DSub(X, Y) = NS(xs - ys, s)
     /\ DMul(X, Y) = NS(vx * vy, sx + sy)
     /\ DCmp(X, Y) = Sgn(xs - ys)
     /\ (vy # 0 => /\ TDiv(X, Y) = N(NTDiv(xs, ys))
                  /\ TMod(X, Y) = NS(NTMod(xs, ys), s))
     /\ Len(Str(X)) >= sx + 1 + (IF sx > 0 THEN 1 ELSE 0)
Laws == ph = 1 => IntLaws /\ ScaledLaws

\* well-known constants the type table must reproduce (checked once, at start-up)
ASSUME /\ Str(TMax("i64")) = "9223372036854775807"
       /\ Str(TMin("i64")) = "-9223372036854775808"
       /\ Str(TMax("u64")) = "18446744073709551615"
       /\ Str(TMax("i32")) = "2147483647"
       /\ Str(TMax("u24")) = "16777215"
       /\ Str(TMin("i8")) = "-128"
       /\ Str(TMax("u16")) = "65535"
       /\ Str(TMin("u32")) = "0"
ASSUME /\ Str(Dec(TRUE, <<9, 9, 9, 9>>, 2)) = "-99.99"
       /\ Str(Dec(FALSE, <<5>>, 1)) = "0.5"
       /\ Str(Dec(FALSE, <<>>, 2)) = "0.00"
       /\ Str(DMul(Dec(TRUE, <<9, 9, 9, 9>>, 2), Dec(FALSE, <<1, 2, 3, 4, 5, 6, 7, 8, 9, 0>>, 2))) = "-1234444433.2110"
       /\ Str(WrapS(DAdd(TMax("i64"), IntV(FALSE, One)), 64)) = "-9223372036854775808"
       /\ Str(TMod(IntV(TRUE, One), IntV(TRUE, One))) = "0"
       /\ Str(TDiv(IntV(TRUE, <<7>>), IntV(FALSE, <<2>>))) = "-3"
=============================================================================
