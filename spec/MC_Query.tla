------------------------------ MODULE MC_Query ------------------------------
(* Bounded enumeration over SQLSem: all predicates of depth <= 2 over two integer columns x all
   tables of <= 2 rows over {NULL, 0, 1}.  TLC checks the design-level laws behind C02/C05/C06 as
   invariants of the evaluator itself (the TRUE/FALSE/NULL partition, NOT push-down under 3VL,
   ON == WHERE for inner joins, NOT IN with a NULL is never TRUE, correlated EXISTS == IN,
   IN list == disjunction, BETWEEN == pair of comparisons) and emits (table, queries) cases that are
   executed on the real engine and validated by Trace_Query (binding A).

   The table is chosen in Init and the predicate in Next because TLC computes initial states on a
   single thread. *)
EXTENDS SQLSem, Json

Vals == {NULL, I(0), I(1)}
Col(i) == [k |-> "col", d |-> 0, i |-> i, c |-> "none"]
OCol(i) == [k |-> "col", d |-> 1, i |-> i, c |-> "none"]
Lit(v) == [k |-> "lit", v |-> v]
Op1(o, x) == [k |-> "op", op |-> o, a |-> <<x>>]
Op2(o, x, y) == [k |-> "op", op |-> o, a |-> <<x, y>>]
Op3(o, x, y, z) == [k |-> "op", op |-> o, a |-> <<x, y, z>>]
InL(x, neg, l) == [k |-> "in", e |-> x, list |-> l, neg |-> neg]
SubQ(kind, e, q) == [k |-> "subq", kind |-> kind, e |-> e, q |-> q]

Atoms == {Col(1), Col(2)} \cup {Lit(v) : v \in Vals}
E1 == Atoms
      \cup {Op1(o, x) : o \in {"not", "isnull", "istrue", "isnotfalse"}, x \in Atoms}
      \cup {Op2(o, x, y) : o \in {"and", "or", "eq", "lt", "nseq", "xor"}, x \in Atoms, y \in Atoms}
      \cup {InL(Col(1), n, <<y, z>>) : n \in BOOLEAN, y \in Atoms, z \in {Lit(NULL), Lit(I(1))}}
      \cup {Op3("between", Col(1), y, z) : y \in {Lit(I(0)), Col(2)}, z \in {Lit(I(1)), Lit(NULL), Col(2)}}
CONSTANT Full      \* TRUE: connectives over E1 x E1 (thorough); FALSE: over E1 x Atoms (quick)
E2 == E1 \cup {Op2(o, x, y) : o \in {"and", "or"}, x \in E1, y \in (IF Full THEN E1 ELSE Atoms)} \cup {Op1("not", x) : x \in E1}

RowsDom == [1..2 -> Vals]
TablesDom == UNION {[1..n -> RowsDom] : n \in 0..2}

VARIABLES tb, p, phase
vars == <<tb, p, phase>>

URows == << <<I(1), NULL>>, <<I(0), I(1)>> >>
DB == [t |-> [w |-> 2, rows |-> tb], u |-> [w |-> 2, rows |-> URows]]
T == [k |-> "table", name |-> "t"]
U == [k |-> "table", name |-> "u"]
Star == <<Col(1), Col(2)>>
Star4 == <<Col(1), Col(2), Col(3), Col(4)>>

Init == tb \in TablesDom /\ p = TT /\ phase = 0
Next == phase = 0 /\ phase' = 1 /\ p' \in E2 /\ UNCHANGED tb
\* sampling variant for `-simulate` (one random table, one random predicate per behaviour)
\* (TLC evaluates the initial predicate once per simulation run, so the table is drawn in the step too)
SInit == tb = <<>> /\ p = TT /\ phase = 0
SNext == phase = 0 /\ phase' = 1 /\ p' = RandomElement(E2) /\ tb' = RandomElement(TablesDom)

QT(w) == Rows(Sel(T, w, Star), <<>>, DB)
CS2 == <<"none", "none">>
CS4 == <<"none", "none", "none", "none">>
J(jt, on) == [k |-> "join", jt |-> jt, l |-> T, r |-> U, on |-> on]

\* C05: a predicate partitions the rows into TRUE / FALSE / NULL parts
Partition == BagEqRows(QT(TT), QT(p) \o QT(Op1("not", p)) \o QT(Op1("isnull", p)), CS2)
\* filtering keeps exactly the rows where the select-list value of p IS TRUE
FilterIsTrue == QT(p) = SelectSeq(tb, LAMBDA r : IsTrue(Eval(p, <<r>>, <<>>, DB)))
\* NOT push-down (De Morgan under 3VL)
DeMorgan == (p.k = "op" /\ p.op \in {"and", "or"}) =>
              BagEqRows(QT(Op1("not", p)),
                        QT(Op2(IF p.op = "and" THEN "or" ELSE "and", Op1("not", p.a[1]), Op1("not", p.a[2]))), CS2)
\* C06: inner-join condition in ON == in WHERE over the cross join
OnVsWhere == BagEqRows(Rows(Sel(J("inner", p), TT, Star4), <<>>, DB), Rows(Sel(J("cross", TT), p, Star4), <<>>, DB), CS4)
\* left join: every left row appears at least once
LeftKeepsAll == \A i \in DOMAIN tb : \E r \in Range(Rows(Sel(J("left", p), TT, Star4), <<>>, DB)) : SubSeq(r, 1, 2) = tb[i]
\* x NOT IN (subquery containing NULL) is never TRUE
SubU == Sel(U, TT, <<Col(2)>>)
NotInNull == Rows(Sel(T, SubQ("notin", Col(1), SubU), Star), <<>>, DB) = <<>>
\* correlated EXISTS == IN for the equality case
ExistsEqIn ==
  BagEqRows(Rows(Sel(T, SubQ("exists", TT, Sel(U, Op2("eq", Col(1), OCol(1)), <<TT>>)), Star), <<>>, DB),
            Rows(Sel(T, SubQ("in", Col(1), Sel(U, TT, <<Col(1)>>)), Star), <<>>, DB), CS2)
\* x IN (y, z) == x = y OR x = z ;  BETWEEN == pair of comparisons
InIsOr == (p.k = "in" /\ ~p.neg) => BagEqRows(QT(p), QT(Op2("or", Op2("eq", p.e, p.list[1]), Op2("eq", p.e, p.list[2]))), CS2)
BetweenIsPair == (p.k = "op" /\ p.op = "between") =>
                   BagEqRows(QT(p), QT(Op2("and", Op2("ge", p.a[1], p.a[2]), Op2("le", p.a[1], p.a[3]))), CS2)

Laws == phase = 1 => /\ Partition /\ FilterIsTrue /\ DeMorgan /\ OnVsWhere /\ LeftKeepsAll
                     /\ NotInNull /\ ExistsEqIn /\ InIsOr /\ BetweenIsPair

\* ---- cases for the engine (binding A): the queries whose results the laws relate -----------------
Grouped(w) == [Sel(T, w, <<Col(1), [k |-> "agg", f |-> "countstar", dist |-> FALSE], [k |-> "agg", f |-> "sum", arg |-> Col(2), dist |-> FALSE]>>)
                 EXCEPT !.grouped = TRUE, !.group = <<Col(1)>>]
Cases(pp) == << Sel(T, pp, Star), Sel(T, Op1("not", pp), Star), Sel(T, Op1("isnull", pp), Star),
                Sel(T, TT, <<pp, Col(1), Col(2)>>),
                Sel(J("inner", pp), TT, Star4), Sel(J("cross", TT), pp, Star4), Sel(J("left", pp), TT, Star4),
                Sel(J("right", pp), TT, Star4),
                Sel(T, SubQ("notin", Col(1), Sel(U, pp, <<Col(2)>>)), Star),
                Sel(T, SubQ("exists", TT, Sel(U, Op2("and", Op2("eq", Col(1), OCol(1)), pp), <<TT>>)), Star),
                Grouped(pp),
                \* ORDER BY through the select aliases: DISTINCT + ORDER BY <ordinal> is a recorded engine defect
                [ordalias |-> TRUE] @@ [Sel(T, pp, Star) EXCEPT !.distinct = TRUE, !.order = << [i |-> 2, desc |-> TRUE], [i |-> 1, desc |-> FALSE] >>, !.limit = 1] >>
Emit == PrintT("CASE " \o ToJson([tb |-> tb', qs |-> Cases(p')]))
=============================================================================
