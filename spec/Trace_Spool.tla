---------------------------- MODULE Trace_Spool ----------------------------
(* C35, binding B.  Validates executions recorded from the REAL server.Handler (harness/cmd/c35
   -mode handler) against the observable specification of Spool.tla (ObsCb / ObsRet, which Spool is
   model-checked to refine) with the real constants: BatchSize = TB = 128.  Row ids are integers.

   c35_trace.ndjson, one event per line, many executions concatenated:
     {"ev":"reset","id","rep","p":{n,iterErr,cbErr,stallAt,more,timeouts}}   a new execution starts
     {"ev":"kill", ...}          the harness is about to cancel (KILL QUERY / ctx cancel); logged BEFORE
     {"ev":"cb","cnt","first","last","contig","more","fields"}   one callback invocation
     {"ev":"ret","cls","open"}   ComQuery returned; class of the error; row iterators left open
     {"ev":"stmt","c":{..},"e":{..}}   end to end: one statement, the client's outcome over TCP and the
                                 in-process engine's outcome on the twin database (SameOutcome)
     {"ev":"note"}               ignored
   Every line is consumed; a disagreement prints `MM <json>`, the state is resynchronised to the logged
   event and validation continues.  Acceptance: high-water mark = Len(TraceLog) + 1.

   A second use of this module (EnumInit/EnumNext, Trace_Spool_enum.cfg) enumerates the observable
   machine itself over the small constants, so that run/props/C35.py can compare its terminal summaries
   with those of Spool (tightness of the observable specification). *)
EXTENDS Integers, Sequences, FiniteSets, TLC, Json

CONSTANTS TB,            \* batch size of the implementation that produced the trace (128)
          EnumMaxRows,   \* enumeration only
          EnumKills, EnumTimeouts

TraceLog == ndJsonDeserialize("c35_trace.ndjson")

\* the observable operators of Spool are constant-level: its variables are instantiated by dummies
O == INSTANCE Spool WITH BatchSize <- TB, RowCap <- 512, ResCap <- 4, MaxRows <- EnumMaxRows,
        Kills <- EnumKills, Timeouts <- EnumTimeouts, CtxAwareIter <- TRUE, Faults <- TRUE,
        par <- 0, rpc <- 0, rcalls <- 0, rrow <- 0, rowChan <- 0, rowClosed <- 0, bpc <- 0, res <- 0,
        resChan <- 0, resClosed <- 0, spc <- 0, sbatch <- 0, processed <- 0, cpc <- 0, ctxDone <- 0,
        cause <- 0, egErr <- 0, mpc <- 0, mret <- 0, fin <- 0, killed <- 0, delivered <- 0, ret <- 0

VARIABLES l, p, s, phase
vars == <<l, p, s, phase>>

NoParams == [n |-> 0, iterErr |-> 0, cbErr |-> 0, stallAt |-> 0, more |-> FALSE, timeouts |-> FALSE]
Classes == {"ok", "iter", "cb", "canceled", "timeout"}

Init == l = 1 /\ p = NoParams /\ s = O!ObsInit /\ phase = "idle"

\* ---------------------------------------------------------------- diagnostics (names of the violated clauses)
CbWhy(e) ==
    (IF phase # "run" THEN {"not-running"} ELSE {})
    \cup (IF s.fin THEN {"after-final"} ELSE {})
    \cup (IF p.cbErr # 0 /\ s.ncb >= p.cbErr THEN {"after-cb-error"} ELSE {})
    \cup (IF e.more # p.more THEN {"more-flag"} ELSE {})
    \cup (IF ~e.fields THEN {"fields"} ELSE {})
    \cup (IF e.cnt > TB THEN {"oversize"} ELSE {})
    \cup (IF e.cnt > 0 /\ ~(e.first = s.sent + 1 /\ e.last = s.sent + e.cnt /\ e.contig) THEN {"order"} ELSE {})
    \cup (IF s.sent + e.cnt > O!Avail(p) THEN {"beyond-iterator"} ELSE {})
    \cup (IF e.cnt < TB /\ ~(p.iterErr = 0 /\ s.sent + e.cnt = p.n) THEN {"short-not-last"} ELSE {})
    \cup (IF e.cnt = 0 /\ s.ncb > 0 THEN {"empty-after-batches"} ELSE {})

RetWhy(e) ==
    (IF phase # "run" THEN {"not-running"} ELSE {})
    \cup (IF e.open # 0 THEN {"iterator-left-open"} ELSE {})
    \cup (IF e.cls \notin Classes THEN {"unknown-class"}
          ELSE IF e.cls = "ok"
          THEN (IF p.iterErr # 0 THEN {"iterator-error-lost"} ELSE {})
               \cup (IF s.sent # p.n THEN {"incomplete"} ELSE {})
               \cup (IF p.cbErr # 0 /\ s.ncb >= p.cbErr THEN {"callback-error-lost"} ELSE {})
               \cup (IF s.sent = p.n /\ ~(s.fin \/ (s.ncb > 0 /\ p.n % TB = 0)) THEN {"no-callback"} ELSE {})
          ELSE IF ~O!ObsRet(p, TB, s, e.cls) THEN {"unjustified-error"} ELSE {})

\* ---------------------------------------------------------------- end to end: the client's outcome equals the engine's
SameOutcome(c, e) ==
    /\ c.kind \in {"rows", "ok", "err"}
    /\ c.kind = e.kind
    /\ (c.kind = "rows" => c.cols = e.cols /\ c.rows = e.rows)          \* same columns; same rows in the same order
    /\ (c.kind = "ok" => c.affected = e.affected /\ c.insert_id = e.insert_id)
    /\ (c.kind = "err" => (c.code = e.code \/ c.code = 0))              \* 0: the stream was aborted (no error packet possible)

StmtWhy(c, e) ==
    IF c.kind # e.kind \/ c.kind \notin {"rows", "ok", "err"} THEN {"kind"}
    ELSE (IF c.kind = "rows" /\ c.cols # e.cols THEN {"columns"} ELSE {})
         \cup (IF c.kind = "rows" /\ Len(c.rows) # Len(e.rows) THEN {"row-count"} ELSE {})
         \cup (IF c.kind = "rows" /\ Len(c.rows) = Len(e.rows) /\ c.rows # e.rows THEN {"row-content"} ELSE {})
         \cup (IF c.kind = "ok" /\ c.affected # e.affected THEN {"affected"} ELSE {})
         \cup (IF c.kind = "ok" /\ c.insert_id # e.insert_id THEN {"insert-id"} ELSE {})
         \cup (IF c.kind = "err" /\ c.code # e.code /\ c.code # 0 THEN {"error-code"} ELSE {})

MM(e, what, why, exp) ==
    PrintT("MM " \o ToJson([l |-> l, id |-> e.id, what |-> what, why |-> why, killed |-> s.killed, exp |-> exp]))

Next ==
    /\ l <= Len(TraceLog)
    /\ l' = l + 1
    /\ LET e == TraceLog[l] IN
       CASE e.ev = "reset" ->
              /\ (IF phase = "run" THEN MM(e, "reset", {"previous-execution-never-returned"}, s) ELSE TRUE)
              /\ p' = e.p /\ s' = O!ObsInit /\ phase' = "run"
         [] e.ev = "kill" ->
              /\ s' = [s EXCEPT !.killed = TRUE] /\ UNCHANGED <<p, phase>>
         [] e.ev = "cb" ->
              /\ (IF phase = "run" /\ O!ObsCb(p, TB, s, e) THEN CbWhy(e) = {}
                  ELSE MM(e, "cb", CbWhy(e), [sent |-> s.sent, ncb |-> s.ncb, n |-> p.n, avail |-> O!Avail(p)]))
              /\ s' = O!ObsAfterCb(TB, s, e) /\ UNCHANGED <<p, phase>>
         [] e.ev = "ret" ->
              /\ (IF phase = "run" /\ e.cls \in Classes /\ O!ObsRet(p, TB, s, e.cls) /\ e.open = 0 THEN RetWhy(e) = {}
                  ELSE MM(e, "ret", RetWhy(e), [cls |-> e.cls, sent |-> s.sent, ncb |-> s.ncb, n |-> p.n,
                                                 allowed |-> {c \in Classes : O!ObsRet(p, TB, s, c)}]))
              /\ phase' = "idle" /\ UNCHANGED <<p, s>>
         [] e.ev = "stmt" ->
              /\ (IF SameOutcome(e.c, e.e) THEN StmtWhy(e.c, e.e) = {}
                  ELSE MM(e, "stmt", StmtWhy(e.c, e.e), [kind |-> e.e.kind, nrows |-> Len(e.e.rows), code |-> e.e.code]))
              /\ UNCHANGED <<p, s, phase>>
         [] OTHER -> UNCHANGED <<p, s, phase>>

\* acceptance: the whole log was consumed (an evaluation error or a FALSE diagnostic equation stops short)
HW == TLCSet(1, l)
Accepted == IF TLCGet(1) = Len(TraceLog) + 1 THEN TRUE
            ELSE PrintT("STOPPED " \o ToString(TLCGet(1))) /\ FALSE

\* ================================================================ enumeration of the observable machine
EnumParams == {q \in [n : 0..EnumMaxRows, iterErr : 0..(EnumMaxRows + 1), cbErr : 0..((EnumMaxRows + TB - 1) \div TB + 1),
                      stallAt : 0..(EnumMaxRows + 1), more : BOOLEAN, timeouts : {EnumTimeouts}] :
                  /\ q.iterErr <= q.n + 1 /\ q.stallAt <= q.n + 1
                  /\ (~EnumTimeouts => q.stallAt = 0)
                  /\ (q.stallAt # 0 => q.iterErr = 0 \/ q.iterErr > q.stallAt)}
EnumInit == l = 0 /\ p \in EnumParams /\ s = O!ObsInit /\ phase = "run"
EnumNext ==
    /\ phase = "run" /\ l' = l /\ p' = p
    /\ \/ \E cnt \in 0..TB :
            LET b == [cnt |-> cnt, first |-> s.sent + 1, last |-> s.sent + cnt, contig |-> TRUE, more |-> p.more, fields |-> TRUE] IN
            /\ O!ObsCb(p, TB, s, b) /\ s' = O!ObsAfterCb(TB, s, b) /\ phase' = phase
       \/ /\ EnumKills /\ ~s.killed /\ s' = [s EXCEPT !.killed = TRUE] /\ phase' = phase
       \/ \E c \in Classes : O!ObsRet(p, TB, s, c) /\ phase' = c /\ s' = s
EnumEmit == phase' # "run" =>
              PrintT("SUM " \o ToJson([p |-> p, sent |-> s.sent, ncb |-> s.ncb, ret |-> phase', killed |-> s.killed]))
=============================================================================
