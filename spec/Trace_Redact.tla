---------------------------- MODULE Trace_Redact ----------------------------
(* C45, binding B: traces recorded from the real sql/sqlredact (harness/cmd/c45) validated against
   Redact.tla.  One ndjson line per event:

     {"e":"reset", "tr":T}                                  a new Mapping (a new session / burst)
     {"e":"stmt",  "tr":T, "i":I, "unp":bool, "seq":bool, "hasma":bool,
                   "in":[token...], "out":[token...], "ma":snapshot, "st":S, "en":E}
                                                             one RedactSQLForTraceInto call on the shared Mapping
     {"e":"end",   "tr":T, "ma":snapshot}                    all goroutines of a burst joined

   Session traces (seq = TRUE): calls in program order, the Mapping snapshot after every call.
   Concurrent bursts (seq = FALSE): calls of all goroutines ordered by their end stamp; the verdict
   is order independent - all results together must be explained by ONE injective mapping, which is
   exactly what Verdict/After accumulate - and the Mapping snapshot is taken once at the end.

   Every disagreement is printed as  "MM <json>"  and validation continues with the specification
   resynchronised to the logged state (the observed snapshot; leaking tokens are not learnt).
   "RD <json>" lines record statements whose placeholders are not spelled as documented (evidence
   only).  "SX <json>" = the two formulations of the property in Redact.tla disagree (a defect of the
   specification, never a verdict).  Acceptance: high-water mark register 1 = Len(TraceLog) + 1. *)
EXTENDS Redact, Json

TraceLog == ndJsonDeserialize("c45_trace.ndjson")

VARIABLES l,     \* position in the log
          vm,    \* verdict mapping (Redact!EmptyVM ...)
          rm,    \* the code's Mapping as last observed (a Part 1 Mapping value over raw keys -> token ids)
          am     \* the atomic Mapping of Part 1 driven by the tokens in order (documented rendering)
tvars == <<l, vm, rm, am>>

TInit == l = 1 /\ vm = EmptyVM /\ rm = EmptyM /\ am = EmptyM /\ MInit

Say(prefix, rec) == PrintT(prefix \o " " \o ToJson(rec))

StmtStep(ev) ==
    LET vmA  == After(ev.in, ev.out, vm)
        ds1  == IF ev.unp THEN VerdictUnparseable(ev.in, ev.out, vmA) ELSE Verdict(ev.in, ev.out, vm, vmA)
        rmA  == IF ev.hasma THEN RealM(ev.ma) ELSE rm
        ds2  == IF ev.hasma
                THEN RealVerdict(rm, rmA,
                                 IF ev.unp THEN DOMAIN rm.n.map ELSE (DOMAIN rm.n.map) \cup RawOf(ev.in, "n"),
                                 IF ev.unp THEN DOMAIN rm.v.map ELSE (DOMAIN rm.v.map) \cup RawOf(ev.in, "v"))
                ELSE {}
        ds   == ds1 \cup ds2
        doc  == IF ev.seq /\ ~ev.unp /\ Aligned(ev.in, ev.out)
                THEN DocFrom(am, NonComment(ev.in), ev.out, vmA.forms, 1) ELSE <<am, {}>>
    IN
    /\ (IF ds = {} THEN TRUE ELSE Say("MM", [l |-> l, tr |-> ev.tr, i |-> ev.i, ds |-> ds]))
    /\ (IF doc[2] = {} THEN TRUE ELSE Say("RD", [l |-> l, tr |-> ev.tr, i |-> ev.i, pos |-> doc[2]]))
    /\ (IF vm.clean /\ ds = {} /\ ~ev.unp /\ ~ConformsSpelledOut(ev.in, ev.out, vm, vmA)
        THEN Say("SX", [l |-> l, tr |-> ev.tr, i |-> ev.i]) ELSE TRUE)
    /\ vm' = [(IF ev.unp THEN vm ELSE vmA) EXCEPT !.clean = vm.clean /\ ds = {}]
    /\ rm' = rmA
    /\ am' = doc[1]

EndStep(ev) ==
    LET rmA == RealM(ev.ma)
        ds  == RealVerdict(rm, rmA, (DOMAIN rm.n.map) \cup vm.rawn, (DOMAIN rm.v.map) \cup vm.rawv)
    IN
    /\ (IF ds = {} THEN TRUE ELSE Say("MM", [l |-> l, tr |-> ev.tr, i |-> 0 - 1, ds |-> ds]))
    /\ vm' = vm /\ rm' = rmA /\ am' = am

TNext ==
    /\ l <= Len(TraceLog)
    /\ LET ev == TraceLog[l] IN
       CASE ev.e = "reset" -> vm' = EmptyVM /\ rm' = EmptyM /\ am' = EmptyM
         [] ev.e = "stmt"  -> StmtStep(ev)
         [] ev.e = "end"   -> EndStep(ev)
    /\ l' = l + 1
    /\ UNCHANGED mvars

TSpec == TInit /\ [][TNext]_<<tvars, mvars>>

HW == TLCSet(1, l)
Accepted == TLCGet(1) = Len(TraceLog) + 1
=============================================================================
