INIT SInit
NEXT SNext
INVARIANT SValid
ACTION_CONSTRAINT Emit
CHECK_DEADLOCK FALSE
