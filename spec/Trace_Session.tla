---------------------------- MODULE Trace_Session ----------------------------
(* Binding B for C10: every recorded statement execution must be an Exec step of SessionProtocol and
   the probe statement run on the same session afterwards must have succeeded.
   trace.ndjson:  {"ev":"stmt","id":n,"kind":..,"sql":..,"outcome":"rows|ok|err|panic|crash|hang","probe":"ok|..."} *)
EXTENDS SessionProtocol, Json, TLC, Sequences

TraceLog == ndJsonDeserialize("trace.ndjson")
VARIABLE l
tvars == <<vars, l>>

TInit == Init /\ l = 1

TNext ==
  /\ l <= Len(TraceLog)
  /\ l' = l + 1
  /\ LET e == TraceLog[l] IN
     IF e.outcome \in Outcomes /\ e.probe = "ok"
     THEN Exec(e.outcome)
     ELSE /\ PrintT("MM " \o ToJson([l |-> l, id |-> e.id, outcome |-> e.outcome, probe |-> e.probe]))
          /\ UNCHANGED vars        \* resynchronise: the next statement runs on a fresh session

HW == TLCSet(1, l)
Accepted == TLCGet(1) = Len(TraceLog) + 1
=============================================================================
