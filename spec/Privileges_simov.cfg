\* C39: histories biased towards an account and one of its granted roles holding table-level privileges
\* on the same table (NextSimOverlap), probe matrix and stored state after every step
CONSTANTS
  Users = {"u1", "u2"}
  Roles = {"r1"}
  Dbs = {"d1", "d2"}
  Tbls = {"t1", "t2"}
  Privs = {"SELECT", "INSERT", "UPDATE", "DELETE", "CREATE", "DROP", "CREATE USER", "GRANT OPTION", "SUPER"}
  DynPrivs = {"REPLICATION_SLAVE_ADMIN", "CLONE_ADMIN"}
  MaxSet = 2
  WithAll = TRUE
  MaxStep = 100
  InitAll = TRUE
INIT Init
NEXT NextSimOverlap
VIEW View
INVARIANTS TypeOK NoOrphans HierarchyMonotone DynGrantOptionIsGlobal
PROPERTIES ReloadIdentity DropForgets
ACTION_CONSTRAINT Emit
CHECK_DEADLOCK FALSE
