-------------------------- MODULE MC_DecArithCases --------------------------
(* C25, binding A: the enumeration of operand pairs x operators for the engine .
   Families:  "cast"  CAST(v AS SIGNED|UNSIGNED) operands over the boundary values of EVERY integer
                      width (incl. MAX+1 of each width as a value of the wider type);
              "col"   columns of each of the ten integer types over that type's own boundaries;
              "dec"   DECIMAL(p,s) operands (and a few integers to mix with);
              "core"  the 64-bit boundaries in both forms (the quick tier's exhaustive part).  One operand is chosen in Init, the other and the operator in Next; the action
   constraint Emit prints each case with the outcome(s) the specification allows. *)
EXTENDS DecArith, TLC, Json

CONSTANTS Family

I1 == IntV(FALSE, One)
I2 == IntV(FALSE, <<2>>)
Small == {Zero, I1, I2, DNeg(I1), DNeg(I2)}
Bnd(t) == {v \in Small \cup {TMin(t), DAdd(TMin(t), I1), DSub(TMax(t), I1), TMax(t)} : InType(v, t)}
AllV == UNION {Bnd(t) \cup {DAdd(TMax(t), I1)} : t \in IntTypes}
Opd(t, v) == [t |-> t, x |-> v, p |-> 0, s |-> 0]
DOpd(neg, msd, p, s) == [t |-> "D", x |-> Dec(neg, msd, s), p |-> p, s |-> s]

CastOps == {Opd(t, v) : t \in {"S", "U"}, v \in AllV}
CastOpds == ({o \in CastOps : InType(o.x, o.t)})
ColOpds == (UNION {{Opd(t, v) : v \in Bnd(t)} : t \in IntTypes})
\* the quick tier's exhaustive part: the 64-bit boundaries as constants and a few columns
CoreCast == {Opd("S", v) : v \in Bnd("i64")}
            \cup {Opd("U", v) : v \in Bnd("u64") \cup {TMax("i64"), DAdd(TMax("i64"), I1)}}
            \cup {DOpd(FALSE, <<5>>, 3, 1), DOpd(TRUE, <<1, 5>>, 4, 1), DOpd(FALSE, <<1, 2, 5>>, 5, 2), DOpd(TRUE, <<9, 9, 9, 9>>, 5, 2),
                  DOpd(FALSE, <<1,2,3,4,5,6,7,8,9,0, 1,2,3,4,5,6,7,8,9,0, 1,2,3,4,5,6,7,8,9>>, 29, 9)}
CoreCol == {Opd("u8", v) : v \in {Zero, I1, TMax("u8")}} \cup {Opd("i8", v) : v \in {TMin("i8"), DNeg(I1), TMax("i8")}}
           \cup {Opd("u64", v) : v \in {Zero, TMax("u64")}} \cup {Opd("i64", v) : v \in {TMin("i64"), DNeg(I1), TMax("i64")}}
           \cup {Opd("u32", TMax("u32")), Opd("u16", TMax("u16")), Opd("i24", TMin("i24"))}
CoreOpds == (CoreCast \cup CoreCol)
DecOpds == ({ DOpd(FALSE, <<5>>, 3, 1), DOpd(FALSE, <<1, 2, 5>>, 5, 2), DOpd(TRUE, <<9, 9, 9, 9>>, 5, 2),
             DOpd(FALSE, <<1, 2, 3, 4, 5, 6, 7, 8, 9, 0>>, 10, 2), DOpd(FALSE, <<>>, 5, 2), DOpd(TRUE, <<1>>, 5, 2),
             DOpd(TRUE, <<1, 5>>, 4, 1), DOpd(FALSE, <<7>>, 6, 3),
             DOpd(FALSE, <<9,9,9,9,9,9,9,9,9,9, 9,9,9,9,9,9,9,9,9,9, 9,9,9,9,9,9,9,9,9>>, 29, 9),
             DOpd(FALSE, <<1,2,3,4,5,6,7,8,9,0, 1,2,3,4,5,6,7,8,9,0, 1,2,3,4,5,6,7,8,9>>, 29, 9),
             DOpd(TRUE, <<9,8,7,6,5,4,3,2,1,0, 9,8,7,6,5,4,3,2,1,0, 9,8,7,6,5,4,3,2,1>>, 29, 9) }
           \cup {Opd("S", v) : v \in {Zero, DNeg(I1), IntV(FALSE, <<7>>), TMax("i64"), TMin("i64")}}
           \cup {Opd("U", v) : v \in {IntV(FALSE, <<3>>), TMax("u64")}})

\* computed once at start-up (see DecArith: TLC re-evaluates definitions at every use), kept in register 31
ASSUME TLCSet(31, [cast |-> CastOpds, col |-> ColOpds, dec |-> DecOpds, core |-> CoreOpds])
Opds(f) == TLCGet(31)[f]
Families == {"cast", "col", "dec"}
\* "cast"-style SQL (constants) for S/U/D operands, "col"-style (one-row table) for column types
Compatible(a, b) == (a.t \in IntTypes) = (b.t \in IntTypes)
AllowedOp(o, a, b) == (o = "div") => IsZero(b.x)      \* `/` only for the division-by-zero rule (rounding of / is out of scope)

VARIABLES fam, a, b, op, cph, out
cvars == <<fam, a, b, op, cph, out>>
NoOut == [exp |-> "-", accept |-> {"-"}, fit |-> TRUE, exact |-> "-", rscale |-> "-"]
CInit == fam = Family /\ a \in Opds(Family) /\ b = a /\ op = "none" /\ cph = 0 /\ out = NoOut
CNext ==
  /\ cph = 0
  /\ cph' = 1
  /\ fam' = fam
  /\ a' = a
  /\ \/ op' = "neg" /\ b' = a
     \/ /\ b' \in {o \in Opds(fam) : Compatible(a, o)}
        /\ op' \in {o \in Ops2 : AllowedOp(o, a, b')}
  /\ out' = Outcome(op', a', b')
\* sampling variant for `-simulate`: a random family, operands and operator per behaviour (all drawn
\* in the step: TLC computes the initial states of a simulation only once)
SInit == /\ fam = "none"
         /\ a = Opd("S", Zero)
         /\ b = a /\ op = "none" /\ cph = 0 /\ out = NoOut
SNext ==
  /\ cph = 0
  /\ cph' = 1
  /\ fam' = RandomElement(Families)
  /\ a' = RandomElement(Opds(fam'))
  /\ IF RandomElement(1..12) = 1
     THEN op' = "neg" /\ b' = a'
     ELSE /\ b' = RandomElement({o \in Opds(fam') : Compatible(a', o)})
          /\ op' = RandomElement({o \in Ops2 : AllowedOp(o, a', b')})
  /\ out' = Outcome(op', a', b')

JOpd(o) == [t |-> o.t, lit |-> Str(o.x), p |-> o.p, s |-> o.s, sql |-> (IF o.t = "D" THEN "DECIMAL" ELSE SqlName(o.t))]
CaseOf(f, o, p, q, res) ==
  [fam |-> f, op |-> o, a |-> JOpd(p), b |-> JOpd(q), style |-> (IF p.t \in IntTypes THEN "col" ELSE "cast"),
   exp |-> res.exp, accept |-> res.accept, fit |-> res.fit, exact |-> res.exact, rscale |-> res.rscale, diag |-> Diag(o, p, q)]
Emit == PrintT("CASE " \o ToJson(CaseOf(fam', op', a', b', out')))
\* the enumerated outcomes are well-formed: the MySQL outcome is always acceptable
CasesOK == cph = 1 => out.exp \in out.accept /\ (out.fit <=> out.accept = {out.exact})
=============================================================================
