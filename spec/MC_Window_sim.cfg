CONSTANT MaxRows = 4
INIT SInit
NEXT SNext
INVARIANT Laws
ACTION_CONSTRAINT Emit
CHECK_DEADLOCK FALSE
