------------------------------- MODULE MC_FK -------------------------------
(* Bounded models of SQLForeignKeys (C18).  Graph presets (constant Graph):
     "chain"    a(c1 PK) <- b(c1 PK, c2 -> a.c1) <- c(c1 PK, c2 -> b.c1)
     "diamond"  a(c1 PK) <- b(c1 PK, c2 -> a.c1), a <- c(c1 PK, c2 -> a.c1), d(c1 PK, c2 -> b.c1, c3 -> c.c1)
     "self"     a(c1 PK, c2 -> a.c1)
   Primary keys of a range over KP, those of the other tables over KC (so at most |KP| / |KC| rows per
   table), foreign-key columns over {NULL} \cup KP.  Every foreign key gets an (ON DELETE, ON UPDATE)
   pair from ActPairs (ActSet = "three" | "six"): ALL assignments when PerKey, else the same pair for every key (chosen in the
   initial state).  Statements: single-row INSERT of every row, two-row INSERT (self: the second row may
   reference the first), DELETE WHERE c1 = k / of all rows, UPDATE of the primary key of one row, UPDATE
   of a foreign-key column (one row / all rows), SET foreign_key_checks = 0 | 1 when Toggle.
   Properties:
     InvRefIntegrity   while foreign_key_checks was never off: every non-NULL child key has a parent row
     FailedNoEffect    a failed statement changes no table
     InvKeys           primary keys stay unique (cascaded updates included)                            *)
EXTENDS SQLForeignKeys, Json, SequencesExt

CONSTANTS Graph, KP, KC, ActSet, PerKey, Toggle

VARIABLES st, cat, fkc, clean, act, step
vars == <<st, cat, fkc, clean, act, step>>
View0 == <<st, cat, fkc, clean>>

PK1 == IntCol(TRUE)
TabA == [cols |-> <<PK1>>, checks |-> <<>>, pk |-> <<1>>, uniq |-> <<>>, rows |-> <<>>]
Tab2 == [cols |-> <<PK1, IntCol(FALSE)>>, checks |-> <<>>, pk |-> <<1>>, uniq |-> <<>>, rows |-> <<>>]
Tab3 == [cols |-> <<PK1, IntCol(FALSE), IntCol(FALSE)>>, checks |-> <<>>, pk |-> <<1>>, uniq |-> <<>>, rows |-> <<>>]

Tabs0 == CASE Graph = "chain" -> [a |-> TabA, b |-> Tab2, c |-> Tab2]
           [] Graph = "diamond" -> [a |-> TabA, b |-> Tab2, c |-> Tab2, d |-> Tab3]
           [] Graph = "self" -> [a |-> Tab2]
Fk(n, c, cc, p) == [name |-> n, child |-> c, ccols |-> <<cc>>, parent |-> p, pcols |-> <<1>>, ondel |-> "restrict", onupd |-> "restrict"]
Fks0 == CASE Graph = "chain" -> <<Fk("fk1", "b", 2, "a"), Fk("fk2", "c", 2, "b")>>
          [] Graph = "diamond" -> <<Fk("fk1", "b", 2, "a"), Fk("fk2", "c", 2, "a"), Fk("fk3", "d", 2, "b"), Fk("fk4", "d", 3, "c")>>
          [] Graph = "self" -> <<Fk("fk1", "a", 2, "a")>>

\* (ON DELETE, ON UPDATE) pairs a key can get
ActPairs == IF ActSet = "three" THEN {<<"cascade", "cascade">>, <<"setnull", "restrict">>, <<"restrict", "setnull">>}
            ELSE {<<"cascade", "cascade">>, <<"setnull", "setnull">>, <<"restrict", "noaction">>, <<"noaction", "cascade">>,
                  <<"cascade", "setnull">>, <<"setnull", "cascade">>}
Assignments == IF PerKey THEN [DOMAIN Fks0 -> ActPairs] ELSE {[i \in DOMAIN Fks0 |-> p] : p \in ActPairs}
WithActs(asg) == [i \in DOMAIN Fks0 |-> [Fks0[i] EXCEPT !.ondel = asg[i][1], !.onupd = asg[i][2]]]

KeysOf(t) == IF t = "a" THEN KP ELSE KC
NVP == {NULL} \cup {I(k) : k \in KP}
cc(i) == ECol(i, "none")
Cells(vs) == [i \in DOMAIN vs |-> Cell(ELit(vs[i]))]
RowVals(t) == IF Len(Tabs0[t].cols) = 1 THEN {<<I(k)>> : k \in KeysOf(t)}
              ELSE IF Len(Tabs0[t].cols) = 2 THEN {<<I(k), v>> : k \in KeysOf(t), v \in NVP}
              ELSE {<<I(k), v, u>> : k \in KeysOf(t), v \in NVP, u \in NVP}
AllCols(t) == [i \in DOMAIN Tabs0[t].cols |-> i]

StmtsOf(t) ==
  {SInsert(t, "plain", AllCols(t), <<Cells(r)>>, <<>>) : r \in RowVals(t)}
  \cup (IF Graph = "self" THEN {SInsert(t, "plain", AllCols(t), <<Cells(r), Cells(q)>>, <<>>) : r \in RowVals(t), q \in RowVals(t)} ELSE {})
  \cup {SDelete(t, EOp2("eq", cc(1), ELit(I(k))), <<>>, -1) : k \in KeysOf(t)}
  \cup {SDelete(t, ETrue, <<>>, -1)}
  \cup {SUpdate(t, FALSE, <<SetItem(1, ELit(I(v)))>>, EOp2("eq", cc(1), ELit(I(k))), <<>>, -1) : k \in KeysOf(t), v \in KeysOf(t)}
  \cup (IF Len(Tabs0[t].cols) >= 2
        THEN {SUpdate(t, FALSE, <<SetItem(2, ELit(v))>>, w, <<>>, -1) : v \in NVP, w \in {ETrue} \cup {EOp2("eq", cc(1), ELit(I(k))) : k \in KeysOf(t)}}
        ELSE {})
  \cup (IF Len(Tabs0[t].cols) >= 3 THEN {SUpdate(t, FALSE, <<SetItem(3, ELit(v))>>, ETrue, <<>>, -1) : v \in NVP} ELSE {})
Stmts == UNION {StmtsOf(t) : t \in DOMAIN Tabs0}
FkcStmt(v) == [BaseStmt EXCEPT !.k = "fkc", !.n = v]

AllAsc(T) == [j \in DOMAIN T.cols |-> Ord(j, FALSE)]
CanonRows(T, rows) == SortSeq(rows, LAMBDA x, y : RowLt(AllAsc(T), CollsOf(T), x, y))
Canon(s) == [s EXCEPT !.tabs = [t \in DOMAIN s.tabs |-> [s.tabs[t] EXCEPT !.rows = CanonRows(s.tabs[t], s.tabs[t].rows)]]]

Init ==
  /\ st = [tabs |-> Tabs0, autoinc |-> [t \in DOMAIN Tabs0 |-> 0], lastid |-> 0]
  /\ cat \in {WithActs(asg) : asg \in Assignments}
  /\ fkc = TRUE
  /\ clean = TRUE
  /\ act = [stmt |-> BaseStmt, kind |-> "", class |-> "", nout |-> 0]
  /\ step = 0

Do(stmt, x, n) ==
  /\ st' = Canon(ApplyF(st, x))
  /\ act' = [stmt |-> stmt, kind |-> x.reply.kind, class |-> x.reply.class, nout |-> n]
  /\ step' = step + 1
  /\ UNCHANGED cat
  /\ fkc' = fkc
  /\ clean' = (clean /\ fkc)

SetFkc(v) ==
  /\ Toggle
  /\ fkc' = v
  /\ clean' = (clean /\ v)
  /\ act' = [stmt |-> FkcStmt(IF v THEN 1 ELSE 0), kind |-> "ok", class |-> "", nout |-> 1]
  /\ step' = step + 1
  /\ UNCHANGED <<st, cat>>

Next ==
  \/ \E stmt \in Stmts : LET outs == FKOutcomes(st, cat, fkc, stmt, {}) IN \E x \in outs : Do(stmt, x, Cardinality(outs))
  \/ \E v \in BOOLEAN : v # fkc /\ SetFkc(v)

Spec == Init /\ [][Next]_vars

\* ------------------------------------------------------------------ properties
InvRefIntegrity == clean => RefIntegrity(st.tabs, cat)
InvKeys == PKUnique(st)
FailedNoEffectAct == (act'.kind = "err") => st' = st
FailedNoEffect == [][FailedNoEffectAct]_vars

\* ------------------------------------------------------------------ binding A: simulated behaviours (one successor per step)
SimNext ==
  \E rv \in {[i \in 1..3 |-> RandomElement(step..(step + 9999))]} :
     IF Toggle /\ rv[1] % 12 = 0 THEN SetFkc(~fkc)
     ELSE LET ss == SetToSeq(Stmts)
              stmt == ss[1 + (rv[2] % Len(ss))]
              outs == FKOutcomes(st, cat, fkc, stmt, {})
              os == SetToSeq(outs)
          IN Do(stmt, os[1 + (rv[3] % Len(os))], Len(os))

RowsOf(s) == [t \in DOMAIN s.tabs |-> s.tabs[t].rows]
Emit ==
  PrintT("TR " \o ToJson([step |-> step', stmt |-> act'.stmt, kind |-> act'.kind, class |-> act'.class, nout |-> act'.nout,
                           fks |-> cat, fkc |-> fkc', post |-> RowsOf(st')]))
StepBound == step < 16
ASSUME PrintT("SC " \o ToJson(Tabs0))
=============================================================================
