--------------------------- MODULE OutfileCodec ---------------------------
(* C50.  The text format of SELECT ... INTO OUTFILE / LOAD DATA INFILE as MySQL defines it
   (refman "LOAD DATA Statement", section "Field and Line Handling"; Query_result_export::send_data
   and READ_INFO::read_field are the reference readings of those rules).

   Everything is a sequence of code points.
     cell    [n |-> BOOLEAN, v |-> <<code points>>]   n = TRUE is SQL NULL (v = <<>>); an INT column
             holds the canonical decimal spelling of its value (the table converts text <-> number;
             the codec only ever sees text)
     row     sequence of cells;  types: sequence of "s" (string column) / "i" (numeric column)
     options [ft, enc, opt, esc, lt, st]:  FIELDS TERMINATED BY ft  [OPTIONALLY (opt)] ENCLOSED BY enc
             ESCAPED BY esc  LINES STARTING BY st  TERMINATED BY lt;  enc, esc: length 0 or 1

   Encode (export):  each row = st, the fields separated by ft, lt.  NULL is esc N (the word NULL
   when there is no escape character).  A field is enclosed when enc is non-empty and (not opt or
   the column is a string column).  Inside a value, esc is written before: esc itself, the enclosure
   character when the field is enclosed / the FIRST character of ft when it is not, the FIRST
   character of lt; NUL is written esc 0.
   Decode (import):  rows are read sequentially: skip to the next st, then fields up to lt.  A field
   starting with enc is read up to the enc that is followed by ft, lt or the end of the text (enc enc
   inside is one enc; another enc is literal).  esc c stands for unescape(c) (0 b n r t Z N, else c
   itself); an unenclosed field that is exactly esc N is NULL, and so is the unenclosed word NULL when
   enc is non-empty.

   RoundTrip (checked by TLC on MC_OutfileCodec): Decode(Encode(rows)) = rows for every option set
   in which esc is non-empty and differs from the delimiters.  This keeps the specification honest;
   the VERDICT about the engine is the property's own (Trace_Outfile): the reloaded table equals the
   exported table as a bag of rows.  Decode is applied to the file the engine wrote only to say on
   which side a failure lies. *)
EXTENDS Integers, Sequences, FiniteSets, TLC

NullCell == [n |-> TRUE, v |-> <<>>]
Str(v) == [n |-> FALSE, v |-> v]

cN == 78    \* 'N'
c0 == 48    \* '0'
WordNULL == <<78, 85, 76, 76>>

\* s occurs in t at position i
At(t, i, s) == /\ s # <<>>
               /\ i >= 1
               /\ i + Len(s) - 1 <= Len(t)
               /\ SubSeq(t, i, i + Len(s) - 1) = s

Contains(t, s) == \E i \in 1..Len(t) : At(t, i, s)

\* ---------------------------------------------------------------- Encode
Enclosed(ty, o) == o.enc # <<>> /\ (~o.opt \/ ty = "s")

NeedEsc(c, enclosed, o) ==
    /\ o.esc # <<>>
    /\ \/ c = o.esc[1]
       \/ (IF enclosed THEN c = o.enc[1] ELSE (o.ft # <<>> /\ c = o.ft[1]))
       \/ (o.lt # <<>> /\ c = o.lt[1])
       \/ c = 0

RECURSIVE EscStr(_, _, _)
EscStr(v, enclosed, o) ==
    IF v = <<>> THEN <<>>
    ELSE LET c == Head(v)
             w == IF ~NeedEsc(c, enclosed, o) THEN <<c>>
                  ELSE IF c = 0 THEN <<o.esc[1], c0>>
                  ELSE <<o.esc[1], c>>
         IN w \o EscStr(Tail(v), enclosed, o)

EncCell(cell, ty, o) ==
    IF cell.n THEN (IF o.esc = <<>> THEN WordNULL ELSE <<o.esc[1], cN>>)
    ELSE IF Enclosed(ty, o) THEN o.enc \o EscStr(cell.v, TRUE, o) \o o.enc
    ELSE EscStr(cell.v, FALSE, o)

RECURSIVE EncFields(_, _, _, _)
EncFields(row, types, i, o) ==
    IF i > Len(row) THEN <<>>
    ELSE (IF i > 1 THEN o.ft ELSE <<>>) \o EncCell(row[i], types[i], o) \o EncFields(row, types, i + 1, o)

EncRow(row, types, o) == o.st \o EncFields(row, types, 1, o) \o o.lt

RECURSIVE EncodeFrom(_, _, _, _)
EncodeFrom(rows, types, i, o) ==
    IF i > Len(rows) THEN <<>> ELSE EncRow(rows[i], types, o) \o EncodeFrom(rows, types, i + 1, o)

Encode(rows, types, o) == EncodeFrom(rows, types, 1, o)

\* ---------------------------------------------------------------- Decode
Unescape(c) ==
    CASE c = 48 -> 0        \* 0
      [] c = 98 -> 8        \* b
      [] c = 110 -> 10      \* n
      [] c = 114 -> 13      \* r
      [] c = 116 -> 9       \* t
      [] c = 90 -> 26       \* Z
      [] OTHER -> c         \* N stays N (and marks the field, see ReadPlain), anything else is itself

IsEsc(t, i, o) == o.esc # <<>> /\ o.esc # o.enc /\ t[i] = o.esc[1] /\ i + 1 <= Len(t)

FieldEnds(t, i, o) == i > Len(t) \/ At(t, i, o.ft) \/ At(t, i, o.lt)

\* a field result: [cell, next] where next is the position of the terminator that follows the field
\* (or Len(t) + 1).  i is just behind the opening enclosure.
RECURSIVE ReadEnclosed(_, _, _, _)
ReadEnclosed(t, i, acc, o) ==
    IF i > Len(t) THEN [cell |-> Str(acc), next |-> i]                 \* unterminated: the text ends
    ELSE IF IsEsc(t, i, o) THEN ReadEnclosed(t, i + 2, Append(acc, Unescape(t[i + 1])), o)
    ELSE IF t[i] = o.enc[1] THEN
         (IF i + 1 <= Len(t) /\ t[i + 1] = o.enc[1] THEN ReadEnclosed(t, i + 2, Append(acc, t[i]), o)
          ELSE IF FieldEnds(t, i + 1, o) THEN [cell |-> Str(acc), next |-> i + 1]
          ELSE ReadEnclosed(t, i + 1, Append(acc, t[i]), o))
    ELSE ReadEnclosed(t, i + 1, Append(acc, t[i]), o)

\* sawN: the field so far is exactly the escape sequence esc N
RECURSIVE ReadPlain(_, _, _, _, _)
ReadPlain(t, i, acc, sawN, o) ==
    IF FieldEnds(t, i, o) THEN
         [cell |-> IF (Len(acc) = 1 /\ sawN) \/ (o.enc # <<>> /\ acc = WordNULL /\ ~sawN) THEN NullCell ELSE Str(acc),
          next |-> i]
    ELSE IF IsEsc(t, i, o) THEN
         ReadPlain(t, i + 2, Append(acc, Unescape(t[i + 1])), (acc = <<>> /\ t[i + 1] = cN), o)
    ELSE ReadPlain(t, i + 1, Append(acc, t[i]), FALSE, o)

ReadField(t, i, o) ==
    IF o.enc # <<>> /\ i <= Len(t) /\ t[i] = o.enc[1] THEN ReadEnclosed(t, i + 1, <<>>, o)
    ELSE ReadPlain(t, i, <<>>, FALSE, o)

\* a row result: [row, next] (next = first position behind the line terminator)
RECURSIVE ReadRow(_, _, _, _)
ReadRow(t, i, fields, o) ==
    LET f == ReadField(t, i, o)
        fs == Append(fields, f.cell)
    IN IF At(t, f.next, o.lt) THEN [row |-> fs, next |-> f.next + Len(o.lt)]
       ELSE IF At(t, f.next, o.ft) THEN ReadRow(t, f.next + Len(o.ft), fs, o)
       ELSE [row |-> fs, next |-> Len(t) + 1]

\* position just behind the next LINES STARTING BY prefix at or after i (0: none)
RECURSIVE SkipPrefix(_, _, _)
SkipPrefix(t, i, o) ==
    IF o.st = <<>> THEN i
    ELSE IF i > Len(t) THEN 0
    ELSE IF At(t, i, o.st) THEN i + Len(o.st)
    ELSE SkipPrefix(t, i + 1, o)

RECURSIVE ReadRows(_, _, _, _)
ReadRows(t, i, rows, o) ==
    IF i > Len(t) THEN rows
    ELSE LET j == SkipPrefix(t, i, o) IN
         IF j = 0 THEN rows
         ELSE LET r == ReadRow(t, j, <<>>, o) IN ReadRows(t, r.next, Append(rows, r.row), o)

Decode(t, o) == ReadRows(t, 1, <<>>, o)

\* ---------------------------------------------------------------- the option sets the checks use
\* esc non-empty and different from every delimiter character; enc different from the terminators;
\* ft and lt non-empty, neither starts the other (MySQL itself is ambiguous otherwise).
Chars(s) == {s[k] : k \in DOMAIN s}
GoodOptions(o) ==
    /\ Len(o.esc) = 1 /\ Len(o.enc) <= 1 /\ o.ft # <<>> /\ o.lt # <<>>
    /\ o.esc[1] \notin Chars(o.ft) \cup Chars(o.lt) \cup Chars(o.enc) \cup Chars(o.st)
    /\ Chars(o.enc) \cap (Chars(o.ft) \cup Chars(o.lt)) = {}
    /\ o.ft[1] # o.lt[1]
    /\ (o.opt => o.enc # <<>>)

RoundTrip(rows, types, o) == Decode(Encode(rows, types, o), o) = rows

\* ---------------------------------------------------------------- classification (reports only)
\* which hostile character classes a row contains, relative to the option set
CellHas(c, s) == ~c.n /\ Contains(c.v, s)
RowClasses(row, types, o) ==
    {"fieldterm" : k \in {k \in DOMAIN row : CellHas(row[k], o.ft)}}
    \cup {"lineterm" : k \in {k \in DOMAIN row : CellHas(row[k], o.lt)}}
    \cup {"enclosure" : k \in {k \in DOMAIN row : CellHas(row[k], o.enc)}}
    \cup {"enc_ft" : k \in {k \in DOMAIN row : o.enc # <<>> /\ CellHas(row[k], o.enc \o o.ft)}}   \* enclosure directly before a field terminator
    \cup {"escape" : k \in {k \in DOMAIN row : CellHas(row[k], o.esc)}}
    \cup {"nul" : k \in {k \in DOMAIN row : CellHas(row[k], <<0>>)}}
    \cup {"null" : k \in {k \in DOMAIN row : row[k].n}}
    \cup {"empty" : k \in {k \in DOMAIN row : ~row[k].n /\ row[k].v = <<>>}}
    \cup {"nullword" : k \in {k \in DOMAIN row : ~row[k].n /\ row[k].v = WordNULL}}
=============================================================================
