CONSTANTS
  Radius = 10
  MaxB8 = 4
  MaxB16 = 5
  MaxB32 = 5
  U8A = {65, 127, 128, 143, 144, 159, 160, 191, 192, 194, 224, 237, 240, 244, 245}
  U16A = {0, 65, 216, 220, 223, 255}
  U32A = {0, 1, 16, 17, 216, 255}
  AscA = {0, 65, 127, 128, 255}
  Full = FALSE
INIT Init
NEXT Next
INVARIANT ModelOK
CHECK_DEADLOCK FALSE
