-------------------------- MODULE Trace_StoreConv --------------------------
(* C27, binding B for the idempotence law on values the specification does not interpret (temporal
   types, JSON, floating point, TEXT/BLOB) and on every value the binding-A cases stored.
   trace.ndjson lines (values are opaque canonical texts; only equality is used):
     {"ev":"idem", "id":n, "type":.., "in":.., "rb": <value read back from the table>,
      "c1": <Type.Convert(rb)>, "c2": <Type.Convert(c1)>}
   Law: converting an already converted (stored) value again never changes it:  rb = c1 = c2.
   Every line is consumed; a disagreement prints `MM <json>` and validation continues. *)
EXTENDS Naturals, Sequences, TLC, Json

TraceLog == ndJsonDeserialize("trace.ndjson")

VARIABLE l
vars == <<l>>
Init == l = 1

Broken(e) == (IF e.c1 # e.c2 THEN {"c1#c2"} ELSE {}) \cup (IF e.rb # e.c1 THEN {"rb#c1"} ELSE {})
Judge(e) == IF e.ev # "idem" \/ Broken(e) = {} THEN TRUE
            ELSE PrintT("MM " \o ToJson([l |-> l, id |-> e.id, what |-> Broken(e)]))
Next ==
  /\ l <= Len(TraceLog)
  /\ l' = l + 1
  /\ Judge(TraceLog[l])

HW == TLCSet(1, l)
Accepted == TLCGet(1) = Len(TraceLog) + 1
=============================================================================
