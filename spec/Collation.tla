------------------------------ MODULE Collation ------------------------------
(* C29.  Laws of a collation over LOGGED observations of a finite set of strings:
     strs[i]   the i-th string (code points)
     M[i][j]   the logged comparison of strs[i] with strs[j]: -1 / 0 / 1
     W[i]      the logged weight string of strs[i] (bytes);  H[i] its logged hash (opaque text)
   The strings are interpreted only where the property fixes the outcome: code-point order for binary
   collations, ASCII case folding for _ci collations, the order of utf8mb4_0900_ai_ci on
   [0-9A-Za-z ] (SQLSem's "ci" order), trailing spaces under PAD SPACE / NO PAD.  Everything else is
   relational (total preorder, equality classes = weight classes = hash classes). *)
EXTENDS SQLSem

Idx(M) == DOMAIN M

\* a total preorder given as a sign matrix: reflexive, antisymmetric in sign (hence total), transitive
Reflexive(M) == \A i \in Idx(M) : M[i][i] = 0
SignAntisymmetric(M) == \A i \in Idx(M), j \in Idx(M) : M[i][j] \in {-1, 0, 1} /\ M[i][j] = -M[j][i]
\* transitivity over all triples (ties included): i <= j /\ j <= k => i <= k, with equality and strictness preserved
TransitiveTriples(M) ==
  \A i \in Idx(M), j \in Idx(M) :
     M[i][j] <= 0 => \A k \in Idx(M) : /\ (M[j][k] <= 0 => M[i][k] <= 0)
                                        /\ (M[i][j] = 0 /\ M[j][k] = 0 => M[i][k] = 0)
                                        /\ (M[j][k] < 0 => M[i][k] < 0)
\* the same statement through down-sets (what TLC evaluates: for a sign-antisymmetric matrix the triple form holds
\* iff the down-set of i is contained in the down-set of every j above it)
Transitive(M) ==
  LET Down == [i \in Idx(M) |-> {k \in Idx(M) : M[k][i] <= 0}] IN
  \A i \in Idx(M), j \in Idx(M) : M[i][j] <= 0 => Down[i] \subseteq Down[j]
TotalPreorder(M) == Reflexive(M) /\ SignAntisymmetric(M) /\ Transitive(M)

EqualIffSameWeight(M, W) == \A i \in Idx(M), j \in Idx(M) : (M[i][j] = 0) <=> (W[i] = W[j])
EqualIffSameHash(M, H) == \A i \in Idx(M), j \in Idx(M) : (M[i][j] = 0) <=> (H[i] = H[j])

IsAscii(s) == \A k \in DOMAIN s : s[k] < 128
\* binary collations order by code point (asciiOnly: the character set's byte order is only known to be the
\* code-point order on ASCII, so only pairs of ASCII strings are judged)
CodePointOrder(M, strs, asciiOnly) ==
  \A i \in Idx(M), j \in Idx(M) :
     (asciiOnly => IsAscii(strs[i]) /\ IsAscii(strs[j])) => M[i][j] = SeqCmp(strs[i], strs[j])

\* _ci collations equate strings that differ only in (ASCII) letter case
CaseFoldEqual(M, strs) == \A i \in Idx(M), j \in Idx(M) : Fold(strs[i]) = Fold(strs[j]) => M[i][j] = 0

\* utf8mb4_0900_ai_ci on [0-9A-Za-z ]: SQLSem's "ci" order
InCiAlphabet(s) == \A k \in DOMAIN s : s[k] = 32 \/ (s[k] >= 48 /\ s[k] <= 57) \/ (s[k] >= 65 /\ s[k] <= 90) \/ (s[k] >= 97 /\ s[k] <= 122)
CiOrder(M, strs) ==
  \A i \in Idx(M), j \in Idx(M) :
     InCiAlphabet(strs[i]) /\ InCiAlphabet(strs[j]) => M[i][j] = CmpNN(S(strs[i]), S(strs[j]), "ci")

\* trailing spaces: ignored iff the collation is PAD SPACE
RECURSIVE Strip(_)
Strip(s) == IF s # <<>> /\ s[Len(s)] = 32 THEN Strip(SubSeq(s, 1, Len(s) - 1)) ELSE s
PadOnly(s, t) == s # t /\ Strip(s) = Strip(t)             \* differ only in trailing spaces
\* the pairs of indices whose strings differ only in trailing spaces
PadPairs(strs) ==
  LET st == [i \in DOMAIN strs |-> Strip(strs[i])] IN
  {p \in (DOMAIN strs) \X (DOMAIN strs) : st[p[1]] = st[p[2]] /\ strs[p[1]] # strs[p[2]]}
PadRule(M, strs, pad) == \A p \in PadPairs(strs) : (IF pad THEN M[p[1]][p[2]] = 0 ELSE M[p[1]][p[2]] # 0)

\* SQL operators on a column of the collation honour the same relation (R = 0/1 result matrices);
\* LIKE with a pattern without wildcards is equality, except that LIKE never pads
OpEq(M, R) == \A i \in Idx(M), j \in Idx(M) : R[i][j] = (IF M[i][j] = 0 THEN 1 ELSE 0)
OpLt(M, R) == \A i \in Idx(M), j \in Idx(M) : R[i][j] = (IF M[i][j] < 0 THEN 1 ELSE 0)
OpLike(M, R, strs) ==
  LET pp == PadPairs(strs) IN
  \A i \in Idx(M), j \in Idx(M) : <<i, j>> \notin pp => R[i][j] = (IF M[i][j] = 0 THEN 1 ELSE 0)
=============================================================================
