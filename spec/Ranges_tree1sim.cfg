\* range tree, one column over {NULL, 0, 1, 2}: -simulate behaviours (history dependent shapes)
CONSTANTS
  NV = 3
  K = 1
  MaxLen = 0
  Class = "canon"
  MaxTree = 4
  MinRem = 3
INIT InitTree
NEXT NextTree
INVARIANTS TypeTree TreeDisjoint
ACTION_CONSTRAINT EmitTree
CHECK_DEADLOCK FALSE
