\* range tree, one column over {NULL, 0, 1, 2}: -simulate behaviours (history dependent shapes)
CONSTANTS
  NV = 3
  K = 1
  MaxLen = 0
  Class = "canon"
  MaxTree = 8
  MinRem = 4
INIT InitTree
NEXT NextTree
INVARIANTS TypeTree TreeDisjoint
ACTION_CONSTRAINT EmitTree
CHECK_DEADLOCK FALSE
