\* range tree, two columns over {NULL, 0, 1}: -simulate behaviours
CONSTANTS
  NV = 2
  K = 2
  MaxLen = 0
  Class = "canon"
  MaxTree = 7
  MinRem = 4
INIT InitTree
NEXT NextTree
INVARIANTS TypeTree TreeDisjoint
ACTION_CONSTRAINT EmitTree
CHECK_DEADLOCK FALSE
