INIT Init
NEXT Next
CONSTANTS
  Event = "casc"
  MaxTrig = 2
VIEW View0
CONSTRAINT Bounded
PROPERTIES OncePerRow FailedNoEffect CascadeOnce
CHECK_DEADLOCK FALSE
