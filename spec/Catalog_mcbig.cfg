CONSTANTS
  TableNames = {"t1", "t2"}
  ColNames = {"a", "b", "c"}
  IdxNames = {"i1"}
  FkNames = {"fk1"}
  CkNames = {"ck1"}
  ViewNames = {"v1"}
  TrigNames = {"tr1"}
  ProcNames = {"p1"}
  MaxCols = 3
  MaxSteps = 5
INIT Init
NEXT Next
VIEW View
INVARIANTS TypeOK ColumnNamesUnique IndexColsExist PKNotNull FKRefsExist ConstraintNamesUnique ChecksOnExistingCols DependentsExist
PROPERTIES FailedHasNoEffect
CHECK_DEADLOCK FALSE
