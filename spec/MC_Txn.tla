------------------------------- MODULE MC_Txn -------------------------------
(* Bounded model of SQLSession (C17): NS sessions over one table t(c1 INT PRIMARY KEY, c2 INT NULL)
   with keys in {0,1} and values in Vals (at most 2 rows), every interleaving of the statements
     INSERT (k,v) / UPDATE SET c2 = v / DELETE WHERE c1 = k / a read of t
     START TRANSACTION, COMMIT, ROLLBACK, SET autocommit = 0|1, a DDL statement (CREATE INDEX)
   The state space is finite, so no depth bound is needed (the interleavings of all depths are
   covered); the ghost variables below are bounded by MaxLog.

   Ghost variables:
     hist   the set of versions of t that were ever committed
     ovl    two transactions of different sessions have overlapped in time
     tlog   per session the DML statements of its open transaction (for the serial re-execution)
     ser    the table obtained by running the committed transactions one after another
   Mech = "private"  a transaction works on private versions adopted at its first touch (memory.Session)
   Mech = "shared"   (counter-model) the writes go to the committed table object at once: TLC must
                     refute NoDirtyRead / RollbackRestores for it (guards the properties against vacuity)

   Properties (all for Mech = "private"):
     NoDirtyRead        a session that has not modified t in its open transaction sees a committed version
     RollbackRestores   after ROLLBACK the session sees the committed table, which did not change
     CommitPublishes    COMMIT (also the implicit ones) makes the session's version the committed one,
                        seen by every session without an open transaction
     AutocommitEach     with autocommit = 1 and no explicit transaction a successful statement is committed
     SerialEquivalence  while no transactions have overlapped, the committed table equals `ser`     *)
EXTENDS SQLSession, Json, SequencesExt

CONSTANTS NS, Mech, MaxLog, Vals

VARIABLES ss, act, step, hist, ovl, tlog, ser
vars == <<ss, act, step, hist, ovl, tlog, ser>>
View0 == <<ss, hist, ovl, tlog, ser>>

Sess == 1..NS
TT0 == [cols |-> <<IntCol(TRUE), IntCol(FALSE)>>, checks |-> <<>>, pk |-> <<1>>, uniq |-> <<>>, rows |-> <<>>]
St0 == [tabs |-> [t |-> TT0], autoinc |-> [t |-> 0], lastid |-> 0]
KV == {I(0), I(1)}
VV == {I(v) : v \in Vals}
cc1 == ECol(1, "none")

Dml == {SInsert("t", "plain", <<1, 2>>, << <<Cell(ELit(k)), Cell(ELit(v))>> >>, <<>>) : k \in KV, v \in VV}
       \cup {SUpdate("t", FALSE, <<SetItem(2, ELit(v))>>, ETrue, <<>>, -1) : v \in VV}
       \cup {SDelete("t", EOp2("eq", cc1, ELit(k)), <<>>, -1) : k \in KV}
Ddl == [BaseStmt EXCEPT !.k = "createindex", !.t = "t", !.name = "x", !.unique = FALSE, !.parts = << [col |-> 2, plen |-> 0] >>]

Ops == {[op |-> "stmt", stmt |-> d, val |-> 0] : d \in Dml}
       \cup {[op |-> o, stmt |-> BaseStmt, val |-> 0] : o \in {"start", "commit", "rollback", "read"}}
       \cup {[op |-> "ac", stmt |-> BaseStmt, val |-> v] : v \in {0, 1}}
       \cup {[op |-> "ddl", stmt |-> Ddl, val |-> 0]}

Canon(rows) == CanonBag(TT0, rows)
CanonSS(s0) ==
  [s0 EXCEPT !.com.tabs.t.rows = Canon(@),
             !.work = [s \in Sess |-> IF "t" \in DOMAIN s0.work[s] THEN [t |-> [s0.work[s].t EXCEPT !.rows = Canon(@)]] ELSE EmptyF]]

Init ==
  /\ ss = Init0(St0, Sess)
  /\ act = [s |-> 0, op |-> "", val |-> 0, stmt |-> BaseStmt, kind |-> "", class |-> "", commits |-> FALSE]
  /\ step = 0
  /\ hist = {<<>>}
  /\ ovl = FALSE
  /\ tlog = [s \in Sess |-> <<>>]
  /\ ser = <<>>

\* serial re-execution of a transaction's DML statements on the table `rows`
RECURSIVE RunAll(_, _)
RunAll(rows, log) ==
  IF log = <<>> THEN rows
  ELSE LET stt == [St0 EXCEPT !.tabs.t.rows = rows]
           o == CHOOSE x \in Outcomes(stt, Head(log), {}) : TRUE
       IN RunAll(Canon(o.rows), Tail(log))

\* does the step commit the acting session's transaction?
Commits(s, c, kind) ==
  \/ (c.op \in {"commit", "start"} /\ ss.open[s])
  \/ (c.op = "stmt" /\ ss.ac[s] /\ ~ss.expl[s] /\ kind = "ok")
  \/ c.op = "ddl"
  \/ (c.op = "ac" /\ c.val = 1 /\ ~ss.ac[s] /\ ss.open[s])

Shared(ns, s) == IF Mech = "shared" /\ "t" \in DOMAIN ns.work[s] THEN [ns EXCEPT !.com.tabs.t.rows = ns.work[s].t.rows] ELSE ns

\* the successors of choice c = [op, stmt, val] for session s: records [ns, kind, class]
Succ(s, c) ==
  CASE c.op = "stmt" -> {[ns |-> Shared(StmtS(ss, s, c.stmt, o), s), kind |-> o.reply.kind, class |-> o.reply.class] :
                            o \in StmtOutcomes(ss, s, c.stmt, {})}
    [] c.op = "ddl" -> {[ns |-> DdlS(ss, s, c.stmt, o), kind |-> o.reply.kind, class |-> o.reply.class] : o \in DdlOutcomes(ss, s, c.stmt)}
    [] c.op = "start" -> {[ns |-> BeginS(ss, s), kind |-> "ok", class |-> ""]}
    [] c.op = "commit" -> {[ns |-> CommitS(ss, s), kind |-> "ok", class |-> ""]}
    [] c.op = "rollback" -> {[ns |-> RollbackS(ss, s), kind |-> "ok", class |-> ""]}
    [] c.op = "ac" -> {[ns |-> SetAcS(ss, s, c.val = 1), kind |-> "ok", class |-> ""]}
    [] c.op = "read" -> {[ns |-> (IF ss.open[s] \/ ~ss.ac[s] THEN [Touch(ss, s, {"t"}) EXCEPT !.open[s] = TRUE] ELSE ss), kind |-> "rows", class |-> ""]}

Do(s, c, r) ==
  LET commits == Commits(s, c, r.kind)
      ns == CanonSS(r.ns)
      o2 == ovl \/ OthersOpen(ss, s)
      lg == IF c.op = "stmt" /\ ~commits /\ ns.open[s] THEN Append(tlog[s], c.stmt)
            ELSE IF ns.open[s] /\ c.op \notin {"start"} THEN tlog[s] ELSE <<>>
      \* what the committed transaction consisted of
      done == IF c.op = "stmt" /\ commits THEN Append(tlog[s], c.stmt) ELSE tlog[s]
  IN /\ ss' = ns
     /\ act' = [s |-> s, op |-> c.op, val |-> c.val, stmt |-> c.stmt, kind |-> r.kind, class |-> r.class, commits |-> commits]
     /\ step' = step + 1
     /\ hist' = hist \cup (IF commits THEN {ns.com.tabs.t.rows} ELSE {})
     /\ ovl' = o2
     /\ tlog' = IF o2 THEN [x \in Sess |-> <<>>] ELSE [tlog EXCEPT ![s] = lg]
     /\ ser' = IF o2 THEN <<>> ELSE IF commits THEN RunAll(ser, done) ELSE ser

\* SET autocommit inside an explicit transaction is outside the modelled fragment (murky: MySQL commits on
\* a 0 -> 1 switch even there) and not generated
Enabled(s, c) == c.op = "ac" => ~ss.expl[s]
Next == \E s \in Sess : \E c \in Ops : Enabled(s, c) /\ \E r \in Succ(s, c) : Do(s, c, r)

Spec == Init /\ [][Next]_vars

Bounded == \A s \in Sess : Len(tlog[s]) <= MaxLog

\* ------------------------------------------------------------------ properties
NoDirtyRead ==
  \A s \in Sess : ("t" \notin DOMAIN ss.work[s]) => Visible(ss, s, "t") \in hist

RollbackRestoresAct ==
  (act'.op = "rollback") => /\ ss'.com = ss.com
                            /\ Visible(ss', act'.s, "t") = ss.com.tabs.t.rows
RollbackRestores == [][RollbackRestoresAct]_vars

CommitPublishesAct ==
  (act'.commits /\ act'.op # "ddl") =>
     LET s == act'.s
         mine == IF act'.op = "stmt" THEN ss'.com.tabs.t.rows      \* (an autocommit statement: judged by AutocommitEach)
                 ELSE Visible(ss, s, "t")
     IN /\ ss'.com.tabs.t.rows = mine
        /\ \A y \in Sess : ~ss'.open[y] => Visible(ss', y, "t") = mine
CommitPublishes == [][CommitPublishesAct]_vars

AutocommitEachAct ==
  (act'.op = "stmt" /\ ss.ac[act'.s] /\ ~ss.expl[act'.s]) =>
     /\ ~ss'.open[act'.s]
     /\ act'.kind = "ok" =>
          \E o \in StmtOutcomes(ss, act'.s, act'.stmt, {}) : o.reply.kind = "ok" /\ Canon(o.rows) = ss'.com.tabs.t.rows
     /\ act'.kind = "err" => ss'.com = ss.com
AutocommitEach == [][AutocommitEachAct]_vars

SerialEquivalence == ~ovl => ss.com.tabs.t.rows = ser

\* ------------------------------------------------------------------ binding A: simulated behaviours
\* one random successor per step (drawn inside the step), so that the Emit action constraint prints
\* exactly the transitions of the behaviour; step = 1 starts a new behaviour
SimNext ==
  \E rv \in {[i \in 1..4 |-> RandomElement(step..(step + 9999))]} :   \* one draw per step (state-level, so TLC does not cache it), bound to a value
     LET s == 1 + (rv[1] % NS)
         \* transaction control is as likely as data statements
         pool == IF rv[2] % 10 < 6 THEN {o \in Ops : o.op \in {"stmt", "read"}} ELSE {o \in Ops : o.op \notin {"stmt", "read"}}
         ps == SetToSeq({o \in pool : Enabled(s, o)})
         c == ps[1 + (rv[3] % Len(ps))]
         rs == SetToSeq(Succ(s, c))
         r == rs[1 + (rv[4] % Len(rs))]
     IN Do(s, c, r)

ViewsOf(x) == [s \in Sess |-> Visible(x, s, "t")]
Emit ==
  PrintT("TR " \o ToJson([step |-> step', s |-> act'.s, op |-> act'.op, val |-> act'.val, stmt |-> act'.stmt,
                           kind |-> act'.kind, class |-> act'.class, commits |-> act'.commits, ovl |-> ovl',
                           post |-> ViewsOf(ss'), open |-> ss'.open, ac |-> ss'.ac]))
StepBound == step < 14
ASSUME PrintT("SC " \o ToJson(St0.tabs))
=============================================================================
