CONSTANTS
  MaxTasks = 4
  PanicKinds = {"string", "error", "nilmap", "index", "nilptr", "nil", "nilerr", "typednil", "int"}
  Modes = {"group", "inner", "log"}
INIT TInit
NEXT TNext
CONSTRAINT Judge HW
POSTCONDITION Accepted
CHECK_DEADLOCK FALSE
