----------------------------- MODULE MC_Window -----------------------------
(* Binding A of property C08 and the design-level laws of SQLWindow.

   Space: every partition of <= MaxRows rows (o, v) over {NULL, 0, 1, 2} x every window specification
   (ORDER BY none / asc / desc; default frame, ROWS or RANGE BETWEEN {UNBOUNDED PRECEDING, n PRECEDING,
   CURRENT ROW, n FOLLOWING} AND {n PRECEDING, CURRENT ROW, n FOLLOWING, UNBOUNDED FOLLOWING}, n <= 2,
   start not after end as SQL demands) x every function.  TLC checks laws that tie the definitions
   together (frames are peer-closed intervals; COUNT/SUM/AVG/MIN/MAX agree; RANK / DENSE_RANK /
   ROW_NUMBER are ordered; NTILE buckets are balanced and descending in size; LAG and LEAD are inverse)
   on the enumerated (thorough: rows <= 3, exhaustive) or sampled (-simulate) space, and emits
   (table, queries) cases that harness/cmd/c08 executes on the engine; spec/Trace_Window.tla judges
   the recorded results with the engine's own row order among peers. *)
EXTENDS SQLWindow, Json

CONSTANT MaxRows

Vals == {NULL, I(0), I(1), I(2)}
Tables == UNION {[1..n -> Vals \X Vals] : n \in 0..MaxRows}
MkRows(t) == [i \in DOMAIN t |-> <<I(i), I(1), t[i][1], t[i][2]>>]

Offs == 0..2
Starts == {[k |-> "up", n |-> 0], [k |-> "cr", n |-> 0]} \cup {[k |-> "p", n |-> x] : x \in Offs} \cup {[k |-> "f", n |-> x] : x \in Offs}
Ends == {[k |-> "uf", n |-> 0], [k |-> "cr", n |-> 0]} \cup {[k |-> "p", n |-> x] : x \in Offs} \cup {[k |-> "f", n |-> x] : x \in Offs}
ValidPair(s, e) == CASE s.k = "cr" -> e.k # "p"
                     [] s.k = "f" -> e.k \in {"f", "uf"}
                     [] OTHER -> TRUE
Numeric(b) == b.k \in {"p", "f"}
Specs == {[dir |-> d, frame |-> [unit |-> "none", s |-> [k |-> "up", n |-> 0], e |-> [k |-> "cr", n |-> 0]]] : d \in {"none", "asc", "desc"}}
         \cup {[dir |-> d, frame |-> [unit |-> u, s |-> s, e |-> e]] :
                 d \in {"none", "asc", "desc"}, u \in {"rows", "range"}, s \in Starts, e \in Ends}
OKSpec(w) == w.frame.unit = "none" \/
             (/\ ValidPair(w.frame.s, w.frame.e)
              /\ (w.frame.unit = "range" /\ w.dir = "none") => ~Numeric(w.frame.s) /\ ~Numeric(w.frame.e))
WSpecs == {w \in Specs : OKSpec(w)}

VARIABLES tbl, ws, phase
vars == <<tbl, ws, phase>>

Init == tbl \in Tables /\ ws = (CHOOSE w \in WSpecs : TRUE) /\ phase = 0
Next == phase = 0 /\ phase' = 1 /\ ws' \in WSpecs /\ UNCHANGED tbl
\* sampling variant for -simulate (TLC evaluates the initial predicate once: draw everything in the step)
SInit == tbl = <<>> /\ ws = (CHOOSE w \in WSpecs : TRUE) /\ phase = 0
SNext == phase = 0 /\ phase' = 1 /\ tbl' = RandomElement(Tables) /\ ws' = RandomElement(WSpecs)

Q0(fn, k, w) == [fn |-> fn, arg |-> "v", k |-> k, def |-> I(9), part |-> TRUE, dir |-> w.dir, frame |-> w.frame]

\* a canonical valid row order for checking the laws: by sort key, then id
CanonRn(T, q) == [id \in {RId(r) : r \in Range(T)} |->
                    LET r == CHOOSE x \in Range(T) : RId(x) = id IN
                    1 + Cardinality({y \in Range(T) : DK(q, y) < DK(q, r) \/ (DK(q, y) = DK(q, r) /\ RId(y) < id)})]

Laws ==
  phase = 1 =>
  LET T == MkRows(tbl)
      q(fn) == Q0(fn, 1, ws)
      rn == CanonRn(T, q("sum"))
      n == Len(T)
      val(fn, r) == WinVal(T, q(fn), rn, r)
  IN /\ RnValid(T, q("sum"), rn)
     /\ \A r \in Range(T) :
          LET F == Frame(T, q("sum"), rn, r)
              pos == {rn[RId(y)] : y \in F}
              cnt == val("count", r).v
              sm == val("sum", r)
              av == val("avg", r)
          IN /\ \A a \in pos : \A b \in pos : \A c \in 1..n : (a <= c /\ c <= b) => c \in pos        \* an interval of positions
             /\ ws.frame.unit # "rows" => \A y \in F : \A z \in Range(T) : DK(q("sum"), z) = DK(q("sum"), y) => z \in F   \* peer-closed
             /\ val("countstar", r) = I(Cardinality(F))
             /\ cnt <= Cardinality(F)
             /\ IsN(sm) = (cnt = 0) /\ IsN(av) = (cnt = 0) /\ IsN(val("min", r)) = (cnt = 0) /\ IsN(val("max", r)) = (cnt = 0)
             /\ cnt > 0 => /\ av = Q(sm.v, cnt)
                           /\ val("min", r).v * cnt <= sm.v /\ sm.v <= val("max", r).v * cnt
             /\ IsN(val("first_value", r)) \/ IsN(val("last_value", r)) \/ cnt > 0
             /\ val("dense_rank", r).v <= val("rank", r).v /\ val("rank", r).v <= rn[RId(r)]
             /\ \A y \in Range(T) : DK(q("sum"), y) = DK(q("sum"), r) => val("rank", y) = val("rank", r)
     /\ \A k \in 1..3 :
          LET nt(r) == WinVal(T, Q0("ntile", k, ws), rn, r).v
              size(b) == Cardinality({r \in Range(T) : nt(r) = b})
          IN /\ \A x \in Range(T) : \A y \in Range(T) : rn[RId(x)] < rn[RId(y)] => nt(x) <= nt(y)
             /\ {nt(r) : r \in Range(T)} = 1..Min2(k, n)
             /\ \A a \in 1..k : \A b \in 1..k : a < b => (size(a) >= size(b) /\ size(a) - size(b) <= 1)
     /\ \A k \in 0..2 : \A x \in Range(T) : \A y \in Range(T) :
          rn[RId(y)] = rn[RId(x)] + k =>
             /\ WinVal(T, Q0("lag", k, ws), rn, y) = RV(x)
             /\ WinVal(T, Q0("lead", k, ws), rn, x) = RV(y)

\* functions that take the frame / functions that ignore it (emitted with the default frame)
FrameFns == <<"first_value", "last_value", "count", "countstar", "sum", "avg", "min", "max">>
RankFns == <<"row_number", "rank", "dense_rank", "percent_rank">>
NoFrame(w) == [w EXCEPT !.frame = [unit |-> "none", s |-> [k |-> "up", n |-> 0], e |-> [k |-> "cr", n |-> 0]]]
Wins(w) == [i \in DOMAIN FrameFns |-> Q0(FrameFns[i], 0, w)]
           \o [i \in DOMAIN RankFns |-> Q0(RankFns[i], 0, NoFrame(w))]
           \o << Q0("ntile", 2, NoFrame(w)), Q0("ntile", 3, NoFrame(w)), Q0("lag", 1, NoFrame(w)), Q0("lead", 2, NoFrame(w)),
                 [Q0("lag", 2, NoFrame(w)) EXCEPT !.def = NULL] >>
Emit == PrintT("CASE " \o ToJson([rows |-> MkRows(tbl'), wins |-> Wins(ws')]))
=============================================================================
