---------------------------- MODULE MC_RegexRef ----------------------------
(* C33, binding A: TLC enumerates patterns (ASTs of operator depth <= 2 over the common subset) x
   subjects (length <= MaxSub over the alphabet Sigma) and emits, per pair,
       CASE {re, s, nt, qs}      qs = <<[fn, pos, occ, ro, exp]..>>
   with the expected value of REGEXP_LIKE, REGEXP_INSTR(pos, occurrence, return_option),
   REGEXP_SUBSTR(pos, occurrence) and REGEXP_REPLACE(.., 'X', pos, occurrence) for pos in 1..2
   (within the subject), occurrence 1..3 (0..2 for REPLACE), computed by RegexRef.  The invariant
   Sane checks the matcher's own laws on every enumerated pair (ordered ends = declarative ends,
   matches well formed and leftmost, the four functions mutually consistent).

   Depth 0: atoms.  Depth 1 (D1): a quantified consuming atom, atom | atom, atom atom.
   Depth 2 (D2): a quantified group of a non-nullable D1 pattern, p | q and p q over atoms and D1.
   Init chooses the subject, Next the pattern.  Deep = FALSE enumerates atoms and D1 only, Deep = TRUE
   also the part D2E of D2;
   SInit/SNext draw random (D2 pattern, subject) pairs for `-simulate`. *)
EXTENDS RegexRef, Json

CONSTANTS Sigma,      \* subject alphabet (code points), e.g. {97, 98}
          MaxSub,     \* longest subject
          Deep        \* TRUE: also the depth-2 patterns D2E

VN == [t |-> "n"]
VI(n) == [t |-> "i", i |-> n]
VS(x) == [t |-> "s", s |-> x]
VE == [t |-> "e"]

Subjects == UNION {[1..n -> Sigma] : n \in 0..MaxSub}
C0 == {Lit(97), Lit(98), Dot, Cls(FALSE, {97, 98}), Cls(TRUE, {97})}        \* consuming atoms
A0 == C0 \cup {Bol, Eol}
Q1 == {Qn(q, x) : q \in {"star", "plus", "opt"}, x \in C0}
D1 == Q1 \cup {Alt(x, y) : x \in A0, y \in A0} \cup {Cat(x, y) : x \in A0, y \in A0}
P1 == A0 \cup D1
\* an operand of a concatenation must not be a bare alternation
G(p) == IF p.k = "alt" THEN Grp(p) ELSE p
D2 == {Qn(q, Grp(p)) : q \in {"star", "plus", "opt"}, p \in {x \in D1 : ~Nullable(x)}}
      \cup {Alt(p, q) : p \in P1, q \in P1}
      \cup {Cat(G(p), G(q)) : p \in P1, q \in P1}
\* the part of D2 that the thorough tier enumerates completely (right operands: atoms and quantified atoms);
\* the whole of D2 is sampled by SNext
D2E == {Qn(q, Grp(p)) : q \in {"star", "plus", "opt"}, p \in {x \in D1 : ~Nullable(x)}}
       \cup {Alt(p, q) : p \in P1, q \in A0 \cup Q1}
       \cup {Cat(G(p), q) : p \in P1, q \in A0 \cup Q1}

VARIABLES s, p, ph
vars == <<s, p, ph>>

Repl == <<88>>           \* 'X'
Poss(x) == {q \in 1..2 : q <= Len(x) + 1}
\* recorded deviations of the engine's REGEXP_REPLACE (known findings; classification only)
ReplaceDev(x, pos) ==
  IF x # <<>> /\ pos = Len(x) + 1 THEN <<[n |-> "pos-at-end-error", v |-> VE]>>
  ELSE IF x = <<>> THEN <<[n |-> "empty-subject-unchanged", v |-> VS(<<>>)]>> ELSE <<>>
Queries(re, x) ==
  <<[fn |-> "like", pos |-> 1, occ |-> 1, ro |-> 0, exp |-> VI(IF Like(re, x) THEN 1 ELSE 0), dev |-> <<>>]>>
  \o Flat([pos \in 1..Cardinality(Poss(x)) |->
       LET ms == AllMatches(re, x, pos) IN
       Flat([occ \in 1..3 |->
         <<[fn |-> "instr", pos |-> pos, occ |-> occ, ro |-> 0, exp |-> VI(InstrM(ms, occ, 0)), dev |-> <<>>],
           [fn |-> "instr", pos |-> pos, occ |-> occ, ro |-> 1, exp |-> VI(InstrM(ms, occ, 1)), dev |-> <<>>],
           [fn |-> "substr", pos |-> pos, occ |-> occ, ro |-> 0,
            exp |-> IF FoundM(ms, occ) THEN VS(SubstrM(x, ms, occ)) ELSE VN, dev |-> <<>>],
           [fn |-> "replace", pos |-> pos, occ |-> occ - 1, ro |-> 0, exp |-> VS(ReplaceM(x, ms, Repl, occ - 1)),
            dev |-> ReplaceDev(x, pos)]>>])])

\* non-trivial: the pattern has an operator (is not an atom) and matches somewhere in the subject
NT(re, x) == re \notin A0 /\ Like(re, x)
Mk(re, x) == [re |-> re, s |-> x, nt |-> NT(re, x), nm |-> Len(AllMatches(re, x, 1)), qs |-> Queries(re, x)]
NoPat == [k |-> "none"]

Init == ph = 0 /\ p = NoPat /\ s \in Subjects
Next == ph = 0 /\ ph' = 1 /\ s' = s /\ p' \in (IF Deep THEN P1 \cup D2E ELSE P1)

\* random depth-2 pairs, one per step (drawn in the step)
\* (the pattern pools are computed once, while the assumptions are checked, and read from TLC registers)
ASSUME TLCSet(2, P1) /\ TLCSet(3, {x \in D1 : ~Nullable(x)}) /\ TLCSet(4, Subjects)
RandP1(i) == RandomElement(TLCGet(2))
RandD2(i) ==
  LET kind == RandomElement(1..5) IN
  IF kind = 1 THEN Qn(RandomElement({"star", "plus", "opt"}), Grp(RandomElement(TLCGet(3))))
  ELSE IF kind <= 3 THEN Alt(RandP1(i), RandP1(i + 1))
  ELSE Cat(G(RandP1(i)), G(RandP1(i + 1)))
SInit == ph = 0 /\ p = NoPat /\ s = <<>>
SNext == ph' = ph + 1 /\ p' = RandD2(ph) /\ s' = RandomElement(TLCGet(4))

Emit == PrintT("CASE " \o ToJson(Mk(p', s')))

\* ---- sanity of the reference matcher on every enumerated pair
Consistent(re, x) ==
  \A pos \in Poss(x) :
    LET ms == AllMatches(re, x, pos) IN
    \A occ \in 1..3 :
      LET i0 == InstrM(ms, occ, 0)  i1 == InstrM(ms, occ, 1) IN
      /\ (i0 > 0 <=> FoundM(ms, occ))
      /\ (i0 > 0 => i1 = i0 + Len(SubstrM(x, ms, occ)) /\ SubSeq(x, i0, i1 - 1) = SubstrM(x, ms, occ))
      /\ (i0 > 0 => ReplaceM(x, ms, Repl, occ) = Take(x, i0 - 1) \o Repl \o Drop(x, i1 - 1))
      /\ (i0 = 0 => ReplaceM(x, ms, Repl, occ) = x)
Sane == p # NoPat =>
  /\ OrderedEndsComplete(p, s)
  /\ \A from \in Poss(s) : MatchesWellFormed(p, s, from)
  /\ Consistent(p, s)
  /\ (Like(p, s) <=> Instr(p, s, 1, 1, 0) > 0)
=============================================================================
