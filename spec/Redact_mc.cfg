CONSTANTS
  Clients = {c1, c2, c3}
  Lexemes = {a, b}
  MaxCalls = 2
  Recheck = TRUE
INIT MInit
NEXT MNext
INVARIANTS TypeOK LockOK Injective CountersMatch RepliesAgree NoOrphans
PROPERTIES Stable
SYMMETRY Symm
CHECK_DEADLOCK FALSE
