CONSTANTS R = 500
          RS = 40
INIT LInit
NEXT LNext
INVARIANT Laws
CHECK_DEADLOCK FALSE
