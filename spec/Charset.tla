------------------------------- MODULE Charset -------------------------------
(* C30.  Character set codecs as a specification.

   A character set is a partial map from Unicode code points to non-empty byte sequences (its CODE
   WORDS).  A string is a sequence of code points; a string is converted into the character set by
   concatenating the code words of its characters and converted back by cutting the byte string into
   code words again.

   1. ALGORITHMIC character sets are written out from their definitions (Unicode 3.9 D92 / Table 3-6,
      Table 3-7; RFC 2781; MySQL's restrictions):
        utf8mb4  1-4 byte UTF-8, scalar values 0..10FFFF (no surrogates), shortest form only
        utf8mb3  the same restricted to <= FFFF (a 4-byte sequence is NOT a utf8mb3 string)
        utf16    big-endian 16-bit units, surrogate pairs above FFFF, a lone surrogate is ill-formed
        utf16le  the same, little-endian units
        utf32    4 bytes big-endian, scalar values only
        ucs2     2 bytes big-endian, <= FFFF, no surrogate pairs
        ascii    one byte <= 7F
      `binary` is not a character set with code points: conversion to and from it is the identity on
      the stored bytes (the engine's stored bytes are UTF-8), see PassThrough.
      Enc(cs, cp) = code word or None;  Dec(cs, bytes) = code points or Illformed;  Representable.
      Dec is written from the bit layout (length from the lead byte, payload bits, then "is the
      shortest form of a scalar value in range");  WellFormed is written independently from the
      byte-range table (Table 3-7) and the two are model-checked against each other.

   2. TABLE laws for ANY character set, over an abstract table T (function code point -> code word):
        Injective, PrefixFree (no code word is a proper prefix of another: required for cutting a byte
        string into code words on the fly), NonEmptyWords;  then TDec(T, TEncStr(T, s)) = s.
      An unrepresentable character is REPORTED (strict encoding fails) or REPLACED by '?'
      (TEncStrReplace) -- never anything else.

   The model checking of these definitions is in MC_Charset.tla; the real code is judged against them
   in Trace_Charset.tla. *)
EXTENDS Integers, Sequences, FiniteSets, TLC

MaxCP == 1114111            \* 10FFFF
None == <<-1>>              \* "no code word"
Illformed == <<-1>>         \* "not a string of this character set"
QMark == 63

Mod(x, y) == x % y
Div(x, y) == x \div y
InR(x, lo, hi) == x >= lo /\ x <= hi

IsSurrogate(cp) == InR(cp, 55296, 57343)                 \* D800..DFFF
IsScalar(cp) == InR(cp, 0, MaxCP) /\ ~IsSurrogate(cp)

AlgSets == {"utf8mb4", "utf8mb3", "utf16", "utf16le", "utf32", "ucs2", "ascii"}
PassThrough == {"binary"}

Representable(cs, cp) ==
    CASE cs \in {"utf8mb4", "utf16", "utf16le", "utf32"} -> IsScalar(cp)
      [] cs \in {"utf8mb3", "ucs2"} -> IsScalar(cp) /\ cp <= 65535
      [] cs = "ascii" -> InR(cp, 0, 127)
      [] cs = "binary" -> IsScalar(cp)       \* passes through as the stored (UTF-8) bytes

MaxLen(cs) == CASE cs \in {"utf8mb4", "utf16", "utf16le", "utf32", "binary"} -> 4
                [] cs = "utf8mb3" -> 3
                [] cs = "ucs2" -> 2
                [] cs = "ascii" -> 1

\* ---------------------------------------------------------------- encoding
Utf8(cp) ==
    IF cp <= 127 THEN <<cp>>
    ELSE IF cp <= 2047 THEN <<192 + Div(cp, 64), 128 + Mod(cp, 64)>>
    ELSE IF cp <= 65535 THEN <<224 + Div(cp, 4096), 128 + Mod(Div(cp, 64), 64), 128 + Mod(cp, 64)>>
    ELSE <<240 + Div(cp, 262144), 128 + Mod(Div(cp, 4096), 64), 128 + Mod(Div(cp, 64), 64), 128 + Mod(cp, 64)>>

BE2(u) == <<Div(u, 256), Mod(u, 256)>>
LE2(u) == <<Mod(u, 256), Div(u, 256)>>
HiSur(cp) == 55296 + Div(cp - 65536, 1024)
LoSur(cp) == 56320 + Mod(cp - 65536, 1024)
Utf16BE(cp) == IF cp <= 65535 THEN BE2(cp) ELSE BE2(HiSur(cp)) \o BE2(LoSur(cp))
Utf16LE(cp) == IF cp <= 65535 THEN LE2(cp) ELSE LE2(HiSur(cp)) \o LE2(LoSur(cp))
Utf32BE(cp) == <<0, Div(cp, 65536), Mod(Div(cp, 256), 256), Mod(cp, 256)>>

Enc(cs, cp) ==
    IF ~Representable(cs, cp) THEN None
    ELSE CASE cs \in {"utf8mb4", "utf8mb3", "binary"} -> Utf8(cp)
           [] cs = "utf16" -> Utf16BE(cp)
           [] cs = "utf16le" -> Utf16LE(cp)
           [] cs = "utf32" -> Utf32BE(cp)
           [] cs = "ucs2" -> BE2(cp)
           [] cs = "ascii" -> <<cp>>

\* ---------------------------------------------------------------- decoding one character at position i
\* result <<code point, number of bytes>>;  Fail1 when no well-formed character starts at i
Fail1 == <<-1, 0>>
IsCont(x) == InR(x, 128, 191)

Dec1Utf8(b, i, maxcp) ==
    LET avail == Len(b) - i + 1
        b0 == b[i]
        n == IF b0 < 128 THEN 1
             ELSE IF InR(b0, 192, 223) THEN 2
             ELSE IF InR(b0, 224, 239) THEN 3
             ELSE IF InR(b0, 240, 247) THEN 4
             ELSE 0
    IN IF n = 0 \/ n > avail THEN Fail1
       ELSE IF \E k \in 1..(n - 1) : ~IsCont(b[i + k]) THEN Fail1
       ELSE LET v == CASE n = 1 -> b0
                       [] n = 2 -> (b0 - 192) * 64 + (b[i + 1] - 128)
                       [] n = 3 -> (b0 - 224) * 4096 + (b[i + 1] - 128) * 64 + (b[i + 2] - 128)
                       [] n = 4 -> (b0 - 240) * 262144 + (b[i + 1] - 128) * 4096 + (b[i + 2] - 128) * 64 + (b[i + 3] - 128)
            IN IF v <= maxcp /\ IsScalar(v) /\ Len(Utf8(v)) = n THEN <<v, n>> ELSE Fail1

Dec1Utf16(b, i, le) ==
    LET avail == Len(b) - i + 1
        U(k) == IF le THEN b[i + k + 1] * 256 + b[i + k] ELSE b[i + k] * 256 + b[i + k + 1]
    IN IF avail < 2 THEN Fail1
       ELSE LET u == U(0)
            IN IF InR(u, 55296, 56319)                                  \* high surrogate: needs a low one
               THEN IF avail >= 4 /\ InR(U(2), 56320, 57343)
                    THEN <<65536 + (u - 55296) * 1024 + (U(2) - 56320), 4>>
                    ELSE Fail1
               ELSE IF InR(u, 56320, 57343) THEN Fail1                 \* lone low surrogate
               ELSE <<u, 2>>

Dec1Utf32(b, i) ==
    IF Len(b) - i + 1 < 4 \/ b[i] # 0 THEN Fail1
    ELSE LET v == b[i + 1] * 65536 + b[i + 2] * 256 + b[i + 3]
         IN IF IsScalar(v) THEN <<v, 4>> ELSE Fail1

Dec1Ucs2(b, i) ==
    IF Len(b) - i + 1 < 2 THEN Fail1
    ELSE LET u == b[i] * 256 + b[i + 1] IN IF IsSurrogate(u) THEN Fail1 ELSE <<u, 2>>

Dec1(cs, b, i) ==
    CASE cs = "utf8mb4" -> Dec1Utf8(b, i, MaxCP)
      [] cs = "utf8mb3" -> Dec1Utf8(b, i, 65535)
      [] cs = "utf16" -> Dec1Utf16(b, i, FALSE)
      [] cs = "utf16le" -> Dec1Utf16(b, i, TRUE)
      [] cs = "utf32" -> Dec1Utf32(b, i)
      [] cs = "ucs2" -> Dec1Ucs2(b, i)
      [] cs = "ascii" -> IF b[i] <= 127 THEN <<b[i], 1>> ELSE Fail1

RECURSIVE DecFrom(_, _, _)
DecFrom(cs, b, i) ==
    IF i > Len(b) THEN <<>>
    ELSE LET r == Dec1(cs, b, i)
         IN IF r[2] = 0 THEN Illformed
            ELSE LET rest == DecFrom(cs, b, i + r[2])
                 IN IF rest = Illformed THEN Illformed ELSE <<r[1]>> \o rest

Dec(cs, b) == DecFrom(cs, b, 1)

\* ---------------------------------------------------------------- well-formedness, independently (byte ranges)
\* Unicode Table 3-7 "Well-Formed UTF-8 Byte Sequences": length of the sequence starting at i, 0 if none
T37Len(b, i, mb4) ==
    LET a == Len(b) - i + 1
        B(k) == b[i + k]
    IN IF InR(B(0), 0, 127) THEN 1
       ELSE IF a >= 2 /\ InR(B(0), 194, 223) /\ IsCont(B(1)) THEN 2
       ELSE IF a >= 3 /\ B(0) = 224 /\ InR(B(1), 160, 191) /\ IsCont(B(2)) THEN 3
       ELSE IF a >= 3 /\ (InR(B(0), 225, 236) \/ InR(B(0), 238, 239)) /\ IsCont(B(1)) /\ IsCont(B(2)) THEN 3
       ELSE IF a >= 3 /\ B(0) = 237 /\ InR(B(1), 128, 159) /\ IsCont(B(2)) THEN 3
       ELSE IF mb4 /\ a >= 4 /\ B(0) = 240 /\ InR(B(1), 144, 191) /\ IsCont(B(2)) /\ IsCont(B(3)) THEN 4
       ELSE IF mb4 /\ a >= 4 /\ InR(B(0), 241, 243) /\ IsCont(B(1)) /\ IsCont(B(2)) /\ IsCont(B(3)) THEN 4
       ELSE IF mb4 /\ a >= 4 /\ B(0) = 244 /\ InR(B(1), 128, 143) /\ IsCont(B(2)) /\ IsCont(B(3)) THEN 4
       ELSE 0

\* UTF-16 (RFC 2781 2.2): a unit outside D800..DFFF, or a D800..DBFF unit followed by a DC00..DFFF unit
Wf16Len(b, i, le) ==
    LET a == Len(b) - i + 1
        hi(k) == IF le THEN b[i + k + 1] ELSE b[i + k]          \* the high byte of the unit starting at i+k
    IN IF a < 2 THEN 0
       ELSE IF ~InR(hi(0), 216, 223) THEN 2
       ELSE IF InR(hi(0), 216, 219) /\ a >= 4 /\ InR(hi(2), 220, 223) THEN 4
       ELSE 0

Wf32Len(b, i) ==
    IF Len(b) - i + 1 < 4 THEN 0
    ELSE IF b[i] = 0 /\ InR(b[i + 1], 0, 16) /\ ~(b[i + 1] = 0 /\ InR(b[i + 2], 216, 223)) THEN 4
    ELSE 0

WfLen(cs, b, i) ==
    CASE cs = "utf8mb4" -> T37Len(b, i, TRUE)
      [] cs = "utf8mb3" -> T37Len(b, i, FALSE)
      [] cs = "utf16" -> Wf16Len(b, i, FALSE)
      [] cs = "utf16le" -> Wf16Len(b, i, TRUE)
      [] cs = "utf32" -> Wf32Len(b, i)
      [] cs = "ucs2" -> IF Len(b) - i + 1 >= 2 /\ ~InR(b[i], 216, 223) THEN 2 ELSE 0
      [] cs = "ascii" -> IF b[i] <= 127 THEN 1 ELSE 0

RECURSIVE WellFormedFrom(_, _, _)
WellFormedFrom(cs, b, i) ==
    IF i > Len(b) THEN TRUE
    ELSE LET n == WfLen(cs, b, i) IN n > 0 /\ WellFormedFrom(cs, b, i + n)
WellFormed(cs, b) == WellFormedFrom(cs, b, 1)

\* why a byte string is ill-formed (only reported with a disagreement)
IllClass(cs, b) ==
    IF WellFormed(cs, b) THEN "wellformed"
    ELSE IF cs \in {"utf8mb4", "utf8mb3"} THEN
        (IF \E i \in DOMAIN b : b[i] \in {192, 193} \/ b[i] >= 245 THEN "never-valid-byte"
         ELSE IF cs = "utf8mb3" /\ WellFormed("utf8mb4", b) THEN "four-byte-in-mb3"
         ELSE IF \E i \in DOMAIN b : (b[i] = 237 /\ i < Len(b) /\ InR(b[i + 1], 160, 191)) THEN "surrogate"
         ELSE IF \E i \in DOMAIN b : (b[i] = 224 /\ i < Len(b) /\ InR(b[i + 1], 128, 159))
                                      \/ (b[i] = 240 /\ i < Len(b) /\ InR(b[i + 1], 128, 143)) THEN "overlong"
         ELSE IF \E i \in DOMAIN b : b[i] = 244 /\ i < Len(b) /\ InR(b[i + 1], 144, 191) THEN "above-10FFFF"
         ELSE "truncated-or-stray-continuation")
    ELSE IF cs \in {"utf16", "utf16le", "ucs2"} THEN (IF Mod(Len(b), 2) = 1 THEN "odd-length" ELSE "lone-surrogate")
    ELSE IF cs = "utf32" THEN (IF Mod(Len(b), 4) # 0 THEN "truncated" ELSE "not-a-scalar-value")
    ELSE "high-bit"

\* ---------------------------------------------------------------- strings
RECURSIVE Concat(_)
Concat(ws) == IF ws = <<>> THEN <<>> ELSE Head(ws) \o Concat(Tail(ws))

AllRepresentable(cs, s) == \A i \in DOMAIN s : Representable(cs, s[i])
\* strict: the failure is reported
EncStr(cs, s) == IF AllRepresentable(cs, s) THEN Concat([i \in DOMAIN s |-> Enc(cs, s[i])]) ELSE None
\* lenient: '?' for every unrepresentable character
Replaced(cs, s) == [i \in DOMAIN s |-> IF Representable(cs, s[i]) THEN s[i] ELSE QMark]
EncStrReplace(cs, s) == Concat([i \in DOMAIN s |-> Enc(cs, Replaced(cs, s)[i])])
Utf8Str(s) == Concat([i \in DOMAIN s |-> Utf8(s[i])])

\* code words as numbers (big-endian), used by the range projection: inside a recorded range the code
\* words of consecutive code points are consecutive numbers
RECURSIVE NumFrom(_, _, _)
NumFrom(w, i, acc) == IF i > Len(w) THEN acc ELSE NumFrom(w, i + 1, acc * 256 + w[i])
\* 4-byte words with a first byte >= 128 would overflow int32: the first byte is kept apart
WordKey(w) == IF Len(w) <= 3 THEN <<0, NumFrom(w, 1, 0)>> ELSE <<w[1], NumFrom(w, 2, 0)>>
\* the word that is d steps after w as a big-endian number of the same length (d < 2^24)
WordPlus(w, d) ==
    LET n == Len(w)
        low == IF n <= 3 THEN NumFrom(w, 1, 0) + d ELSE NumFrom(w, 2, 0) + d
    IN CASE n = 1 -> <<low>>
         [] n = 2 -> <<Div(low, 256), Mod(low, 256)>>
         [] n = 3 -> <<Div(low, 65536), Mod(Div(low, 256), 256), Mod(low, 256)>>
         [] n = 4 -> <<w[1] + Div(low, 16777216), Mod(Div(low, 65536), 256), Mod(Div(low, 256), 256), Mod(low, 256)>>

\* ---------------------------------------------------------------- laws of an abstract code table
\* T: function from a finite set of code points to byte sequences
TWords(T) == {T[c] : c \in DOMAIN T}
NonEmptyWords(T) == \A c \in DOMAIN T : Len(T[c]) >= 1
Injective(T) == \A c \in DOMAIN T : \A d \in DOMAIN T : T[c] = T[d] => c = d
IsPrefix(u, v) == Len(u) <= Len(v) /\ SubSeq(v, 1, Len(u)) = u
PrefixFree(T) == \A c \in DOMAIN T : \A d \in DOMAIN T : c # d => ~IsPrefix(T[c], T[d])
Laws(T) == NonEmptyWords(T) /\ Injective(T) /\ PrefixFree(T)

TInv(T) == [w \in TWords(T) |-> CHOOSE c \in DOMAIN T : T[c] = w]
TEncStr(T, s) == IF \A i \in DOMAIN s : s[i] \in DOMAIN T THEN Concat([i \in DOMAIN s |-> T[s[i]]]) ELSE None
TReplaced(T, s) == [i \in DOMAIN s |-> IF s[i] \in DOMAIN T THEN s[i] ELSE QMark]
TEncStrReplace(T, s) == Concat([i \in DOMAIN s |-> T[TReplaced(T, s)[i]]])       \* requires QMark \in DOMAIN T

\* on-the-fly decoder: at every position the SHORTEST code word that matches is taken
RECURSIVE TDecFrom(_, _, _)
TDecFrom(inv, b, i) ==
    IF i > Len(b) THEN <<>>
    ELSE LET ks == {k \in 1..(Len(b) - i + 1) : SubSeq(b, i, i + k - 1) \in DOMAIN inv}
         IN IF ks = {} THEN Illformed
            ELSE LET k == CHOOSE x \in ks : \A y \in ks : x <= y
                     rest == TDecFrom(inv, b, i + k)
                 IN IF rest = Illformed THEN Illformed ELSE <<inv[SubSeq(b, i, i + k - 1)]>> \o rest
TDec(T, b) == TDecFrom(TInv(T), b, 1)

\* the table of an algorithmic character set over a set of code points
AlgTable(cs, W) == [c \in {x \in W : Representable(cs, x)} |-> Enc(cs, c)]
=============================================================================
