CONSTANT Sigma = {97, 98}
CONSTANT MaxSub = 3
CONSTANT Deep = TRUE
INIT Init
NEXT Next
INVARIANT Sane
ACTION_CONSTRAINT Emit
CHECK_DEADLOCK FALSE
