--------------------------- MODULE SessionProtocol ---------------------------
(* C10.  The protocol between a client and one engine session, at the level the property speaks of:
   a statement text, well-formed or not, has exactly two kinds of outcome -- a result (rows or an OK
   packet) or an error -- and in both cases the session remains usable.  There is deliberately NO
   action for a panic escaping the query API, for a statement that never returns, or for the death
   of the process: a recorded execution containing such an outcome is not a behaviour of this
   specification and is rejected by the trace validation. *)
EXTENDS Naturals

Outcomes == {"rows", "ok", "err"}

VARIABLES usable, executed
vars == <<usable, executed>>

Init == usable = TRUE /\ executed = 0

\* Exec(o): the session runs one statement and reports outcome o; the session stays usable.
Exec(o) == /\ usable
           /\ o \in Outcomes
           /\ executed' = executed + 1
           /\ usable' = TRUE

Next == \E o \in Outcomes : Exec(o)
Spec == Init /\ [][Next]_vars

AlwaysUsable == usable
=============================================================================
