------------------------------ MODULE SysVars ------------------------------
(* C44.  System and user variables store and scope values correctly.

   Variable DESCRIPTORS (type in {bool, int, uint, double, enum, set, string}, bounds, members,
   scope in {global, session, both}, dynamic) are constants read from the engine's registry once per
   run (harness/cmd/c44 -mode desc) and supplied as sysvars_desc.ndjson.  The ACCEPTANCE RULE per
   type is this module's (MySQL 8.0 manual, "System Variables" / "SET Syntax for Variable Assignment"):

     bool    0, 1, ON, OFF, TRUE, FALSE (any case)                    -> 0 / 1
     int     an integer literal within [min, max] (or -1 where the variable documents it)
     uint    the same, unsigned
             out-of-range numbers: MySQL clamps with a warning unless sql_mode is strict and rejects
             in strict mode; the engine's default sql_mode contains STRICT_TRANS_TABLES and
             go-mysql-server rejects -> modelled as REJECT
     double  a number within the bounds
     enum    a member name (any case) or an index 0 .. n-1                -> the member name
     set     a comma list of member names (any case), '' or a bit mask    -> members in definition order
     string  a string
     NULL, a value of the wrong kind (string for a number, fraction for an integer, number for a
     string, unknown member, ...)  -> error, WITHOUT EFFECT
     SET SESSION on a global-only variable, SET GLOBAL on a session-only one, SET of a non-dynamic
     variable -> error.
     SET GLOBAL v = DEFAULT  -> the compiled-in default;  SET SESSION v = DEFAULT -> the current
     GLOBAL value (MySQL manual, SET syntax).
   Left open (either outcome, but an accepted value must be the obvious one): a digit string for a
   numeric variable (MySQL rejects, go-mysql-server documents "try getting int out of string value"),
   a fractional literal for a double variable, NULL for a string variable, variables with a change
   hook or special-cased by name (`special`).

   Values travel as [t, n, s, cls]: t in {"int","str","frac","null","err"}, n = [neg, d] sign and
   decimal digits (TLC's Json wraps beyond int32), cls = Go type class of a value read back.
   A literal additionally carries lc (lower case), parts (comma parts, lower case), i/hasi (small
   int), isnum/num (a string that is an integer) -- pure representation, computed by the harness. *)
EXTENDS Integers, Sequences, FiniteSets, TLC, Json

CONSTANTS Sessions,      \* e.g. {1, 2, 3}; session 1 exists initially
          ModelVars,     \* names of the modelled system variables
          UserVars,      \* names of the modelled user variables
          MaxSteps

Descs == ndJsonDeserialize("sysvars_desc.ndjson")
\* constant-level, evaluated once by TLC: name -> descriptor
DescOf == [nm \in {Descs[i].name : i \in 1..Len(Descs)} |-> Descs[CHOOSE i \in 1..Len(Descs) : Descs[i].name = nm]]
D(name) == DescOf[name]

\* ---------------------------------------------------------------- numbers as digit arrays
Zero == [neg |-> FALSE, d |-> <<0>>]
One == [neg |-> FALSE, d |-> <<1>>]
MinusOne == [neg |-> TRUE, d |-> <<1>>]
RECURSIVE LexCmp(_, _, _)
LexCmp(a, b, i) == IF i > Len(a) THEN 0 ELSE IF a[i] < b[i] THEN -1 ELSE IF a[i] > b[i] THEN 1 ELSE LexCmp(a, b, i + 1)
CmpMag(a, b) == IF Len(a) < Len(b) THEN -1 ELSE IF Len(a) > Len(b) THEN 1 ELSE LexCmp(a, b, 1)
Cmp(x, y) == IF x.neg # y.neg THEN (IF x.neg THEN -1 ELSE 1)
             ELSE IF x.neg THEN CmpMag(y.d, x.d) ELSE CmpMag(x.d, y.d)
NumLE(x, y) == Cmp(x, y) <= 0
RECURSIVE DigitsOf(_)
DigitsOf(k) == IF k < 10 THEN <<k>> ELSE Append(DigitsOf(k \div 10), k % 10)
NumOf(i) == [neg |-> i < 0, d |-> DigitsOf(IF i < 0 THEN -i ELSE i)]
RECURSIVE MagToInt(_, _, _)
MagToInt(d, i, acc) == IF i > Len(d) THEN acc ELSE MagToInt(d, i + 1, acc * 10 + d[i])
ToInt(n) == IF n.neg THEN -MagToInt(n.d, 1, 0) ELSE MagToInt(n.d, 1, 0)    \* small numbers only

\* ---------------------------------------------------------------- values
IntV(n, cls) == [t |-> "int", n |-> n, s |-> "", cls |-> cls]
StrV(s) == [t |-> "str", n |-> Zero, s |-> s, cls |-> "str"]
FracV(s, cls) == [t |-> "frac", n |-> Zero, s |-> s, cls |-> cls]
NullV == [t |-> "null", n |-> Zero, s |-> "", cls |-> "null"]
ErrV(c) == [t |-> "err", n |-> Zero, s |-> c, cls |-> ""]

\* literals (right-hand sides of SET) built inside the model
IntLit(i) == [t |-> "int", n |-> NumOf(i), s |-> "", cls |-> "", lc |-> "", parts |-> <<>>, i |-> i, hasi |-> TRUE, isnum |-> FALSE, num |-> Zero]
StrLit(s, lc) == [t |-> "str", n |-> Zero, s |-> s, cls |-> "", lc |-> lc, parts |-> IF lc = "" THEN <<>> ELSE <<lc>>, i |-> 0, hasi |-> FALSE, isnum |-> FALSE, num |-> Zero]
KwLit(k) == [t |-> k, n |-> Zero, s |-> "", cls |-> "", lc |-> "", parts |-> <<>>, i |-> 0, hasi |-> FALSE, isnum |-> FALSE, num |-> Zero]
NullLit == KwLit("null")
DefaultLit == KwLit("default")
FracLit == [KwLit("frac") EXCEPT !.s = "1.5"]

\* ---------------------------------------------------------------- the acceptance rule
Cls(d) == CASE d.type \in {"bool", "int"} -> "int" [] d.type = "uint" -> "uint" [] d.type = "double" -> "float" [] OTHER -> "str"

Ok(v) == [k |-> "ok", v |-> v]
Rej == [k |-> "rej", v |-> NullV]
Maybe(v) == [k |-> "maybe", v |-> v]      \* rejected, or accepted with exactly v
Unjudged == [k |-> "any", v |-> NullV]

InRange(d, n) == (NumLE(d.min, n) /\ NumLE(n, d.max)) \/ (d.negone /\ n = MinusOne)
InRangeD(d, n) == (d.fmininf \/ NumLE(d.fminn, n)) /\ (d.fmaxinf \/ NumLE(n, d.fmaxn))
IdxOf(seq, x) == CHOOSE i \in 1..Len(seq) : seq[i] = x /\ \A j \in 1..(i - 1) : seq[j] # x
Has(seq, x) == \E i \in 1..Len(seq) : seq[i] = x
RECURSIVE JoinSel(_, _, _, _)
\* members (in definition order) selected by the predicate, joined with commas
JoinSel(members, sel, i, acc) ==
  IF i > Len(members) THEN acc
  ELSE IF sel[i] THEN JoinSel(members, sel, i + 1, IF acc = "" THEN members[i] ELSE acc \o "," \o members[i])
  ELSE JoinSel(members, sel, i + 1, acc)
RECURSIVE Pow2(_)
Pow2(k) == IF k = 0 THEN 1 ELSE 2 * Pow2(k - 1)
Bit(x, k) == (x \div Pow2(k)) % 2 = 1

ConvertNum(d, n) ==          \* an integer for a numeric variable
  CASE d.type = "bool" -> IF n \in {Zero, One} THEN Ok(IntV(n, "int")) ELSE Rej
    [] d.type \in {"int", "uint"} -> IF InRange(d, n) THEN Ok(IntV(n, Cls(d))) ELSE Rej
    [] d.type = "double" -> IF ~d.fint THEN Unjudged ELSE IF InRangeD(d, n) THEN Ok(IntV(n, "float")) ELSE Rej
    [] OTHER -> Rej

Convert(d, v) ==
  CASE d.type = "other" \/ d.special -> Unjudged
    [] v.t = "null" -> IF d.type = "string" THEN Unjudged ELSE Rej
    [] d.type \in {"bool", "int", "uint", "double"} /\ v.t = "int" -> ConvertNum(d, v.n)
    [] d.type = "bool" /\ v.t = "str" ->
         (IF v.lc \in {"on", "true"} THEN Ok(IntV(One, "int"))
          ELSE IF v.lc \in {"off", "false"} THEN Ok(IntV(Zero, "int"))
          ELSE IF v.isnum THEN Unjudged ELSE Rej)
    [] d.type \in {"int", "uint", "double"} /\ v.t = "str" ->
         (IF ~v.isnum THEN Rej
          ELSE LET c == ConvertNum(d, v.num) IN IF c.k = "ok" THEN Maybe(c.v) ELSE IF c.k = "any" THEN Unjudged ELSE Rej)
    [] d.type = "double" /\ v.t = "frac" -> Maybe(FracV(v.s, "float"))
    [] d.type \in {"bool", "int", "uint"} /\ v.t = "frac" -> Rej
    [] d.type = "enum" ->
         (CASE v.t = "int" -> IF v.hasi /\ v.i >= 0 /\ v.i < Len(d.members) THEN Ok(StrV(d.members[v.i + 1])) ELSE Rej
            [] v.t = "str" -> IF Has(d.members_lc, v.lc) THEN Ok(StrV(d.members[IdxOf(d.members_lc, v.lc)])) ELSE Rej
            [] OTHER -> Rej)
    [] d.type = "set" ->
         (CASE v.t = "str" ->
                 IF \A i \in 1..Len(v.parts) : Has(d.members_lc, v.parts[i])
                 THEN Ok(StrV(JoinSel(d.members, [i \in 1..Len(d.members) |-> Has(v.parts, d.members_lc[i])], 1, "")))
                 ELSE Rej
            [] v.t = "int" ->
                 IF Len(d.members) > 28 THEN Unjudged
                 ELSE IF v.hasi /\ v.i >= 0 /\ v.i < Pow2(Len(d.members))
                 THEN Ok(StrV(JoinSel(d.members, [i \in 1..Len(d.members) |-> Bit(v.i, i - 1)], 1, "")))
                 ELSE Rej
            [] OTHER -> Rej)
    [] d.type = "string" -> IF v.t = "str" THEN Ok(StrV(v.s)) ELSE Rej
    [] OTHER -> Rej

\* the compiled-in default as a stored value
DefaultOf(d) == IF d.default.t = "int" /\ d.type \in {"bool", "int", "uint", "double"}
                THEN IntV(d.default.n, Cls(d)) ELSE d.default

\* scope / dynamic errors of SET <scope> v = ...
ScopeError(d, scope) == (~d.dynamic) \/ (scope = "session" /\ d.scope = "global") \/ (scope = "global" /\ d.scope = "session")

\* Outcome of SET <scope> v = lit given the current global value g:  [k, v]
\*   k = "err" (must fail, no effect) | "ok" (must succeed, value v) | "maybe" | "any"
SetOutcome(d, scope, lit, g) ==
  IF d.scope = "other" THEN Unjudged
  ELSE IF ScopeError(d, scope) THEN [k |-> "err", v |-> NullV]
  ELSE IF lit.t = "default" THEN
         (IF d.special THEN Unjudged
          ELSE IF scope = "global" \/ d.scope = "session" THEN Ok(DefaultOf(d)) ELSE Ok(g))
  ELSE LET c == Convert(d, lit) IN
       IF c.k = "rej" THEN [k |-> "err", v |-> NullV] ELSE c

\* what SELECT @@<scope>.v shows
ReadVal(d, scope, stored) ==
  IF scope = "session" /\ d.scope = "global" THEN ErrV("global_only") ELSE stored

\* ---------------------------------------------------------------- the bounded model (binding A)
VARIABLES glob,      \* [var -> value]
          sess,      \* [s -> [var -> value]]   for alive sessions
          uv,        \* [s -> [name -> value]]
          alive, act, ret, step
vars == <<glob, sess, uv, alive, act, ret, step>>

InitialOf(v) == DefaultOf(D(v))

\* literal pool per variable, from its descriptor
Lits(v) ==
  LET d == D(v) IN
  CASE d.type = "bool" -> {IntLit(0), IntLit(1), IntLit(2), StrLit("ON", "on"), StrLit("off", "off"), StrLit("maybe", "maybe"), NullLit, DefaultLit}
    [] d.type \in {"int", "uint"} ->
         {IntLit(ToInt(d.min)), IntLit(ToInt(d.max)), IntLit(ToInt(d.min) - 1), IntLit(ToInt(d.max) + 1),
          IntLit((ToInt(d.min) + ToInt(d.max)) \div 2), StrLit("abc", "abc"), FracLit, NullLit, DefaultLit}
    [] d.type = "enum" ->
         {StrLit(d.members[i], d.members_lc[i]) : i \in 1..Len(d.members)} \cup {StrLit(d.members_lc[1], d.members_lc[1])}
           \cup {IntLit(0), IntLit(Len(d.members) - 1), IntLit(Len(d.members)), IntLit(-1), StrLit("bogus", "bogus"), NullLit, DefaultLit}
    [] d.type = "string" -> {StrLit("verif_x", "verif_x"), StrLit("Verif_Y", "verif_y"), StrLit("", ""), IntLit(5), DefaultLit}
    [] OTHER -> {DefaultLit}

ULits == {IntLit(7), IntLit(-3), StrLit("abc", "abc"), StrLit("", ""), NullLit}
UserValue(lit) == CASE lit.t = "int" -> IntV(lit.n, "int") [] lit.t = "str" -> StrV(lit.s) [] OTHER -> NullV

Init ==
  /\ glob = [v \in ModelVars |-> InitialOf(v)]
  /\ alive = {1}
  /\ sess = [s \in Sessions |-> [v \in ModelVars |-> InitialOf(v)]]
  /\ uv = [s \in Sessions |-> [u \in UserVars |-> NullV]]
  /\ act = [name |-> "init"] /\ ret = "none" /\ step = 0

Step(a, r) == act' = a /\ ret' = r /\ step' = step + 1

\* the possible (ret, value) pairs of a SET
Results(o, cur) ==
  CASE o.k = "err" -> {[ret |-> "err", v |-> cur]}
    [] o.k = "ok" -> {[ret |-> "ok", v |-> o.v]}
    [] o.k = "maybe" -> {[ret |-> "err", v |-> cur], [ret |-> "ok", v |-> o.v]}
    [] OTHER -> {}           \* "any" literals are not used in the model

SetSession(s, v, lit) ==
  /\ s \in alive
  /\ \E r \in Results(SetOutcome(D(v), "session", lit, glob[v]), sess[s][v]) :
       /\ sess' = [sess EXCEPT ![s][v] = r.v]
       /\ Step([name |-> "SetSession", s |-> s, var |-> v, val |-> lit], r.ret)
  /\ UNCHANGED <<glob, uv, alive>>

SetGlobal(s, v, lit) ==
  /\ s \in alive
  /\ \E r \in Results(SetOutcome(D(v), "global", lit, glob[v]), glob[v]) :
       /\ glob' = [glob EXCEPT ![v] = r.v]
       /\ Step([name |-> "SetGlobal", s |-> s, var |-> v, val |-> lit], r.ret)
  /\ UNCHANGED <<sess, uv, alive>>

SetUser(s, u, lit) ==
  /\ s \in alive
  /\ uv' = [uv EXCEPT ![s][u] = UserValue(lit)]
  /\ Step([name |-> "SetUser", s |-> s, var |-> u, val |-> lit], "ok")
  /\ UNCHANGED <<glob, sess, alive>>

\* a new session copies the CURRENT globals (session-only variables start from their default)
NewSession(s) ==
  /\ s \notin alive /\ (s - 1) \in alive
  /\ alive' = alive \cup {s}
  /\ sess' = [sess EXCEPT ![s] = [v \in ModelVars |-> IF D(v).scope = "session" THEN InitialOf(v) ELSE glob[v]]]
  /\ uv' = [uv EXCEPT ![s] = [u \in UserVars |-> NullV]]
  /\ Step([name |-> "NewSession", s |-> s, var |-> "", val |-> NullLit], "ok")
  /\ UNCHANGED glob

LitsOf == [v \in ModelVars |-> Lits(v)]       \* constant-level, evaluated once

Next ==
  /\ step < MaxSteps
  /\ \/ \E s \in Sessions, v \in ModelVars : \E lit \in LitsOf[v] : SetSession(s, v, lit) \/ SetGlobal(s, v, lit)
     \/ \E s \in Sessions, u \in UserVars : \E lit \in ULits : SetUser(s, u, lit)
     \/ \E s \in Sessions : NewSession(s)

\* ---- one random behaviour per simulation run: Next restricted to ONE randomly drawn enabled action,
\* so that `-simulate` has a single successor and the Emit'd records form the behaviour itself
\* (with the full Next, TLC evaluates the action constraint on every candidate successor)
Acts == {[name |-> n, s |-> s, var |-> v, val |-> lit] : n \in {"SetSession", "SetGlobal"}, s \in Sessions, v \in ModelVars, lit \in UNION {LitsOf[x] : x \in ModelVars}}
ActsOK == {a \in Acts : a.val \in LitsOf[a.var]}
UActs == {[name |-> "SetUser", s |-> s, var |-> u, val |-> lit] : s \in Sessions, u \in UserVars, lit \in ULits}
NActs == {[name |-> "NewSession", s |-> s, var |-> "", val |-> NullLit] : s \in Sessions}
AllActs == ActsOK \cup UActs \cup NActs
EnabledAct(a) == IF a.name = "NewSession" THEN a.s \notin alive /\ (a.s - 1) \in alive ELSE a.s \in alive
Do(a) == CASE a.name = "SetSession" -> SetSession(a.s, a.var, a.val)
           [] a.name = "SetGlobal" -> SetGlobal(a.s, a.var, a.val)
           [] a.name = "SetUser" -> SetUser(a.s, a.var, a.val)
           [] OTHER -> NewSession(a.s)
\* (every random draw is bound by \E over a singleton so that it is evaluated exactly once)
RPool(k) ==          \* k = 1: open a session, 2: user variable, else system variable
  LET new == {a \in NActs : EnabledAct(a)} IN
  IF k = 1 /\ new # {} THEN new
  ELSE IF k <= 2 THEN {a \in UActs : EnabledAct(a)}
  ELSE {a \in ActsOK : EnabledAct(a)}
NextRandom ==
  /\ step < MaxSteps
  /\ \E k \in {RandomElement(1..10)} : \E a \in {RandomElement(RPool(k))} : Do(a)

Spec == Init /\ [][Next]_vars

View == <<glob, sess, uv, alive>>

\* ---- what the sessions observe
ObsSession(s, v) == ReadVal(D(v), "session", sess[s][v])
ObsGlobal(v) == glob[v]

\* ---- scoping invariants (model-checked on a bounded configuration)
\* a SET SESSION / SET @u by s changes nothing observable to another session
SessionIsolation ==
  [][act'.name \in {"SetSession", "SetUser"} =>
       /\ \A s2 \in Sessions \ {act'.s} : sess'[s2] = sess[s2] /\ uv'[s2] = uv[s2]
       /\ glob' = glob]_vars
\* a SET GLOBAL changes no existing session's value, and a session created afterwards sees it
GlobalNotSession == [][act'.name = "SetGlobal" => sess' = sess]_vars
GlobalSeenByNew ==
  [][act'.name = "NewSession" =>
       \A v \in ModelVars : D(v).scope # "session" => sess'[act'.s][v] = glob[v]]_vars
RejectedHasNoEffect == [][ret' = "err" => (glob' = glob /\ sess' = sess /\ uv' = uv)]_vars
\* stored values always have the class of the variable's type
TypeOK == \A v \in ModelVars : glob[v].t \in {"int", "str", "frac"}

\* ---- behaviour dump (binding A)
Emit == PrintT("TR " \o ToJson([step |-> step', act |-> act', ret |-> ret', alive |-> alive',
                                  g |-> [v \in {x \in ModelVars : D(x).scope # "session"} |-> glob'[v]],
                                  s |-> {[sid |-> x, vals |-> [v \in ModelVars |-> ReadVal(D(v), "session", sess'[x][v])]] : x \in alive'},
                                  u |-> {[sid |-> x, vals |-> uv'[x]] : x \in alive'}]))
=============================================================================
