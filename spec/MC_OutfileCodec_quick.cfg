CONSTANTS
  Core = TRUE
  Long = FALSE
  Escs = {92}
INIT Init
NEXT Next
INVARIANT ModelOK
CHECK_DEADLOCK FALSE
