CONSTANTS
  Core = FALSE
  Long = TRUE
  Escs = {92, 33}
INIT Init
NEXT Next
INVARIANT ModelOK
CHECK_DEADLOCK FALSE
