CONSTANT MaxLen = 3
CONSTANT PadLen = 2
CONSTANT ListLen = 3
INIT SInit
NEXT SNext
INVARIANTS CaseOK
ACTION_CONSTRAINT Emit
CHECK_DEADLOCK FALSE
