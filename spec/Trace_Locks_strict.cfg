CONSTANTS
  Sess = {1, 2, 3}
  Names = {"a", "b"}
  Modes = {FALSE}
INIT TInit
NEXT TNext
INVARIANT Report
CHECK_DEADLOCK FALSE
