INIT TraceInit
NEXT TraceNext
CONSTRAINT HW
POSTCONDITION Accepted
CHECK_DEADLOCK FALSE
