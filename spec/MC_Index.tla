------------------------------ MODULE MC_Index ------------------------------
(* C03, binding A.  Bounded enumeration over SQLSem of filters on indexed columns: the key domain is
   {NULL, 0, 1, 2}; a table has two key columns and <= MaxRows rows; a filter is a conjunction /
   disjunction (all 7 shapes) of <= 3 atoms, an atom being  col op lit (op in = <> < <= > >=, lit in
   the domain),  lit op col,  col IN (a, b),  col NOT IN (a, b),  col IS [NOT] NULL,
   col BETWEEN a AND b.  The emitted (table, filters) cases are executed by harness/cmd/c03 over
   single- and two-column index layouts (and a key-free copy) and judged by Trace_Index.

   On the specification alone TLC checks the reading of a range that Trace_Index uses for the
   point-by-point check (operator Member there; the same cut semantics here): for every atom the
   canonical range of sql/index_builder.go for that atom -- written down here independently as
   AtomRanges -- selects exactly the key points on which the atom IS TRUE (AtomLaw), and a filter
   selects exactly the rows on which it IS TRUE whichever way it is nested (FilterLaw). *)
EXTENDS SQLSem, Json

CONSTANT MaxRows

Dom == {NULL, I(0), I(1), I(2)}
Col(i) == [k |-> "col", d |-> 0, i |-> i, c |-> "none"]
Lit(v) == [k |-> "lit", v |-> v]
Op1(o, x) == [k |-> "op", op |-> o, a |-> <<x>>]
Op2(o, x, y) == [k |-> "op", op |-> o, a |-> <<x, y>>]
Op3(o, x, y, z) == [k |-> "op", op |-> o, a |-> <<x, y, z>>]
InL(x, neg, l) == [k |-> "in", e |-> x, list |-> l, neg |-> neg]

CmpOps == {"eq", "ne", "lt", "le", "gt", "ge"}
AtomsOf(c) ==
  {Op2(o, Col(c), Lit(v)) : o \in CmpOps, v \in Dom}
  \cup {Op2(o, Lit(v), Col(c)) : o \in {"lt", "ge"}, v \in Dom \ {NULL}}
  \cup {Op2("nseq", Col(c), Lit(v)) : v \in {NULL, I(1)}}
  \cup {InL(Col(c), n, <<Lit(a), Lit(b)>>) : n \in BOOLEAN, a \in Dom \ {NULL}, b \in Dom}
  \cup {Op1(o, Col(c)) : o \in {"isnull", "notnull"}}
  \cup {Op3("between", Col(c), Lit(a), Lit(b)) : a \in Dom, b \in Dom}
Atoms == AtomsOf(1) \cup AtomsOf(2)
Forms == 1..7
Build(f, a, b, c) ==
  CASE f = 1 -> a
    [] f = 2 -> Op2("and", a, b)
    [] f = 3 -> Op2("or", a, b)
    [] f = 4 -> Op2("and", a, Op2("and", b, c))
    [] f = 5 -> Op2("or", a, Op2("or", b, c))
    [] f = 6 -> Op2("or", Op2("and", a, b), c)
    [] f = 7 -> Op2("and", Op2("or", a, b), c)

RowsDom == [1..2 -> Dom]
TablesDom == UNION {[1..n -> RowsDom] : n \in 0..MaxRows}
NPred == 6                      \* filters emitted per sampled table

VARIABLES tb, ps, phase
vars == <<tb, ps, phase>>

T == [k |-> "table", name |-> "t"]
DB == [t |-> [w |-> 2, rows |-> tb]]
Star == <<Col(1), Col(2)>>

\* exhaustive variant: one table, one filter of <= 2 atoms (the 3-atom shapes are sampled)
Init == tb \in TablesDom /\ ps = <<>> /\ phase = 0
Next ==
  /\ phase = 0
  /\ phase' = 1
  /\ \E f \in 1..3, a \in Atoms, b \in Atoms : ps' = <<Build(f, a, b, a)>>
  /\ UNCHANGED tb
\* sampling variant for `-simulate`: one random table and NPred random filters per behaviour
\* (RandPred takes a parameter so that TLC does not cache it as a constant)
RandPred(i) == Build(RandomElement(Forms), RandomElement(Atoms), RandomElement(Atoms), RandomElement(Atoms))
\* (the table is drawn in the step: the initial states of a simulation are computed once)
SInit == tb = <<>> /\ ps = <<>> /\ phase = 0
SNext ==
  /\ phase = 0
  /\ phase' = 1
  /\ tb' = RandomElement(TablesDom)
  /\ ps' = [i \in 1..NPred |-> RandPred(i)]

\* ---- the reading of ranges (same cut semantics as Trace_Index!Member) --------------------------
LoBelow(lo, p) ==
  CASE lo.c = "bn" -> TRUE [] lo.c = "an" -> ~IsN(p) [] lo.c = "aa" -> FALSE
    [] lo.c = "b" -> ~IsN(p) /\ CmpNN(p, lo.v, "none") >= 0
    [] lo.c = "a" -> ~IsN(p) /\ CmpNN(p, lo.v, "none") > 0
HiAbove(hi, p) ==
  CASE hi.c = "bn" -> FALSE [] hi.c = "an" -> IsN(p) [] hi.c = "aa" -> TRUE
    [] hi.c = "b" -> IsN(p) \/ CmpNN(p, hi.v, "none") < 0
    [] hi.c = "a" -> IsN(p) \/ CmpNN(p, hi.v, "none") <= 0
InAny(rs, p) == \E r \in rs : LoBelow(r.lo, p) /\ HiAbove(r.hi, p)
BN == [c |-> "bn"]
AN == [c |-> "an"]
AA == [c |-> "aa"]
Bel(v) == [c |-> "b", v |-> v]
Abv(v) == [c |-> "a", v |-> v]
R(lo, hi) == [lo |-> lo, hi |-> hi]
\* the canonical one-column ranges of an atom  col op v  (sql/index_builder.go, range_column_expr.go)
CmpRanges(o, v) ==
  IF IsN(v) THEN {}                                  \* a comparison with NULL is never TRUE
  ELSE CASE o = "eq" -> {R(Bel(v), Abv(v))}
         [] o = "ne" -> {R(AN, Bel(v)), R(Abv(v), AA)}
         [] o = "lt" -> {R(AN, Bel(v))}
         [] o = "le" -> {R(AN, Abv(v))}
         [] o = "gt" -> {R(Abv(v), AA)}
         [] o = "ge" -> {R(Bel(v), AA)}
Swapped(o) == CASE o = "lt" -> "gt" [] o = "ge" -> "le" [] OTHER -> o
AtomRanges(a) ==
  CASE a.k = "in" /\ ~a.neg -> UNION {CmpRanges("eq", a.list[i].v) : i \in DOMAIN a.list}
    [] a.k = "in" /\ a.neg ->
         (IF \E i \in DOMAIN a.list : IsN(a.list[i].v) THEN {}
          ELSE LET x == a.list[1].v.v y == a.list[2].v.v lo == Min2(x, y) hi == Max2(x, y) IN
               {R(AN, Bel(I(lo))), R(Abv(I(hi)), AA)} \cup (IF lo = hi THEN {} ELSE {R(Abv(I(lo)), Bel(I(hi)))}))
    [] a.k = "op" /\ a.op = "isnull" -> {R(BN, AN)}
    [] a.k = "op" /\ a.op = "notnull" -> {R(AN, AA)}
    [] a.k = "op" /\ a.op = "nseq" -> (IF IsN(a.a[2].v) THEN {R(BN, AN)} ELSE CmpRanges("eq", a.a[2].v))
    [] a.k = "op" /\ a.op = "between" ->
         (IF IsN(a.a[2].v) \/ IsN(a.a[3].v) THEN {} ELSE {R(Bel(a.a[2].v), Abv(a.a[3].v))})
    [] a.k = "op" /\ a.a[1].k = "lit" -> CmpRanges(Swapped(a.op), a.a[1].v)
    [] OTHER -> CmpRanges(a.op, a.a[2].v)
ColOf(a) == IF a.k = "in" THEN a.e.i ELSE IF a.a[1].k = "col" THEN a.a[1].i ELSE a.a[2].i
Points == Dom \cup {I(-1), I(3)}
AtomLaw ==
  \A a \in Atoms : \A p \in Points :
     LET row == [i \in 1..2 |-> IF i = ColOf(a) THEN p ELSE NULL] IN
     IsTrue(Eval(a, <<row>>, <<>>, <<>>)) <=> InAny(AtomRanges(a), p)
ASSUME AtomLaw

\* a filter selects exactly the rows on which it IS TRUE; AND / OR distribute over the selection
Sel1(p) == Rows(Sel(T, p, Star), <<>>, DB)
FilterLaw ==
  phase = 1 =>
    \A i \in DOMAIN ps :
      LET p == ps[i] IN
      /\ Sel1(p) = SelectSeq(tb, LAMBDA r : IsTrue(Eval(p, <<r>>, <<>>, DB)))
      /\ (p.k = "op" /\ p.op = "and") =>
            Sel1(p) = SelectSeq(Sel1(p.a[1]), LAMBDA r : IsTrue(Eval(p.a[2], <<r>>, <<>>, DB)))
      /\ (p.k = "op" /\ p.op = "or") =>
            BagEqRows(Sel1(p), Sel1(p.a[1]) \o SelectSeq(Sel1(p.a[2]), LAMBDA r : ~IsTrue(Eval(p.a[1], <<r>>, <<>>, DB))),
                      <<"none", "none">>)
Laws == FilterLaw

Emit == PrintT("CASE " \o ToJson([tb |-> tb', ps |-> ps']))
=============================================================================
