\* exhaustive transition dump (2 sessions x 2 names, <= 2 calls each, controllable Lock timeouts) for
\* the gated replay of EVERY transition of this configuration (thorough tier)
CONSTANTS
  Sess = {1, 2}
  Names = {"a", "b"}
  Budget <- B2
  Timeouts = {"inf", "zero"}
  Monitor = FALSE
  Record = TRUE
INIT Init
NEXT Next
VIEW View
INVARIANTS TypeOK AtMostOneOwner HoldersIsOwner CountPositiveWhenOwned OwnedImpliesRegistered CreatedOK Linearizable GhostIsReal
ACTION_CONSTRAINT EmitX
CHECK_DEADLOCK FALSE
