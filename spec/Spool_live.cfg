\* C35: termination under weak fairness of the four goroutines and Main, with every fault kind.
CONSTANTS
  BatchSize = 2
  RowCap = 2
  ResCap = 1
  MaxRows = 4
  Kills = TRUE
  Timeouts = TRUE
  CtxAwareIter = TRUE
  Faults = TRUE
SPECIFICATION FairSpec
PROPERTY Termination
CHECK_DEADLOCK TRUE
