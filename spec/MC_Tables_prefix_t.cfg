INIT Init
NEXT Next
CONSTANTS
  Preset = "prefix"
  K = {0, 1}
  MaxRows = 3
  MaxVal = 2
  Modes2 = {"plain", "replace"}
  MaxId = 6
VIEW View
CONSTRAINT Bounded
INVARIANTS InvPKUnique InvUniqueIdx InvNotNull InvChecks InvGenerated InvAutoCovers
PROPERTIES AutoIncMonotone FailedStmtNoEffect
CHECK_DEADLOCK FALSE
