\* -simulate: one column over {NULL, 0, 1, 2}, random lists of up to 6 canonical ranges (every prefix is a case)
CONSTANTS
  NV = 3
  K = 1
  MaxLen = 6
  Class = "canon"
  MaxTree = 0
  MinRem = 1
INIT InitEnum
NEXT NextEnum
INVARIANTS TypeEnum
ACTION_CONSTRAINT EmitEnum
CHECK_DEADLOCK FALSE
