CONSTANTS
  Radius = 1
  MaxB8 = 1
  MaxB16 = 1
  MaxB32 = 1
  U8A = {0}
  U16A = {0}
  U32A = {0}
  AscA = {0}
  Full = TRUE
INIT Init
NEXT Next
INVARIANT ModelOK
CHECK_DEADLOCK FALSE
