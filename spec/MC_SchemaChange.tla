--------------------------- MODULE MC_SchemaChange ---------------------------
(* Scripted behaviours of SchemaChange: the witness histories of the recorded findings of C21.
   Each script is a fixed statement sequence that contains one of the statements the random
   generator steers around (SchemaChange!KnownTrigger, K1..K6) or shows a finding directly; TLC
   prints the specification's expectation for every step (SchemaChange!Emit, with the script number
   in `sid`), run/props/C21.py (`python3 run/props/C21.py witnesses`) stores them under
   findings/C21-*.ndjson and every run of the check replays them on the engine. *)
EXTENDS SchemaChange

VARIABLE sid

Ins(t, vals) == [op |-> "Insert", t |-> t, vals |-> vals]
Idx(t, n, cs, u) == [op |-> "AddIndex", t |-> t, name |-> n, cols |-> cs, uniq |-> u]
Mod(t, c, p, af) == [op |-> "ModifyColumn", t |-> t, col |-> c, pos |-> p, after |-> af]
Add(t, c, p, af) == [op |-> "AddColumn", t |-> t, col |-> c, pos |-> p, after |-> af]
Cs(cp) == S(cp)

Scripts == <<
  \* 1  K1: RENAME TABLE rewrites the index expressions to field index = position inside the index
  << [op |-> "CreateTable", k |-> 1], Idx("t", "i1", <<"b">>, FALSE), Ins("t", <<I(7), Cs(<<97>>)>>),
     [op |-> "RenameTable", t |-> "t", t2 |-> "u"], Ins("u", <<I(9), Cs(<<120>>)>>) >>,
  \* 2  K2: in-place MODIFY of the primary-key column leaves -1 in the key ordinals the secondary index reads
  << [op |-> "CreateTable", k |-> 1], Idx("t", "i1", <<"b">>, FALSE), Ins("t", <<I(7), Cs(<<97>>)>>),
     Mod("t", C("a", TInt("int"), TRUE, NoDef), "last", ""), Ins("t", <<I(9), Cs(<<120>>)>>) >>,
  \* 3  K2 (RENAME COLUMN of the key column)
  << [op |-> "CreateTable", k |-> 1], Idx("t", "i1", <<"b">>, FALSE), Ins("t", <<I(7), Cs(<<97>>)>>),
     [op |-> "RenameColumn", t |-> "t", c |-> "a", c2 |-> "c"], Ins("t", <<I(9), Cs(<<120>>)>>) >>,
  \* 4  K4: after DROP PRIMARY KEY the secondary index still carries the former key column
  << [op |-> "CreateTable", k |-> 2], [op |-> "AddPrimaryKey", t |-> "t", cols |-> <<"c">>], Idx("t", "i1", <<"b">>, FALSE),
     Ins("t", <<I(7), Cs(<<97>>), I(9)>>), [op |-> "DropPrimaryKey", t |-> "t"], [op |-> "DropColumn", t |-> "t", c |-> "c"] >>,
  \* 5  K5: in-place ADD COLUMN .. FIRST does not move the index expressions
  << [op |-> "CreateTable", k |-> 2], Idx("t", "i1", <<"b">>, FALSE), Ins("t", <<I(7), Cs(<<97>>), I(9)>>),
     Add("t", C("d", TInt("int"), FALSE, NoDef), "first", ""), Ins("t", <<I(200), I(9), Cs(<<120>>), I(0)>>) >>,
  \* 6  K6: a rewriting MODIFY keeps the old column type inside the index
  << [op |-> "CreateTable", k |-> 5], Ins("t", <<I(0), Cs(<<55>>)>>), Idx("t", "i1", <<"a">>, FALSE),
     Mod("t", C("a", TVar(2, "bin"), FALSE, NoDef), "after", "b"), Ins("t", <<Cs(<<55>>), Cs(<<97>>)>>) >>,
  \* 7  CREATE UNIQUE INDEX over columns that are not the leading table columns: duplicate test with foreign types
  << [op |-> "CreateTable", k |-> 1], Ins("t", <<I(200), Cs(<<97, 98>>)>>),
     Mod("t", C("b", TVar(2, "bin"), FALSE, NoDef), "last", ""), Idx("t", "i1", <<"b", "a">>, TRUE) >>,
  \* 8  ... and with a foreign collation: 'A' and 'a' in a _bin column counted as duplicates
  << [op |-> "CreateTable", k |-> 6], Ins("t", <<Cs(<<55>>), I(7), Cs(<<65>>)>>), Ins("t", <<Cs(<<97>>), I(9), Cs(<<97>>)>>),
     Idx("t", "i1", <<"c">>, TRUE) >>,
  \* 9  '' converted to 0 by MODIFY COLUMN varchar -> int
  << [op |-> "CreateTable", k |-> 1], Ins("t", <<I(7), Cs(<<>>)>>), Mod("t", C("b", TInt("int"), FALSE, NoDef), "last", "") >>,
  \* 10 DROP COLUMN in front of the primary-key column of a table with a secondary index
  << [op |-> "CreateTable", k |-> 2], [op |-> "AddPrimaryKey", t |-> "t", cols |-> <<"c">>], Idx("t", "i1", <<"b">>, FALSE),
     Ins("t", <<I(7), Cs(<<97>>), I(9)>>), [op |-> "DropColumn", t |-> "t", c |-> "a"] >>,
  \* 11 SHOW FULL COLUMNS reports the default collation for every column
  << [op |-> "CreateTable", k |-> 1], [op |-> "ChangeCollation", t |-> "t", col |-> C("b", TVar(4, "ci"), FALSE, NoDef), pos |-> "last", after |-> ""] >>,
  \* 12 in-place MODIFY (collation _bin -> _ai_ci of the primary-key column) does not re-check the key: 'A' and 'a' stay
  << [op |-> "CreateTable", k |-> 4], Ins("t", <<Cs(<<65>>), I(9)>>), Ins("t", <<Cs(<<97>>), I(7)>>),
     [op |-> "ChangeCollation", t |-> "t", col |-> C("a", TVar(4, "ci"), TRUE, NoDef), pos |-> "last", after |-> ""] >>
>>

InitScript == sid \in 1..Len(Scripts) /\ Init
NextScript == step < Len(Scripts[sid]) /\ Apply(Scripts[sid][step + 1]) /\ UNCHANGED sid
EmitScript == PrintT("TR " \o ToJson([sid |-> sid, step |-> step', op |-> act'.op, sql |-> Sql(act'), ret |-> ret', tags |-> Tags(act'),
                                        exp |-> Exp(tname', cols', pk', idx', rows')]))
=============================================================================
