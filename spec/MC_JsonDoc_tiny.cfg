CONSTANT KeyNames <- KeysTiny
CONSTANT Scalars <- ScalarsTiny
CONSTANT Idxs = {0, 1}
CONSTANT Ops = {"set", "insert", "replace", "remove", "append", "ainsert", "patch"}
CONSTANT MaxDepth = 2
CONSTANT MaxWidth = 2
INIT Init
NEXT Next
VIEW View
INVARIANT CanonicalFixpoint
PROPERTY Laws
CHECK_DEADLOCK FALSE
ACTION_CONSTRAINT Emit
