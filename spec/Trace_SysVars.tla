---------------------------- MODULE Trace_SysVars ----------------------------
(* C44, binding B: validates SET histories recorded by harness/cmd/c44 -mode record over ALL
   registered system variables with the descriptor-driven rule of SysVars.  Per variable:
     {"ev":"init","var":v,"g":..,"a":..,"b":..,"gb":..,"n":..}         the values read initially
     {"ev":"set","id":n,"var":v,"scope":"session"|"global","val":lit,"out":"ok"|"err",
      "g": @@global.v in A, "a": @@session.v in A (the session that executes every SET),
      "b": @@session.v in B, "gb": @@global.v in B, "n": @@session.v in a session created afterwards}
   Checked for every SET: the outcome and the stored value of the rule (SetOutcome); a SESSION
   change touches only a; a GLOBAL change touches g (seen by B too) and the NEW session, never a
   or b; a rejected SET changes nothing.  A disagreement prints `MM <json>` and the state is
   resynchronised to the recorded values. *)
EXTENDS SysVars

TraceLog == ndJsonDeserialize("trace.ndjson")

VARIABLES l, cur, g, a, b
tvars == <<l, cur, g, a, b>>

TInit ==
  /\ l = 1 /\ cur = "" /\ g = NullV /\ a = NullV /\ b = NullV
  /\ glob = <<>> /\ sess = <<>> /\ uv = <<>> /\ alive = {} /\ act = [name |-> "trace"] /\ ret = "none" /\ step = 0

\* the value a session created now gets
NewVal(d, gv, e) == IF d.scope = "session" THEN e.n        \* compiled default of the session: not modelled
                    ELSE ReadVal(d, "session", gv)

\* expected post-state [g, a] given the outcome o actually allowed and the recorded result
Agrees(d, e) ==
  LET o == SetOutcome(d, e.scope, e.val, g)
      unchanged == e.a = a /\ (d.scope = "session" \/ e.g = g)
      stored == IF e.scope = "session" THEN e.a ELSE e.g
      okWith(v) == /\ e.out = "ok"
                   /\ (IF e.scope = "session" THEN e.a = v /\ (d.scope = "session" \/ e.g = g)
                       ELSE e.g = v /\ e.a = a)
  IN
  IF d.special THEN e.b = b          \* hooks / couplings / values derived elsewhere: isolation only
  ELSE
  /\ e.b = b                                            \* the other session never notices
  /\ (d.scope = "session" \/ e.gb = e.g)                \* one global value for everybody
  /\ (d.scope = "session" \/ e.n = NewVal(d, e.g, e))   \* a new session copies the global
  /\ (CASE o.k = "err" -> e.out = "err" /\ unchanged
        [] o.k = "ok" -> okWith(o.v)
        [] o.k = "maybe" -> (e.out = "err" /\ unchanged) \/ okWith(o.v)
        [] OTHER -> (e.out = "err" /\ unchanged) \/ okWith(stored))      \* unjudged value: scoping still checked

Expected(d, e) ==
  LET o == SetOutcome(d, e.scope, e.val, g) IN [k |-> o.k, v |-> o.v, g |-> g, a |-> a, b |-> b]

TNext ==
  /\ l <= Len(TraceLog)
  /\ l' = l + 1
  /\ UNCHANGED vars
  /\ LET e == TraceLog[l] IN
     IF e.ev = "init"
     THEN cur' = e.var /\ g' = e.g /\ a' = e.a /\ b' = e.b
     ELSE /\ cur' = cur /\ g' = e.g /\ a' = e.a /\ b' = e.b          \* resynchronise in any case
          /\ (IF e.var = cur /\ Agrees(D(e.var), e) THEN TRUE
              ELSE PrintT("MM " \o ToJson([l |-> l, id |-> e.id, exp |-> Expected(D(e.var), e)])))

HW == TLCSet(1, l)
Accepted == TLCGet(1) = Len(TraceLog) + 1
=============================================================================
