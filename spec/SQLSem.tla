------------------------------- MODULE SQLSem -------------------------------
(* The meaning of SQL values, expressions and queries as go-mysql-server is expected to implement
   them (MySQL semantics, ONLY_FULL_GROUP_BY, default collation utf8mb4_0900_bin).

   Values     NULL = [t |-> "n"];  integer [t |-> "i", v |-> Int];
              string [t |-> "s", v |-> <<code points>>];
              exact fraction [t |-> "q", n |-> Int, d |-> Int] (AVG; d > 0).
   Expression ASTs and query ASTs are records (field k = node kind); column references are
   (scope depth d, ordinal i) into an environment `env` = <<current row, outer row, ...>>, so no
   name resolution is needed here: the Go generators build the AST first and render SQL from it.

   Rows(q, env, db) is the sequence of result rows of q (some valid order).  Everything that SQL
   leaves open (order of unordered results, which member of an equality class represents it) is
   left open by the comparison operators at the end of the module (ResultOK), never by a fixed
   choice.

   Sections: values / three-valued logic / scalar functions / Eval / From / Rows / result
   comparison.  Expressions contain subqueries and queries contain expressions, so Eval, Rows and
   From are mutually RECURSIVE and live in one module. *)
EXTENDS Integers, Sequences, FiniteSets, TLC

\* ------------------------------------------------------------------ values
NULL == [t |-> "n"]
I(v) == [t |-> "i", v |-> v]
S(cp) == [t |-> "s", v |-> cp]
Q(n, d) == [t |-> "q", n |-> n, d |-> d]
IsN(v) == v.t = "n"
B(b) == I(IF b THEN 1 ELSE 0)
IsTrue(v) == ~IsN(v) /\ v.v # 0
IsFalse(v) == ~IsN(v) /\ v.v = 0

Range(s) == {s[i] : i \in DOMAIN s}
Abs(x) == IF x < 0 THEN -x ELSE x
Sign(x) == IF x < 0 THEN -1 ELSE IF x > 0 THEN 1 ELSE 0
Min2(a, b) == IF a < b THEN a ELSE b
Max2(a, b) == IF a > b THEN a ELSE b
\* integer division / remainder truncating toward zero (SQL DIV and %)
TDiv(a, b) == Sign(a) * Sign(b) * (Abs(a) \div Abs(b))
TMod(a, b) == a - b * TDiv(a, b)

\* ------------------------------------------------------------------ collations
\* "bin": code point order.  "ci": utf8mb4_0900_ai_ci restricted to [0-9A-Za-z ] (case folded;
\* space < digits < letters, which is code point order after folding to lower case; NO PAD).
Fold(cp) == [i \in DOMAIN cp |-> IF cp[i] >= 65 /\ cp[i] <= 90 THEN cp[i] + 32 ELSE cp[i]]
NormV(v, c) == IF v.t = "s" /\ c = "ci" THEN S(Fold(v.v)) ELSE v
Comb(c1, c2) == IF c1 = "ci" \/ c2 = "ci" THEN "ci" ELSE IF c1 = "bin" \/ c2 = "bin" THEN "bin" ELSE "none"

RECURSIVE SeqCmp(_, _)
SeqCmp(a, b) == IF a = <<>> THEN (IF b = <<>> THEN 0 ELSE -1)
                ELSE IF b = <<>> THEN 1
                ELSE IF Head(a) < Head(b) THEN -1
                ELSE IF Head(a) > Head(b) THEN 1
                ELSE SeqCmp(Tail(a), Tail(b))

\* comparison of two non-NULL values of one family under collation c: -1 / 0 / 1
CmpNN(a, b, c) ==
  CASE a.t = "i" /\ b.t = "i" -> Sign(a.v - b.v)
    [] a.t = "s" /\ b.t = "s" -> SeqCmp(NormV(a, c).v, NormV(b, c).v)
    [] a.t = "q" /\ b.t = "q" -> Sign(a.n * b.d - b.n * a.d)
    [] a.t = "q" /\ b.t = "i" -> Sign(a.n - b.v * a.d)
    [] a.t = "i" /\ b.t = "q" -> Sign(a.v * b.d - b.n)
    [] a.t = "f" /\ b.t = "f" -> Sign(a.v - b.v)          \* "f" = a reported value scaled by 10^4
    [] a.t = "f" /\ b.t = "i" -> Sign(a.v - b.v * 10000)
    [] a.t = "i" /\ b.t = "f" -> Sign(a.v * 10000 - b.v)
    [] a.t = "f" /\ b.t = "q" -> Sign(a.v * b.d - b.n * 10000)
    [] a.t = "q" /\ b.t = "f" -> Sign(a.n * 10000 - b.v * a.d)
    [] OTHER -> Assert(FALSE, <<"comparison across families is outside the interpreted fragment", a, b>>)

\* total order used by ORDER BY / MIN / MAX / DISTINCT: NULL first
OrdCmp(a, b, c) == IF IsN(a) THEN (IF IsN(b) THEN 0 ELSE -1) ELSE IF IsN(b) THEN 1 ELSE CmpNN(a, b, c)
SameVal(a, b, c) == OrdCmp(a, b, c) = 0          \* grouping / DISTINCT / <=> equality

\* ------------------------------------------------------------------ three-valued logic
And3(a, b) == IF IsFalse(a) \/ IsFalse(b) THEN B(FALSE) ELSE IF IsN(a) \/ IsN(b) THEN NULL ELSE B(TRUE)
Or3(a, b)  == IF IsTrue(a) \/ IsTrue(b) THEN B(TRUE) ELSE IF IsN(a) \/ IsN(b) THEN NULL ELSE B(FALSE)
Not3(a)    == IF IsN(a) THEN NULL ELSE B(a.v = 0)
Xor3(a, b) == IF IsN(a) \/ IsN(b) THEN NULL ELSE B(IsTrue(a) # IsTrue(b))
Cmp3(op, a, b, c) ==
  IF IsN(a) \/ IsN(b) THEN NULL ELSE
  LET r == CmpNN(a, b, c) IN
  B(CASE op = "eq" -> r = 0 [] op = "ne" -> r # 0 [] op = "lt" -> r < 0
      [] op = "le" -> r <= 0 [] op = "gt" -> r > 0 [] op = "ge" -> r >= 0)
Arith(op, a, b) ==
  IF IsN(a) \/ IsN(b) THEN NULL ELSE
  (CASE op = "plus" -> I(a.v + b.v) [] op = "minus" -> I(a.v - b.v) [] op = "times" -> I(a.v * b.v)
     [] op = "div" -> IF b.v = 0 THEN NULL ELSE I(TDiv(a.v, b.v))
     [] op = "mod" -> IF b.v = 0 THEN NULL ELSE I(TMod(a.v, b.v)))
\* x IN (y1..yn): TRUE if some comparison is TRUE, else NULL if some is NULL, else FALSE
In3(x, ys, c) ==
  LET r == [i \in DOMAIN ys |-> Cmp3("eq", x, ys[i], c)] IN
  IF \E i \in DOMAIN r : IsTrue(r[i]) THEN B(TRUE)
  ELSE IF \E i \in DOMAIN r : IsN(r[i]) THEN NULL ELSE B(FALSE)

\* ------------------------------------------------------------------ string functions (code points)
RECURSIVE Rev(_)
Rev(s) == IF s = <<>> THEN <<>> ELSE Rev(Tail(s)) \o <<Head(s)>>
Upper(cp) == [i \in DOMAIN cp |-> IF cp[i] >= 97 /\ cp[i] <= 122 THEN cp[i] - 32 ELSE cp[i]]
SubStr(cp, pos, len) ==      \* SQL SUBSTRING(s, pos, len), 1-based; pos < 0 counts from the end; pos = 0 -> ''
  LET n == Len(cp)
      st == IF pos > 0 THEN pos ELSE IF pos < 0 THEN n + pos + 1 ELSE 0
  IN IF st < 1 \/ st > n \/ len < 1 THEN <<>> ELSE SubSeq(cp, st, Min2(n, st + len - 1))
\* LOCATE(needle, hay): first 1-based position, 0 if absent; empty needle -> 1
Locate(nd, hay) ==
  IF nd = <<>> THEN 1 ELSE
  LET ps == {p \in 1..(Len(hay) - Len(nd) + 1) : SubSeq(hay, p, p + Len(nd) - 1) = nd}
  IN IF ps = {} THEN 0 ELSE CHOOSE p \in ps : \A o \in ps : p <= o
RECURSIVE Rep(_, _)
Rep(cp, n) == IF n <= 0 THEN <<>> ELSE cp \o Rep(cp, n - 1)

\* ------------------------------------------------------------------ the evaluator
RECURSIVE Eval(_, _, _, _), Rows(_, _, _), From(_, _, _), Width(_, _), CollOf(_), CoreRows(_, _, _)

\* collation an expression carries into comparisons ("none" for non-strings and literals)
CollOf(e) ==
  CASE e.k = "col" -> e.c
    [] e.k = "lit" -> "none"
    [] e.k = "fn" -> LET cs == [i \in DOMAIN e.a |-> CollOf(e.a[i])] IN
                     IF \E i \in DOMAIN cs : cs[i] = "ci" THEN "ci"
                     ELSE IF \E i \in DOMAIN cs : cs[i] = "bin" THEN "bin" ELSE "none"
    [] e.k = "case" -> LET cs == [i \in DOMAIN e.whens |-> CollOf(e.whens[i][2])] IN
                       IF CollOf(e.els) = "ci" \/ \E i \in DOMAIN cs : cs[i] = "ci" THEN "ci"
                       ELSE IF CollOf(e.els) = "bin" \/ \E i \in DOMAIN cs : cs[i] = "bin" THEN "bin" ELSE "none"
    [] e.k = "agg" -> IF e.f \in {"min", "max"} THEN CollOf(e.arg) ELSE "none"
    [] e.k = "subq" -> IF e.kind = "scalar" /\ e.q.k = "select" THEN CollOf(e.q.proj[1]) ELSE "none"
    [] OTHER -> "none"
CollOf2(x, y) == Comb(CollOf(x), CollOf(y))

EvalList(es, env, grp, db) == [i \in DOMAIN es |-> Eval(es[i], env, grp, db)]

Fn(f, a, c) ==     \* scalar functions over already evaluated arguments
  CASE f = "coalesce" -> (LET nn == SelectSeq(a, LAMBDA v : ~IsN(v)) IN IF nn = <<>> THEN NULL ELSE nn[1])
    [] f = "ifnull" -> (IF IsN(a[1]) THEN a[2] ELSE a[1])
    [] f = "nullif" -> (IF IsN(a[1]) THEN NULL ELSE IF IsTrue(Cmp3("eq", a[1], a[2], c)) THEN NULL ELSE a[1])
    [] f = "if" -> (IF IsTrue(a[1]) THEN a[2] ELSE a[3])
    [] f = "abs" -> (IF IsN(a[1]) THEN NULL ELSE I(Abs(a[1].v)))
    [] f = "sign" -> (IF IsN(a[1]) THEN NULL ELSE I(Sign(a[1].v)))
    [] f = "greatest" -> (IF \E i \in DOMAIN a : IsN(a[i]) THEN NULL
                          ELSE CHOOSE m \in Range(a) : \A o \in Range(a) : CmpNN(m, o, c) >= 0)
    [] f = "least" -> (IF \E i \in DOMAIN a : IsN(a[i]) THEN NULL
                       ELSE CHOOSE m \in Range(a) : \A o \in Range(a) : CmpNN(m, o, c) <= 0)
    [] f = "concat" -> (IF \E i \in DOMAIN a : IsN(a[i]) THEN NULL
                        ELSE LET RECURSIVE Cat(_)
                                 Cat(i) == IF i > Len(a) THEN <<>> ELSE a[i].v \o Cat(i + 1)
                             IN S(Cat(1)))
    [] f = "length" -> (IF IsN(a[1]) THEN NULL ELSE I(Len(a[1].v)))       \* ASCII alphabet: bytes = chars
    [] f = "char_length" -> (IF IsN(a[1]) THEN NULL ELSE I(Len(a[1].v)))
    [] f = "upper" -> (IF IsN(a[1]) THEN NULL ELSE S(Upper(a[1].v)))
    [] f = "lower" -> (IF IsN(a[1]) THEN NULL ELSE S(Fold(a[1].v)))
    [] f = "reverse" -> (IF IsN(a[1]) THEN NULL ELSE S(Rev(a[1].v)))
    [] f = "left" -> (IF IsN(a[1]) \/ IsN(a[2]) THEN NULL ELSE S(SubStr(a[1].v, 1, a[2].v)))
    [] f = "right" -> (IF IsN(a[1]) \/ IsN(a[2]) THEN NULL
                       ELSE LET n == Len(a[1].v) k == Min2(Max2(a[2].v, 0), n) IN S(SubSeq(a[1].v, n - k + 1, n)))
    [] f = "substring" -> (IF \E i \in DOMAIN a : IsN(a[i]) THEN NULL
                           ELSE S(SubStr(a[1].v, a[2].v, IF Len(a) = 3 THEN a[3].v ELSE Len(a[1].v) + 1)))
    [] f = "locate" -> (IF IsN(a[1]) \/ IsN(a[2]) THEN NULL ELSE I(Locate(NormV(a[1], c).v, NormV(a[2], c).v)))
    [] f = "repeat" -> (IF IsN(a[1]) \/ IsN(a[2]) THEN NULL ELSE S(Rep(a[1].v, a[2].v)))
    [] OTHER -> Assert(FALSE, <<"unknown function", f>>)

\* env = <<current row, outer row, ...>>; grp = rows of the current group (<<>> outside aggregation)
Eval(e, env, grp, db) ==
  CASE e.k = "lit" -> e.v
    [] e.k = "col" -> env[e.d + 1][e.i]
    [] e.k = "op" ->
         (LET a == EvalList(e.a, env, grp, db) IN
          CASE e.op \in {"eq", "ne", "lt", "le", "gt", "ge"} -> Cmp3(e.op, a[1], a[2], CollOf2(e.a[1], e.a[2]))
            [] e.op = "nseq" -> B(SameVal(a[1], a[2], CollOf2(e.a[1], e.a[2])))
            [] e.op = "and" -> And3(a[1], a[2])
            [] e.op = "or" -> Or3(a[1], a[2])
            [] e.op = "xor" -> Xor3(a[1], a[2])
            [] e.op = "not" -> Not3(a[1])
            [] e.op = "isnull" -> B(IsN(a[1]))
            [] e.op = "notnull" -> B(~IsN(a[1]))
            [] e.op = "istrue" -> B(IsTrue(a[1]))
            [] e.op = "isfalse" -> B(IsFalse(a[1]))
            [] e.op = "isnottrue" -> B(~IsTrue(a[1]))
            [] e.op = "isnotfalse" -> B(~IsFalse(a[1]))
            [] e.op \in {"plus", "minus", "times", "div", "mod"} -> Arith(e.op, a[1], a[2])
            [] e.op = "neg" -> (IF IsN(a[1]) THEN NULL ELSE I(-a[1].v))
            [] e.op = "between" ->
                 And3(Cmp3("ge", a[1], a[2], CollOf2(e.a[1], e.a[2])), Cmp3("le", a[1], a[3], CollOf2(e.a[1], e.a[3])))
            [] e.op = "notbetween" ->
                 Not3(And3(Cmp3("ge", a[1], a[2], CollOf2(e.a[1], e.a[2])), Cmp3("le", a[1], a[3], CollOf2(e.a[1], e.a[3])))))
    [] e.k = "in" ->
         (LET x == Eval(e.e, env, grp, db)
              ys == EvalList(e.list, env, grp, db)
              c == IF \E i \in DOMAIN e.list : CollOf(e.list[i]) = "ci" THEN "ci" ELSE CollOf2(e.e, e.e)
              r == In3(x, ys, c)
          IN IF e.neg THEN Not3(r) ELSE r)
    [] e.k = "case" ->
         (LET hit == {i \in DOMAIN e.whens : IsTrue(Eval(e.whens[i][1], env, grp, db))} IN
          IF hit = {} THEN Eval(e.els, env, grp, db)
          ELSE Eval(e.whens[CHOOSE i \in hit : \A j \in hit : i <= j][2], env, grp, db))
    [] e.k = "fn" ->
         Fn(e.f, EvalList(e.a, env, grp, db), CollOf(e))
    [] e.k = "agg" ->
         (LET vals == [i \in 1..Len(grp) |-> Eval(e.arg, <<grp[i]>> \o Tail(env), <<>>, db)]
              nn0 == SelectSeq(vals, LAMBDA v : ~IsN(v))
              c == CollOf(e.arg)
              RECURSIVE DD(_, _)
              DD(s, seen) == IF s = <<>> THEN <<>>
                             ELSE IF NormV(Head(s), c) \in seen THEN DD(Tail(s), seen)
                             ELSE <<Head(s)>> \o DD(Tail(s), seen \cup {NormV(Head(s), c)})
              nn == IF e.dist THEN DD(nn0, {}) ELSE nn0
              RECURSIVE Sum(_)
              Sum(s) == IF s = <<>> THEN 0 ELSE Head(s).v + Sum(Tail(s))
          IN CASE e.f = "countstar" -> I(Len(grp))
               [] e.f = "count" -> I(Len(nn))
               [] e.f = "sum" -> (IF nn = <<>> THEN NULL ELSE I(Sum(nn)))
               [] e.f = "avg" -> (IF nn = <<>> THEN NULL ELSE Q(Sum(nn), Len(nn)))
               [] e.f = "min" -> (IF nn = <<>> THEN NULL ELSE CHOOSE m \in Range(nn) : \A o \in Range(nn) : CmpNN(m, o, c) <= 0)
               [] e.f = "max" -> (IF nn = <<>> THEN NULL ELSE CHOOSE m \in Range(nn) : \A o \in Range(nn) : CmpNN(m, o, c) >= 0))
    [] e.k = "subq" ->
         (LET r == Rows(e.q, env, db) IN
          CASE e.kind = "exists" -> B(r # <<>>)
            [] e.kind = "notexists" -> B(r = <<>>)
            [] e.kind = "scalar" -> (IF r = <<>> THEN NULL ELSE r[1][1])   \* generators emit single-row scalar subqueries only
            [] e.kind \in {"in", "notin"} ->
                 (LET x == Eval(e.e, env, grp, db)
                      c == Comb(CollOf(e.e), IF e.q.k = "select" THEN CollOf(e.q.proj[1]) ELSE "none")
                      res == In3(x, [i \in DOMAIN r |-> r[i][1]], c)
                  IN IF e.kind = "in" THEN res ELSE Not3(res)))
    [] OTHER -> Assert(FALSE, <<"bad expression node", e>>)

NullRow(w) == [i \in 1..w |-> NULL]

\* number of columns of a query's result
QWidth(q) == IF q.k = "select" THEN Len(q.proj) ELSE Len(q.colls)

Width(f, db) ==
  CASE f.k = "table" -> db[f.name].w
    [] f.k = "join" -> Width(f.l, db) + Width(f.r, db)
    [] f.k \in {"derived", "cte"} -> QWidth(f.q)
    [] f.k = "dual" -> 0

\* FROM clause -> sequence of rows.  env is the OUTER environment (ON conditions may reference it).
From(f, env, db) ==
  CASE f.k = "table" -> db[f.name].rows
    [] f.k \in {"derived", "cte"} -> Rows(f.q, <<>>, db)     \* a CTE reference means its body
    [] f.k = "dual" -> << <<>> >>
    [] f.k = "join" ->
         (LET L == From(f.l, env, db)
              R == From(f.r, env, db)
              wl == Width(f.l, db)
              wr == Width(f.r, db)
              Match(l, r) == f.jt = "cross" \/ IsTrue(Eval(f.on, <<l \o r>> \o env, <<>>, db))
              ForL(l) == LET m == SelectSeq(R, LAMBDA r : Match(l, r))
                         IN IF m = <<>> /\ f.jt = "left" THEN << l \o NullRow(wr) >>
                            ELSE [j \in 1..Len(m) |-> l \o m[j]]
              ForR(r) == LET m == SelectSeq(L, LAMBDA l : Match(l, r))
                         IN IF m = <<>> THEN << NullRow(wl) \o r >>
                            ELSE [j \in 1..Len(m) |-> m[j] \o r]
              RECURSIVE CatL(_), CatR(_)
              CatL(i) == IF i > Len(L) THEN <<>> ELSE ForL(L[i]) \o CatL(i + 1)
              CatR(i) == IF i > Len(R) THEN <<>> ELSE ForR(R[i]) \o CatR(i + 1)
          IN IF f.jt = "right" THEN CatR(1) ELSE CatL(1))

\* de-duplication of rows under per-column collations (keeps the first representative)
NormRow(r, cs) == [i \in DOMAIN r |-> NormV(r[i], cs[i])]
RECURSIVE Dedup(_, _, _)
Dedup(s, cs, seen) == IF s = <<>> THEN <<>>
                      ELSE IF NormRow(Head(s), cs) \in seen THEN Dedup(Tail(s), cs, seen)
                      ELSE <<Head(s)>> \o Dedup(Tail(s), cs, seen \cup {NormRow(Head(s), cs)})

\* order: sequence of [i |-> output ordinal, desc |-> BOOLEAN]; cs: per-output-column collation
RowLt(order, cs, a, b) ==
  \E k \in 1..Len(order) :
     /\ \A j \in 1..(k - 1) : OrdCmp(a[order[j].i], b[order[j].i], cs[order[j].i]) = 0
     /\ IF order[k].desc THEN OrdCmp(a[order[k].i], b[order[k].i], cs[order[k].i]) > 0
        ELSE OrdCmp(a[order[k].i], b[order[k].i], cs[order[k].i]) < 0
RowKeyEq(order, cs, a, b) == \A j \in 1..Len(order) : OrdCmp(a[order[j].i], b[order[j].i], cs[order[j].i]) = 0

OutColls(q) == IF q.k = "select" THEN [i \in DOMAIN q.proj |-> CollOf(q.proj[i])] ELSE q.colls

\* bag (multiset) helpers over normalised rows
CountIn(s, r) == Cardinality({i \in DOMAIN s : s[i] = r})
RECURSIVE RemoveOne(_, _)
RemoveOne(s, r) == IF s = <<>> THEN <<>> ELSE IF Head(s) = r THEN Tail(s) ELSE <<Head(s)>> \o RemoveOne(Tail(s), r)

\* rows of q before ORDER BY / LIMIT / OFFSET
CoreRows(q, env, db) ==
  IF q.k = "setop" THEN
     (LET L == Rows(q.l, env, db)
          R == Rows(q.r, env, db)
          cs == q.colls
          nL == [i \in DOMAIN L |-> NormRow(L[i], cs)]
          nR == [i \in DOMAIN R |-> NormRow(R[i], cs)]
          RECURSIVE InterAll(_, _), ExceptAll(_, _)
          InterAll(a, b) == IF a = <<>> THEN <<>>
                            ELSE IF CountIn(b, Head(a)) > 0 THEN <<Head(a)>> \o InterAll(Tail(a), RemoveOne(b, Head(a)))
                            ELSE InterAll(Tail(a), b)
          ExceptAll(a, b) == IF a = <<>> THEN <<>>
                             ELSE IF CountIn(b, Head(a)) > 0 THEN ExceptAll(Tail(a), RemoveOne(b, Head(a)))
                             ELSE <<Head(a)>> \o ExceptAll(Tail(a), b)
      IN CASE q.op = "union" -> (IF q.all THEN L \o R ELSE Dedup(L \o R, cs, {}))
           [] q.op = "intersect" -> (IF q.all THEN InterAll(nL, nR)
                                     ELSE Dedup(SelectSeq(nL, LAMBDA r : CountIn(nR, r) > 0), cs, {}))
           [] q.op = "except" -> (IF q.all THEN ExceptAll(nL, nR)
                                  ELSE Dedup(SelectSeq(nL, LAMBDA r : CountIn(nR, r) = 0), cs, {})))
  ELSE
     (LET src == From(q.from, env, db)
          flt == SelectSeq(src, LAMBDA r : IsTrue(Eval(q.where, <<r>> \o env, <<>>, db)))
          w == Width(q.from, db)
          out ==
            IF ~q.grouped THEN [i \in 1..Len(flt) |-> EvalList(q.proj, <<flt[i]>> \o env, <<>>, db)]
            ELSE
              LET gcs == [i \in DOMAIN q.group |-> CollOf(q.group[i])]
                  keyOf(r) == NormRow(EvalList(q.group, <<r>> \o env, <<>>, db), gcs)
                  RECURSIVE Keys(_, _)
                  Keys(i, seen) == IF i > Len(flt) THEN <<>>
                                   ELSE IF keyOf(flt[i]) \in seen THEN Keys(i + 1, seen)
                                   ELSE <<keyOf(flt[i])>> \o Keys(i + 1, seen \cup {keyOf(flt[i])})
                  keys == Keys(1, {})
                  grpOf(kk) == SelectSeq(flt, LAMBDA r : keyOf(r) = kk)
                  groups == IF q.group = <<>> THEN << flt >>           \* global aggregate: one group, maybe empty
                            ELSE [i \in 1..Len(keys) |-> grpOf(keys[i])]
                  rep(g) == IF g = <<>> THEN NullRow(w) ELSE g[1]
                  kept == SelectSeq(groups, LAMBDA g : IsTrue(Eval(q.having, <<rep(g)>> \o env, g, db)))
              IN [i \in 1..Len(kept) |-> EvalList(q.proj, <<rep(kept[i])>> \o env, kept[i], db)]
      IN IF q.distinct THEN Dedup(out, OutColls(q), {}) ELSE out)

\* one valid result of q (ties in ORDER BY broken arbitrarily by SortSeq)
Rows(q, env, db) ==
  LET core == CoreRows(q, env, db)
      cs == OutColls(q)
      srt == IF q.order = <<>> THEN core ELSE SortSeq(core, LAMBDA a, b : RowLt(q.order, cs, a, b))
      lo == q.offset + 1
      hi == IF q.limit < 0 THEN Len(srt) ELSE Min2(Len(srt), q.offset + q.limit)
  IN IF lo > hi THEN <<>> ELSE SubSeq(srt, lo, hi)

\* ------------------------------------------------------------------ comparing a reported result
\* `res` (what the engine returned) is an acceptable result of q over db iff it is a possible value of
\* the query under SOME valid order of unordered parts and SOME choice of tie-breaking:
\*   - as a bag of collation-normalised rows it is contained in the core rows,
\*   - it has the length LIMIT/OFFSET prescribe,
\*   - with ORDER BY it is sorted and its i-th sort key equals the (offset+i)-th sort key of the sorted core,
\*   - without LIMIT/OFFSET it is the whole bag.
\* AVG values arrive as [t |-> "f", v |-> round(x * 10^4)] and match Q(n, d) within half a unit.
ValMatch(got, exp, c) ==
  IF exp.t = "q" THEN
     (IF got.t = "f" THEN Abs(got.v * exp.d - exp.n * 10000) * 2 <= exp.d
      ELSE IF got.t = "i" THEN got.v * exp.d = exp.n ELSE FALSE)
  ELSE IF got.t = "f" THEN (exp.t = "i" /\ got.v = exp.v * 10000)
  ELSE NormV(got, c) = NormV(exp, c)
RowMatch(got, exp, cs) == Len(got) = Len(exp) /\ \A i \in DOMAIN got : ValMatch(got[i], exp[i], cs[i])

\* a bijection-free bag containment test: greedy matching is exact because RowMatch is an
\* equivalence on the values that occur (normalised equality; fractions match a unique exact value)
RECURSIVE SubBagM(_, _, _)
SubBagM(res, core, cs) ==
  IF res = <<>> THEN TRUE
  ELSE LET hits == {j \in DOMAIN core : RowMatch(Head(res), core[j], cs)} IN
       IF hits = {} THEN FALSE
       ELSE LET j == CHOOSE x \in hits : TRUE IN
            SubBagM(Tail(res), [k \in 1..(Len(core) - 1) |-> IF k < j THEN core[k] ELSE core[k + 1]], cs)

ExpectedLen(q, n) == IF q.offset >= n THEN 0 ELSE IF q.limit < 0 THEN n - q.offset ELSE Min2(q.limit, n - q.offset)

ResultOK(q, db, res) ==
  LET core == CoreRows(q, <<>>, db)
      cs == OutColls(q)
      n == Len(core)
      sorted == IF q.order = <<>> THEN core ELSE SortSeq(core, LAMBDA a, b : RowLt(q.order, cs, a, b))
  IN /\ Len(res) = ExpectedLen(q, n)
     /\ SubBagM(res, core, cs)
     /\ q.order # <<>> =>
          /\ \A i \in 1..(Len(res) - 1) : ~RowLt(q.order, cs, res[i + 1], res[i])
          /\ \A i \in 1..Len(res) :
               \A j \in 1..Len(q.order) :
                  LET o == q.order[j].i IN
                  ValMatch(res[i][o], sorted[q.offset + i][o], cs[o]) \/
                  OrdCmp(NormV(res[i][o], cs[o]), NormV(sorted[q.offset + i][o], cs[o]), cs[o]) = 0

\* convenience constructors used by the law modules
TT == [k |-> "lit", v |-> I(1)]
Sel(from, where, proj) == [k |-> "select", from |-> from, where |-> where, grouped |-> FALSE, group |-> <<>>,
                           having |-> TT, proj |-> proj, distinct |-> FALSE, order |-> <<>>, limit |-> -1, offset |-> 0]
BagEqRows(s, t, cs) == Len(s) = Len(t) /\ SubBagM(s, t, cs)
=============================================================================
