------------------------------- MODULE Spool -------------------------------
(* C35.  The result-spooling pipeline of server/handler.go: resultForDefaultIter /
   resultForValueRowIter (identical control structure) and the tail of doQuery.

   Four goroutines in one errgroup, one action per channel operation / select arm:

     Reader   for { select { <-ctx.Done: return Cause(ctx)            RCheck
                             default: row, e := iter.Next             RNext   (EOF -> nil, e -> e)
                                      select { rowChan <- row         RSend   (arm 1)
                                               <-ctx.Done: return Cause RSend   (arm 2; returned nil before the repair 882fd8624)
              }}}  defer close(rowChan)
     Batcher  for { select { <-ctx.Done: return Cause(ctx)            BRecv
                             <-timer.C: readTimeout != 0 -> ErrRowTimeout
                             row, ok := <-rowChan: !ok -> return nil
                                 res = append(res, row)
                                 if len(res) == BatchSize
                                    select { <-ctx.Done: return Cause BFlush
                                             resChan <- res: res = new }
              }}   defer close(resChan)
     Sender   for { select { <-ctx.Done: return Cause(ctx)            SRecv
                             r, ok := <-resChan: !ok -> return nil
                                 processed = true; e := callback(r, more); e != nil -> return e   SCb
              }}
     Closer   wg.Wait() (the three above); return iter.Close()        CClose
     Main     err := eg.Wait(); err != nil -> return err              MWait
              res empty and processed -> return nil
              return callback(res, more)                              MFinal, MRet

   errgroup: the first non-nil return value is kept, cancels ctx with that cause; Wait returns it.
   A Go select with several ready arms picks one at random: every ready arm is a separate disjunct.

   Rows are the integers 1..n in iterator order.  Faults (chosen in Init):
     iterErr = k  the k-th call of iter.Next returns an error (k-1 rows were produced; k = n+1 replaces EOF)
     cbErr   = j  the j-th callback invocation (by Sender or by Main) returns an error
     stallAt = k  the k-th call of iter.Next blocks until ctx is done and returns ctx.Err()
                  (only with Timeouts: the handler then has readTimeout > 0)
     Kill         external cancellation of the parent context (KILL QUERY, client disconnect), at any step
   `more` is doQuery's "more result sets follow" flag; it is passed unchanged to every callback.

   The second half of the module is the OBSERVABLE specification (ObsCb / ObsRet): what a caller of
   ComQuery may see -- callback invocations and the return value.  Spool refines it (property
   Refines, checked by TLC on the small configurations); Trace_Spool.tla validates executions recorded
   from the real handler against the same operators with the real BatchSize. *)
EXTENDS Integers, Sequences, FiniteSets, TLC, Json

CONSTANTS BatchSize,    \* rowsBatch (128 in the code)
          RowCap,       \* cap(rowChan) (512)
          ResCap,       \* cap(resChan) (4)
          MaxRows,      \* iterator lengths 0..MaxRows
          Kills,        \* BOOLEAN: external cancel may happen
          Timeouts,     \* BOOLEAN: readTimeout > 0 (timer arm returns ErrRowTimeout) and iterator stalls are generated
          CtxAwareIter, \* BOOLEAN: iter.Next may also return ctx.Err() once ctx is done
          Faults        \* BOOLEAN: iterator / callback faults are generated

VARIABLES par,                          \* [n, iterErr, cbErr, stallAt, more, timeouts]
          rpc, rcalls, rrow,            \* Reader: pc, number of Next calls made, row in hand
          rowChan, rowClosed,
          bpc, res,                     \* Batcher: pc, current result (sequence of row ids)
          resChan, resClosed,
          spc, sbatch, processed,       \* Sender
          cpc,                          \* Closer
          ctxDone, cause, egErr,        \* errgroup context, its cause, first error
          mpc, mret, fin,               \* Main: pc, value about to be returned, final callback made
          killed,
          delivered, ret                \* history: callback invocations [rows, more]; return value
vars == <<par, rpc, rcalls, rrow, rowChan, rowClosed, bpc, res, resChan, resClosed, spc, sbatch,
          processed, cpc, ctxDone, cause, egErr, mpc, mret, fin, killed, delivered, ret>>

Max(a, b) == IF a > b THEN a ELSE b
CeilDiv(a, b) == (a + b - 1) \div b
MaxCb == CeilDiv(MaxRows, BatchSize) + 1

Params ==
    {p \in [n : 0..MaxRows, iterErr : 0..(MaxRows + 1), cbErr : 0..MaxCb, stallAt : 0..(MaxRows + 1),
            more : BOOLEAN, timeouts : {Timeouts}] :
        /\ p.iterErr <= p.n + 1
        /\ p.stallAt <= p.n + 1
        /\ (~Faults => p.iterErr = 0 /\ p.cbErr = 0)
        /\ (~Timeouts => p.stallAt = 0)
        /\ (p.stallAt # 0 => p.iterErr = 0 \/ p.iterErr > p.stallAt)}

Init ==
    /\ par \in Params
    /\ rpc = "check" /\ rcalls = 0 /\ rrow = 0
    /\ rowChan = <<>> /\ rowClosed = FALSE
    /\ bpc = "recv" /\ res = <<>>
    /\ resChan = <<>> /\ resClosed = FALSE
    /\ spc = "recv" /\ sbatch = <<>> /\ processed = FALSE
    /\ cpc = "wait"
    /\ ctxDone = FALSE /\ cause = "none" /\ egErr = "none"
    /\ mpc = "wait" /\ mret = "none" /\ fin = FALSE
    /\ killed = FALSE
    /\ delivered = <<>> /\ ret = "pending"

\* a goroutine of the errgroup returns e
GoReturn(e) ==
    IF e # "none" /\ egErr = "none"
    THEN /\ egErr' = e
         /\ IF ctxDone THEN UNCHANGED <<ctxDone, cause>> ELSE ctxDone' = TRUE /\ cause' = e
    ELSE UNCHANGED <<egErr, ctxDone, cause>>

\* ---------------------------------------------------------------- Reader
RVars == <<rpc, rcalls, rrow, rowChan, rowClosed>>
ReaderReturn(e) ==
    /\ rpc' = "done" /\ rowClosed' = TRUE
    /\ GoReturn(e)

RCheck ==
    /\ rpc = "check"
    /\ IF ctxDone
       THEN ReaderReturn(cause) /\ UNCHANGED <<rcalls, rrow, rowChan>>
       ELSE rpc' = "next" /\ UNCHANGED <<rcalls, rrow, rowChan, rowClosed, egErr, ctxDone, cause>>
    /\ UNCHANGED <<par, bpc, res, resChan, resClosed, spc, sbatch, processed, cpc, mpc, mret, fin, killed, delivered, ret>>

RNext ==
    /\ rpc = "next"
    /\ LET k == rcalls + 1 IN
       \/ /\ par.stallAt = k                   \* blocked in Next until the context is done
          /\ ctxDone
          /\ ReaderReturn(cause) /\ rcalls' = k /\ UNCHANGED <<rrow, rowChan>>
       \/ /\ par.stallAt # k /\ par.iterErr = k
          /\ ReaderReturn("iter") /\ rcalls' = k /\ UNCHANGED <<rrow, rowChan>>
       \/ /\ par.stallAt # k /\ par.iterErr # k /\ k = par.n + 1        \* io.EOF
          /\ ReaderReturn("none") /\ rcalls' = k /\ UNCHANGED <<rrow, rowChan>>
       \/ /\ par.stallAt # k /\ par.iterErr # k /\ k <= par.n
          /\ rrow' = k /\ rcalls' = k /\ rpc' = "send"
          /\ UNCHANGED <<rowChan, rowClosed, egErr, ctxDone, cause>>
       \/ /\ CtxAwareIter /\ ctxDone /\ par.stallAt # k
          /\ ReaderReturn(cause) /\ rcalls' = k /\ UNCHANGED <<rrow, rowChan>>
    /\ UNCHANGED <<par, bpc, res, resChan, resClosed, spc, sbatch, processed, cpc, mpc, mret, fin, killed, delivered, ret>>

RSend ==
    /\ rpc = "send"
    /\ \/ /\ Len(rowChan) < RowCap
          /\ rowChan' = Append(rowChan, rrow) /\ rpc' = "check"
          /\ UNCHANGED <<rcalls, rrow, rowClosed, egErr, ctxDone, cause>>
       \/ /\ ctxDone                            \* `case <-ctx.Done(): return context.Cause(ctx)`
          /\ ReaderReturn(cause) /\ UNCHANGED <<rcalls, rrow, rowChan>>
    /\ UNCHANGED <<par, bpc, res, resChan, resClosed, spc, sbatch, processed, cpc, mpc, mret, fin, killed, delivered, ret>>

Reader == RCheck \/ RNext \/ RSend

\* ---------------------------------------------------------------- Batcher
BatcherReturn(e) ==
    /\ bpc' = "done" /\ resClosed' = TRUE
    /\ GoReturn(e)

BRecv ==
    /\ bpc = "recv"
    /\ \/ /\ ctxDone
          /\ BatcherReturn(cause) /\ UNCHANGED <<res, rowChan>>
       \/ /\ par.timeouts                       \* timer.C with readTimeout != 0
          /\ BatcherReturn("timeout") /\ UNCHANGED <<res, rowChan>>
       \/ /\ rowChan # <<>>
          /\ rowChan' = Tail(rowChan)
          /\ res' = Append(res, Head(rowChan))
          /\ bpc' = IF Len(res) + 1 = BatchSize THEN "flush" ELSE "recv"
          /\ UNCHANGED <<resClosed, egErr, ctxDone, cause>>
       \/ /\ rowChan = <<>> /\ rowClosed
          /\ BatcherReturn("none") /\ UNCHANGED <<res, rowChan>>
    /\ UNCHANGED <<par, rpc, rcalls, rrow, rowClosed, resChan, spc, sbatch, processed, cpc, mpc, mret, fin, killed, delivered, ret>>

BFlush ==
    /\ bpc = "flush"
    /\ \/ /\ ctxDone
          /\ BatcherReturn(cause) /\ UNCHANGED <<res, resChan>>
       \/ /\ Len(resChan) < ResCap
          /\ resChan' = Append(resChan, res) /\ res' = <<>> /\ bpc' = "recv"
          /\ UNCHANGED <<resClosed, egErr, ctxDone, cause>>
    /\ UNCHANGED <<par, rpc, rcalls, rrow, rowChan, rowClosed, spc, sbatch, processed, cpc, mpc, mret, fin, killed, delivered, ret>>

Batcher == BRecv \/ BFlush

\* ---------------------------------------------------------------- Sender
SRecv ==
    /\ spc = "recv"
    /\ \/ /\ ctxDone
          /\ spc' = "done" /\ GoReturn(cause) /\ UNCHANGED <<resChan, sbatch, processed>>
       \/ /\ resChan # <<>>
          /\ sbatch' = Head(resChan) /\ resChan' = Tail(resChan) /\ processed' = TRUE /\ spc' = "cb"
          /\ UNCHANGED <<egErr, ctxDone, cause>>
       \/ /\ resChan = <<>> /\ resClosed
          /\ spc' = "done" /\ GoReturn("none") /\ UNCHANGED <<resChan, sbatch, processed>>
    /\ UNCHANGED <<par, rpc, rcalls, rrow, rowChan, rowClosed, bpc, res, resClosed, cpc, mpc, mret, fin, killed, delivered, ret>>

SCb ==
    /\ spc = "cb"
    /\ delivered' = Append(delivered, [rows |-> sbatch, more |-> par.more])
    /\ IF par.cbErr = Len(delivered) + 1
       THEN spc' = "done" /\ GoReturn("cb")
       ELSE spc' = "recv" /\ UNCHANGED <<egErr, ctxDone, cause>>
    /\ UNCHANGED <<par, rpc, rcalls, rrow, rowChan, rowClosed, bpc, res, resChan, resClosed, sbatch, processed, cpc, mpc, mret, fin, killed, ret>>

Sender == SRecv \/ SCb

\* ---------------------------------------------------------------- Closer, Main
CClose ==
    /\ cpc = "wait" /\ rpc = "done" /\ bpc = "done" /\ spc = "done"
    /\ cpc' = "done"                            \* iter.Close returns nil
    /\ UNCHANGED <<par, rpc, rcalls, rrow, rowChan, rowClosed, bpc, res, resChan, resClosed, spc, sbatch,
                   processed, ctxDone, cause, egErr, mpc, mret, fin, killed, delivered, ret>>

MWait ==
    /\ mpc = "wait" /\ rpc = "done" /\ bpc = "done" /\ spc = "done" /\ cpc = "done"
    /\ IF egErr # "none" THEN mret' = egErr /\ mpc' = "ret"
       ELSE IF res = <<>> /\ processed THEN mret' = "ok" /\ mpc' = "ret"
       ELSE mpc' = "final" /\ mret' = mret
    /\ UNCHANGED <<par, rpc, rcalls, rrow, rowChan, rowClosed, bpc, res, resChan, resClosed, spc, sbatch,
                   processed, cpc, ctxDone, cause, egErr, fin, killed, delivered, ret>>

MFinal ==
    /\ mpc = "final"
    /\ delivered' = Append(delivered, [rows |-> res, more |-> par.more])
    /\ mret' = IF par.cbErr = Len(delivered) + 1 THEN "cb" ELSE "ok"
    /\ fin' = TRUE /\ mpc' = "ret"
    /\ UNCHANGED <<par, rpc, rcalls, rrow, rowChan, rowClosed, bpc, res, resChan, resClosed, spc, sbatch,
                   processed, cpc, ctxDone, cause, egErr, killed, ret>>

MRet ==
    /\ mpc = "ret"
    /\ ret' = mret /\ mpc' = "returned"
    /\ UNCHANGED <<par, rpc, rcalls, rrow, rowChan, rowClosed, bpc, res, resChan, resClosed, spc, sbatch,
                   processed, cpc, ctxDone, cause, egErr, mret, fin, killed, delivered>>

Main == MWait \/ MFinal \/ MRet

\* external cancellation of the parent context
Kill ==
    /\ Kills /\ ~killed /\ mpc \in {"wait", "final"}
    /\ killed' = TRUE
    /\ IF ctxDone THEN UNCHANGED <<ctxDone, cause>> ELSE ctxDone' = TRUE /\ cause' = "canceled"
    /\ UNCHANGED <<par, rpc, rcalls, rrow, rowChan, rowClosed, bpc, res, resChan, resClosed, spc, sbatch,
                   processed, cpc, egErr, mpc, mret, fin, delivered, ret>>

Done == mpc = "returned"
Terminated == Done /\ UNCHANGED vars

Next == Reader \/ Batcher \/ Sender \/ CClose \/ Main \/ Kill \/ Terminated

Spec == Init /\ [][Next]_vars
FairSpec == Spec /\ WF_vars(Reader) /\ WF_vars(Batcher) /\ WF_vars(Sender) /\ WF_vars(CClose) /\ WF_vars(Main)

\* ================================================================ the observable specification
\* p: parameters of the execution; B: batch size; s = [sent, ncb, fin, killed]: rows delivered so far,
\* callbacks made so far, final (partial) callback made, external cancel issued.
Avail(p) == IF p.iterErr = 0 THEN p.n ELSE p.iterErr - 1      \* rows the iterator can produce

ObsInit == [sent |-> 0, ncb |-> 0, fin |-> FALSE, killed |-> FALSE]

\* b = [cnt, first, last, contig, more, fields]: one callback invocation
ObsCb(p, B, s, b) ==
    /\ ~s.fin                                           \* nothing after the final callback
    /\ (p.cbErr = 0 \/ s.ncb < p.cbErr)                 \* nothing after a callback that failed
    /\ b.more = p.more /\ b.fields
    /\ b.cnt \in 0..B
    /\ (b.cnt > 0 => b.first = s.sent + 1 /\ b.last = s.sent + b.cnt /\ b.contig)   \* in order, no loss, no duplicate
    /\ s.sent + b.cnt <= Avail(p)
    /\ (b.cnt < B =>                                    \* a short batch is the last one of a complete result
           /\ p.iterErr = 0 /\ s.sent + b.cnt = p.n
           /\ (b.cnt > 0 \/ s.ncb = 0))                 \* an empty one only when nothing was sent before

ObsAfterCb(B, s, b) == [s EXCEPT !.sent = @ + b.cnt, !.ncb = @ + 1, !.fin = (b.cnt < B)]

\* c: class of the value ComQuery returns
ObsRet(p, B, s, c) ==
    CASE c = "ok" ->
           /\ p.iterErr = 0 /\ s.sent = p.n                            \* everything was delivered
           /\ (p.cbErr = 0 \/ s.ncb < p.cbErr)                         \* a callback error is returned
           /\ (s.fin \/ (s.ncb > 0 /\ p.n % B = 0))
      [] c = "iter" -> p.iterErr # 0 /\ ~s.fin
      [] c = "cb" -> p.cbErr # 0 /\ s.ncb = p.cbErr
      [] c = "canceled" -> s.killed /\ ~s.fin
      [] c = "timeout" -> p.timeouts /\ ~s.fin
      [] OTHER -> FALSE

\* ---------------------------------------------------------------- Spool refines it
RECURSIVE Flat(_)
Flat(d) == IF d = <<>> THEN <<>> ELSE Flat(SubSeq(d, 1, Len(d) - 1)) \o d[Len(d)].rows

Contig(r) == \A i \in 1..(Len(r) - 1) : r[i + 1] = r[i] + 1
Summ(x) == [cnt |-> Len(x.rows), first |-> IF x.rows = <<>> THEN 0 ELSE x.rows[1],
            last |-> IF x.rows = <<>> THEN 0 ELSE x.rows[Len(x.rows)], contig |-> Contig(x.rows),
            more |-> x.more, fields |-> TRUE]
\* fin of the observable state is a function of the callbacks seen so far (as in Trace_Spool)
ObsS == [sent |-> Len(Flat(delivered)), ncb |-> Len(delivered),
         fin |-> (delivered # <<>> /\ Len(delivered[Len(delivered)].rows) < BatchSize), killed |-> killed]

RefStep ==
    /\ (delivered' # delivered =>
            /\ Len(delivered') = Len(delivered) + 1
            /\ SubSeq(delivered', 1, Len(delivered)) = delivered
            /\ ObsCb(par, BatchSize, ObsS, Summ(delivered'[Len(delivered')]))
            /\ ret' = ret)
    /\ (ret' # ret => ret = "pending" /\ ObsRet(par, BatchSize, ObsS, ret'))
Refines == [][RefStep]_<<delivered, ret>>
\* the same without the requirement on an "ok" return (used to check everything else when Kills = TRUE)
RefStepNoOk ==
    /\ (delivered' # delivered =>
            /\ Len(delivered') = Len(delivered) + 1
            /\ SubSeq(delivered', 1, Len(delivered)) = delivered
            /\ LET b == Summ(delivered'[Len(delivered')]) IN
               \/ ObsCb(par, BatchSize, ObsS, b)
               \/ (b.cnt < BatchSize /\ killed /\ ObsCb([par EXCEPT !.n = ObsS.sent + b.cnt, !.iterErr = 0], BatchSize, ObsS, b))
            /\ ret' = ret)
    /\ (ret' # ret => ret = "pending" /\ (ret' = "ok" \/ ObsRet(par, BatchSize, ObsS, ret')))
RefinesNoOk == [][RefStepNoOk]_<<delivered, ret>>

\* ---------------------------------------------------------------- state invariants
TypeOK ==
    /\ rpc \in {"check", "next", "send", "done"} /\ bpc \in {"recv", "flush", "done"}
    /\ spc \in {"recv", "cb", "done"} /\ cpc \in {"wait", "done"}
    /\ mpc \in {"wait", "final", "ret", "returned"}
    /\ Len(rowChan) <= RowCap /\ Len(resChan) <= ResCap
    /\ ret \in {"pending", "ok", "iter", "cb", "canceled", "timeout"}
\* delivered batches are the iterator's rows in order: no loss inside, no duplicate
InOrder == LET f == Flat(delivered) IN \A i \in 1..Len(f) : f[i] = i
\* every batch except the last has exactly BatchSize rows; none is larger
BatchSizes == \A i \in 1..Len(delivered) :
                 /\ Len(delivered[i].rows) <= BatchSize
                 /\ (i < Len(delivered) => Len(delivered[i].rows) = BatchSize)
MoreFlags == \A i \in 1..Len(delivered) : delivered[i].more = par.more
\* nothing is produced twice or skipped inside the pipeline
Conservation == LET f == Flat(delivered) \o (IF spc = "cb" THEN sbatch ELSE <<>>) \o Flat([i \in 1..Len(resChan) |-> [rows |-> resChan[i]]])
                         \o (IF fin THEN <<>> ELSE res) \o rowChan \o (IF rpc = "send" THEN <<rrow>> ELSE <<>>)
                IN  \A i \in 1..Len(f) : f[i] = i
\* the property of C35 at the return: success means the complete result was delivered
OkComplete == ret = "ok" =>
                 /\ Flat(delivered) = [i \in 1..par.n |-> i]
                 /\ par.iterErr = 0
                 /\ Len(delivered) = Max(1, CeilDiv(par.n, BatchSize))
\* an error that occurred is returned
ErrorReturned == Done => /\ (egErr # "none" => ret = egErr)
                         /\ (par.cbErr # 0 /\ Len(delivered) >= par.cbErr => ret # "ok")
NoSendOnClosed == (rowClosed => rpc = "done") /\ (resClosed => bpc = "done")
\* closed channels, all goroutines joined when Main proceeds
Joined == mpc # "wait" => rpc = "done" /\ bpc = "done" /\ spc = "done" /\ cpc = "done"

Termination == <>Done

\* terminal summaries (compared with the observable machine's by run/props/C35.py)
Summary == [p |-> par, sent |-> Len(Flat(delivered)), ncb |-> Len(delivered), ret |-> ret, killed |-> killed]
SumEmit == (mpc' = "returned" /\ mpc # "returned") => PrintT("SUM " \o ToJson(Summary'))
View == <<par, rpc, rcalls, rrow, rowChan, rowClosed, bpc, res, resChan, resClosed, spc, sbatch,
          processed, cpc, ctxDone, cause, egErr, mpc, mret, fin, killed, delivered, ret>>
=============================================================================
