---------------------------- MODULE Trace_ReadOnly ----------------------------
(* C42, judging the observations recorded by harness/cmd/c42 (one line per mode x representative):
     {"ev":"x","id":n,"mode":m,"kind":k,"tab":table feature ("any" for kinds that name their own tables),"rep":..,"out":ok|rejected|error|panic,"changed":bool,
      "rw_out":..,"rw_changed":bool,"same":bool, ...}
   with the rule of ReadOnlyModes (Expect / Judge).  The class of the kind comes from the
   specification's table, never from the trace.  Every line is consumed; a disagreement prints
   `MM <json>`, an unusable representative `INC <json>`. *)
EXTENDS ReadOnlyModes

TraceLog == ndJsonDeserialize("trace.ndjson")

VARIABLES l
tvars == <<l>>

\* the state variables of ReadOnlyModes are not used here (only its constant-level rule is)
TInit == l = 1 /\ mode = "none" /\ db = 0 /\ act = "init" /\ ret = "none" /\ tab = "any"

JudgeLine(e) ==
  IF e.kind \notin Kinds \/ e.mode \notin Modes \/ e.tab \notin TabsOf(e.kind)
  THEN PrintT("MM " \o ToJson([l |-> l, id |-> e.id, what |-> "unknown kind, mode or table feature"]))
  ELSE LET v == Judge(e.mode, e.kind, e) IN
       CASE v = "agree" -> TRUE
         [] v = "inconclusive" -> PrintT("INC " \o ToJson([l |-> l, id |-> e.id]))
         [] OTHER -> PrintT("MM " \o ToJson([l |-> l, id |-> e.id, what |-> "outcome",
                                            class |-> ClassOf(e.kind), scope |-> ScopeOf(e.kind), family |-> FamilyOf(e.kind),
                                            exp |-> Expect(e.mode, e.kind)]))

TNext ==
  /\ l <= Len(TraceLog)
  /\ l' = l + 1
  /\ UNCHANGED vars
  /\ JudgeLine(TraceLog[l])

HW == TLCSet(1, l)
Accepted == TLCGet(1) = Len(TraceLog) + 1
=============================================================================
