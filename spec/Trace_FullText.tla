--------------------------- MODULE Trace_FullText ---------------------------
(* C51, binding B: validates recorded DML histories on a FULLTEXT table (harness/cmd/c51 -mode hist).
   Every line is one step and is self-contained:
     {"ev":"step","id":n,"hid":h,"k":k,"coll":"ci"|"bin","multi":bool,"op":..,"sql":..,
      "res":"ok"|<error>,"twres":..,"indexed":bool,"dirty":<classification tag of the generator>,
      "rows":[{id, cols:[{n,v},{n,v}]}..]   -- SELECT id, a, b FROM ft ORDER BY id  (after the step)
      "twin":[..]                           -- the same from the index-free twin table
      "qs":[{"q":<code points>,"where":[ids],"score":[ids],"werr":"","serr":""}..]}
   The index has no abstract state: after EVERY step and for every query string,
       ids returned by  WHERE MATCH(..) AGAINST(q)       (index-driven plan)
       ids returned by  WHERE MATCH(..) AGAINST(q) > 0   (per-row evaluation)
   must both be exactly MatchIds over the CURRENT rows, each id once; and the FULLTEXT table must
   hold the same rows as its twin (the index must not change what DML does). *)
EXTENDS FullText, Json

TraceLog == ndJsonDeserialize("trace.ndjson")

VARIABLES l
vars == <<l>>
Init == l = 1


\* the document of a row: column a, or a and b for the two-column index
Indexed(e, r) == IF e.multi THEN r.cols ELSE <<r.cols[1]>>
\* word sets of the current rows, evaluated once per step
DocWords(e) == TLCEval([k \in DOMAIN e.rows |-> Words(Doc(Indexed(e, e.rows[k])), e.coll)])
\* the expected id set of every query of the step
ExpectedAll(e) == LET dw == DocWords(e) IN
                  TLCEval([i \in DOMAIN e.qs |-> MatchIdsW(e.rows, dw, Words(e.qs[i].q, e.coll))])

Kind(ids, err, exp) ==
    IF err # "" THEN "error"
    ELSE IF exp \ Range(ids) # {} THEN "missing"
    ELSE IF Range(ids) \ exp # {} THEN "extra"
    ELSE IF Len(ids) # Cardinality(exp) THEN "duplicate"
    ELSE "ok"

Problems(e, exp) ==
    (IF e.rows # e.twin \/ e.res # e.twres THEN {[what |-> "twin", kind |-> "differs", q |-> 0]} ELSE {})
    \cup {[what |-> "where", kind |-> Kind(e.qs[i].where, e.qs[i].werr, exp[i]), q |-> i] : i \in DOMAIN e.qs}
    \cup {[what |-> "score", kind |-> Kind(e.qs[i].score, e.qs[i].serr, exp[i]), q |-> i] : i \in DOMAIN e.qs}

Judge(e) ==
    LET exp == ExpectedAll(e)
        bad == {p \in Problems(e, exp) : p.kind # "ok"}
    IN IF bad = {} THEN TRUE
       ELSE PrintT("MM " \o ToJson([l |-> l, id |-> e.id, hid |-> e.hid, k |-> e.k, op |-> e.op, dirty |-> e.dirty, bad |-> bad,
                                     exp |-> exp]))

Next ==
  /\ l <= Len(TraceLog)
  /\ l' = l + 1
  /\ Judge(TraceLog[l])

HW == TLCSet(1, l)
Accepted == TLCGet(1) = Len(TraceLog) + 1
=============================================================================
