CONSTANTS
  AcctUsers = {"alice", ""}
  AcctHosts = {"localhost", "127.0.0.1", "%", "10.%", "127.0.0.%"}
  Plugins = {"native", "sha2"}
  LockKinds = {"no", "create", "update"}
  MaxAccts = 2
  AttemptUsers = {"alice", "bob"}
  Lens = {1, 2, 3, 4, 5, 6, 7, 8, 9, 10, 11, 12, 13, 14, 15, 16, 17, 18, 19, 21, 22, 23, 24, 25, 26, 27, 28, 29, 30, 31, 32, 33, 34, 35, 36, 37, 38, 39, 40}
  NulLens = {1, 19, 20, 21, 32}
  PadLens = {1, 2, 12, 20}
INIT Init
NEXT Next
INVARIANTS TypeOK AcceptSound MalformedRejected EmptyOnlyPasswordless ExactAccepted WrongRejected NoAccountRejected AllLockedRejected AcceptComplete ExactFirst
ACTION_CONSTRAINT Emit
CHECK_DEADLOCK FALSE
