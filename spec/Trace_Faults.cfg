INIT Init
NEXT FNext
CONSTRAINT HW
POSTCONDITION Accepted
CHECK_DEADLOCK FALSE
