----------------------------- MODULE Trace_Proc -----------------------------
(* Binding B of C24: validates recorded CALL outcomes of generated procedures against the
   STRUCTURED semantics of ProcMachine.  trace.ndjson lines:
     {"ev":"p", "id":n, "prog":<program AST>, "got":{"err":.., "vars":[..], "log":[..], "sel":[..]}, ...}
   Every line is consumed.  Per line one of
   Per line one "MM <json>" record (the judgement channel that run/sqlcommon.validate_trace collects) with
     what = "ok"        the engine's observation equals Obs(RunS(prog))      (nt = non-trivial run)
     what = "excluded"  the structured run leaves the bounds (loop bound / value range): not judged
     what = "mismatch"  disagreement; the record carries the expectation, the outcome and deviation tags
                        of the machine AS CODED, and whether that machine predicts the recorded outcome
                        (coded = TRUE: the disagreement is one of the modelled deviations of the code; also
                        when the as-coded machine leaves the value/step bounds AFTER a deviation fired, where
                        it predicts nothing). *)
EXTENDS ProcMachine, Json

TraceLog == ndJsonDeserialize("trace.ndjson")

VARIABLES l
vars == <<l>>

Init == l = 1

Judge(e) ==
  LET s == RunS(e.prog) IN
  IF s.excl THEN PrintT("MM " \o ToJson([l |-> l, id |-> e.id, what |-> "excluded"]))
  ELSE IF e.got = Obs(s) THEN PrintT("MM " \o ToJson([l |-> l, id |-> e.id, what |-> "ok", nt |-> s.nt]))
  ELSE LET mc == RunM(e.prog, Coded) IN
       PrintT("MM " \o ToJson([l |-> l, id |-> e.id, what |-> "mismatch", exp |-> Obs(s), mach |-> Obs(mc),
                                mtags |-> mc.tags, coded |-> ((~mc.excl /\ e.got = Obs(mc)) \/ (mc.excl /\ mc.tags # {})), nt |-> s.nt]))

Next ==
  /\ l <= Len(TraceLog)
  /\ l' = l + 1
  /\ Judge(TraceLog[l])

HW == TLCSet(1, l)
Accepted == TLCGet(1) = Len(TraceLog) + 1
=============================================================================
