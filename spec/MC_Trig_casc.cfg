INIT Init
NEXT Next
CONSTANTS
  Event = "casc"
  MaxTrig = 3
VIEW View0
CONSTRAINT Bounded
PROPERTIES OncePerRow FailedNoEffect CascadeOnce
CHECK_DEADLOCK FALSE
