-------------------------- MODULE Trace_TotalOrder --------------------------
(* C26, binding B.  trace.ndjson: one event per (type, value set):
     {"ev":"set", "id":n, "type":.., "fam": "opaque" | "num" | "bin" | "aici", "nulls":[i..],
      "m":  [[..]..]   Type.Compare on the raw values,
      "mc": [[..]..]   Type.Compare on the values after Type.Convert,
      "ms": [[..]..]   the ORDER BY comparison (sorter, ascending) on the converted values,
      "interp": [..]   for interpreted families: what each converted value denotes (TotalOrder.tla)}
   Every line is consumed; a broken law prints `MM <json>` (with small witnesses) and validation
   continues. *)
EXTENDS TotalOrder, Json

TraceLog == ndJsonDeserialize("trace.ndjson")

VARIABLE l
vars == <<l>>
Init == l = 1

Pick(S) == IF S = {} THEN <<>> ELSE CHOOSE x \in S : TRUE
Judge(e) ==
  LET nulls == {e.nulls[i] : i \in DOMAIN e.nulls}
      bad == Broken(e.m, e.mc, e.ms, nulls)
      sd == IF e.fam \in {"num", "bin", "aici"} THEN SpecDisagree(e.fam, e.ms, e.interp) ELSE {}
      all == bad \cup (IF sd # {} THEN {"spec-order"} ELSE {})
  IN IF all = {} THEN TRUE
     ELSE PrintT("MM " \o ToJson([l |-> l, id |-> e.id, laws |-> all,
                                   trans |-> Pick(TransBad(e.m) \cup TransBad(e.mc) \cup TransBad(e.ms)),
                                   agree |-> Pick(Disagree(e.m, e.mc)),
                                   spec |-> Pick(sd)]))
Next ==
  /\ l <= Len(TraceLog)
  /\ l' = l + 1
  /\ LET e == TraceLog[l] IN IF e.ev = "set" THEN Judge(e) ELSE TRUE

HW == TLCSet(1, l)
Accepted == TLCGet(1) = Len(TraceLog) + 1
=============================================================================
