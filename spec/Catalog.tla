------------------------------ MODULE Catalog ------------------------------
(* C43.  information_schema and SHOW reflect the catalog.

   State: the catalog of ONE database --
     tbl    [table name -> [cols : Seq([name, ty, nn]), pk : Seq(col name),
                            idx : set of [name, cols : Seq(col name), uniq],
                            fks : set of [name, col, rt, rcol, ondel],
                            chk : set of [name, col]]]          (check ck: `col > 0`)
     views  set of [name, t, col]          (CREATE VIEW name AS SELECT col FROM t)
     trigs  set of [name, t, timing, event]
     procs  set of names
   Actions = DDL statements, each with its MySQL precondition (violated => the statement fails and
   the catalog is UNCHANGED).  Interplays MySQL itself treats specially or that other properties
   own (dropping a column a foreign key / check / view uses, renaming a table that has triggers,
   implicit NOT NULL of primary-key columns, ...) are not generated: `Crisp(a)` says for which
   statements the specification commits to an outcome.

   InfoRows(which) = the identity columns information_schema / SHOW must list for the current
   catalog (sets of tuples of strings, names as written: the harness lower-cases both sides).

   The SQL text of every statement is built here (Sql(a)), the harness only executes it. *)
EXTENDS Integers, Sequences, FiniteSets, TLC, Json

CONSTANTS TableNames, ColNames, IdxNames, FkNames, CkNames, ViewNames, TrigNames, ProcNames,
          MaxCols, MaxSteps

Types == {"int", "bigint", "varchar(16)", "decimal(10,2)"}
IntLike(ty) == ty \in {"int", "bigint"}

VARIABLES tbl, views, trigs, procs, act, ret, step
cat == <<tbl, views, trigs, procs>>
vars == <<tbl, views, trigs, procs, act, ret, step>>

\* ---------------------------------------------------------------- helpers
Range(s) == {s[i] : i \in DOMAIN s}
Exists(t) == t \in DOMAIN tbl
Cols(t) == tbl[t].cols
ColNamesOf(t) == {Cols(t)[i].name : i \in DOMAIN Cols(t)}
ColPos(t, c) == CHOOSE i \in DOMAIN Cols(t) : Cols(t)[i].name = c
ColOf(t, c) == Cols(t)[ColPos(t, c)]
RECURSIVE SeqFilter(_, _)
SeqFilter(s, keep) == IF s = <<>> THEN <<>>
                      ELSE IF Head(s) \in keep THEN <<Head(s)>> \o SeqFilter(Tail(s), keep) ELSE SeqFilter(Tail(s), keep)
RECURSIVE ColsWithout(_, _)
ColsWithout(s, c) == IF s = <<>> THEN <<>>
                     ELSE IF Head(s).name = c THEN ColsWithout(Tail(s), c) ELSE <<Head(s)>> \o ColsWithout(Tail(s), c)
SeqMap(s, from, to) == [i \in DOMAIN s |-> IF s[i] = from THEN to ELSE s[i]]
InsertAt(s, i, x) == SubSeq(s, 1, i - 1) \o <<x>> \o SubSeq(s, i, Len(s))     \* x becomes element i
RECURSIVE Join(_, _)
Join(s, sep) == IF s = <<>> THEN "" ELSE IF Len(s) = 1 THEN s[1] ELSE s[1] \o sep \o Join(Tail(s), sep)

AllFKs == UNION {{[t |-> t, fk |-> f] : f \in tbl[t].fks} : t \in DOMAIN tbl}
AllFkNames == {x.fk.name : x \in AllFKs}
AllCkNames == UNION {{k.name : k \in tbl[t].chk} : t \in DOMAIN tbl}
IdxNamesOf(t) == {i.name : i \in tbl[t].idx}
ChildFK(t, c) == \E f \in tbl[t].fks : f.col = c
ParentFK(t, c) == \E x \in AllFKs : x.fk.rt = t /\ x.fk.rcol = c
UsedByFK(t, c) == ChildFK(t, c) \/ ParentFK(t, c)
IsParent(t) == \E x \in AllFKs : x.fk.rt = t
InAnyFK(t) == tbl[t].fks # {} \/ IsParent(t)
UsedByCheck(t, c) == \E k \in tbl[t].chk : k.col = c
UsedByView(t, c) == \E v \in views : v.t = t /\ v.col = c
TableHasView(t) == \E v \in views : v.t = t
TableHasTrig(t) == \E g \in trigs : g.t = t
\* an index usable for a foreign key on column c: c is its first column (the primary key counts)
HasLeadingIndex(t, c) == (tbl[t].pk # <<>> /\ tbl[t].pk[1] = c) \/ \E i \in tbl[t].idx : i.cols[1] = c

\* ---------------------------------------------------------------- table templates
C(n, ty, nn) == [name |-> n, ty |-> ty, nn |-> nn]
Tpl(k) == CASE k = 1 -> [cols |-> <<C("a", "int", TRUE), C("b", "varchar(16)", FALSE)>>, pk |-> <<"a">>]
            [] k = 2 -> [cols |-> <<C("a", "int", TRUE), C("b", "int", FALSE), C("c", "decimal(10,2)", FALSE)>>, pk |-> <<>>]
            [] OTHER -> [cols |-> <<C("a", "bigint", TRUE), C("b", "int", TRUE)>>, pk |-> <<"a", "b">>]
NewTable(k) == [cols |-> Tpl(k).cols, pk |-> Tpl(k).pk, idx |-> {}, fks |-> {}, chk |-> {}]

\* ---------------------------------------------------------------- SQL text
ColDef(c) == c.name \o " " \o c.ty \o (IF c.nn THEN " NOT NULL" ELSE " NULL")
ColDefs(cs) == Join([i \in DOMAIN cs |-> ColDef(cs[i])], ", ")
Sql(a) ==
  CASE a.op = "CreateTable" ->
         "CREATE TABLE " \o a.t \o " (" \o ColDefs(Tpl(a.k).cols)
           \o (IF Tpl(a.k).pk = <<>> THEN "" ELSE ", PRIMARY KEY (" \o Join(Tpl(a.k).pk, ", ") \o ")") \o ")"
    [] a.op = "DropTable" -> "DROP TABLE " \o a.t
    [] a.op = "RenameTable" -> "RENAME TABLE " \o a.t \o " TO " \o a.t2
    [] a.op = "AddColumn" ->
         "ALTER TABLE " \o a.t \o " ADD COLUMN " \o a.c \o " " \o a.ty \o " NULL"
           \o (CASE a.pos = "first" -> " FIRST" [] a.pos = "after" -> " AFTER " \o a.after [] OTHER -> "")
    [] a.op = "DropColumn" -> "ALTER TABLE " \o a.t \o " DROP COLUMN " \o a.c
    [] a.op = "ModifyColumn" -> "ALTER TABLE " \o a.t \o " MODIFY COLUMN " \o a.c \o " " \o a.ty \o (IF a.nn THEN " NOT NULL" ELSE " NULL")
    [] a.op = "RenameColumn" -> "ALTER TABLE " \o a.t \o " RENAME COLUMN " \o a.c \o " TO " \o a.c2
    [] a.op = "AddIndex" -> "CREATE " \o (IF a.uniq THEN "UNIQUE " ELSE "") \o "INDEX " \o a.name \o " ON " \o a.t \o " (" \o Join(a.cols, ", ") \o ")"
    [] a.op = "DropIndex" -> "DROP INDEX " \o a.name \o " ON " \o a.t
    [] a.op = "AddPrimaryKey" -> "ALTER TABLE " \o a.t \o " ADD PRIMARY KEY (" \o Join(a.cols, ", ") \o ")"
    [] a.op = "DropPrimaryKey" -> "ALTER TABLE " \o a.t \o " DROP PRIMARY KEY"
    [] a.op = "AddForeignKey" ->
         "ALTER TABLE " \o a.t \o " ADD CONSTRAINT " \o a.name \o " FOREIGN KEY (" \o a.c \o ") REFERENCES " \o a.rt \o " (" \o a.rc \o ")"
           \o (IF a.ondel = "" THEN "" ELSE " ON DELETE " \o a.ondel)
    [] a.op = "DropForeignKey" -> "ALTER TABLE " \o a.t \o " DROP FOREIGN KEY " \o a.name
    [] a.op = "AddCheck" -> "ALTER TABLE " \o a.t \o " ADD CONSTRAINT " \o a.name \o " CHECK (" \o a.c \o " > 0)"
    [] a.op = "DropCheck" -> "ALTER TABLE " \o a.t \o " DROP CHECK " \o a.name
    [] a.op = "CreateView" -> "CREATE VIEW " \o a.name \o " AS SELECT " \o a.c \o " FROM " \o a.t
    [] a.op = "DropView" -> "DROP VIEW " \o a.name
    [] a.op = "CreateTrigger" -> "CREATE TRIGGER " \o a.name \o " " \o a.timing \o " " \o a.event \o " ON " \o a.t \o " FOR EACH ROW SET @verif = 1"
    [] a.op = "DropTrigger" -> "DROP TRIGGER " \o a.name
    [] a.op = "CreateProcedure" -> "CREATE PROCEDURE " \o a.name \o "() SELECT 1"
    [] OTHER -> "DROP PROCEDURE " \o a.name

\* ---------------------------------------------------------------- preconditions (the statement succeeds)
Pre(a) ==
  CASE a.op = "CreateTable" -> ~Exists(a.t)
    [] a.op = "DropTable" -> Exists(a.t) /\ ~IsParent(a.t)
    [] a.op = "RenameTable" -> Exists(a.t) /\ ~Exists(a.t2)
    [] a.op = "AddColumn" -> Exists(a.t) /\ a.c \notin ColNamesOf(a.t) /\ (a.pos = "after" => a.after \in ColNamesOf(a.t))
    [] a.op = "DropColumn" -> Exists(a.t) /\ a.c \in ColNamesOf(a.t) /\ Len(Cols(a.t)) > 1
    [] a.op = "ModifyColumn" -> Exists(a.t) /\ a.c \in ColNamesOf(a.t)
    [] a.op = "RenameColumn" -> Exists(a.t) /\ a.c \in ColNamesOf(a.t) /\ a.c2 \notin ColNamesOf(a.t)
    [] a.op = "AddIndex" -> Exists(a.t) /\ a.name \notin IdxNamesOf(a.t) /\ Range(a.cols) \subseteq ColNamesOf(a.t)
    [] a.op = "DropIndex" -> Exists(a.t) /\ a.name \in IdxNamesOf(a.t)
    [] a.op = "AddPrimaryKey" -> Exists(a.t) /\ tbl[a.t].pk = <<>> /\ Range(a.cols) \subseteq ColNamesOf(a.t)
    [] a.op = "DropPrimaryKey" -> Exists(a.t) /\ tbl[a.t].pk # <<>>
    [] a.op = "AddForeignKey" ->
         /\ Exists(a.t) /\ Exists(a.rt) /\ a.name \notin AllFkNames
         /\ a.c \in ColNamesOf(a.t) /\ a.rc \in ColNamesOf(a.rt)
    [] a.op = "DropForeignKey" -> Exists(a.t) /\ \E f \in tbl[a.t].fks : f.name = a.name
    [] a.op = "AddCheck" -> Exists(a.t) /\ a.c \in ColNamesOf(a.t) /\ a.name \notin AllCkNames
    [] a.op = "DropCheck" -> Exists(a.t) /\ \E k \in tbl[a.t].chk : k.name = a.name
    [] a.op = "CreateView" -> (\A v \in views : v.name # a.name) /\ Exists(a.t) /\ a.c \in ColNamesOf(a.t)
    [] a.op = "DropView" -> \E v \in views : v.name = a.name
    [] a.op = "CreateTrigger" -> (\A g \in trigs : g.name # a.name) /\ Exists(a.t)
    [] a.op = "DropTrigger" -> \E g \in trigs : g.name = a.name
    [] a.op = "CreateProcedure" -> a.name \notin procs
    [] OTHER -> a.name \in procs

\* ---------------------------------------------------------------- crispness (the specification commits to an outcome)
Crisp(a) ==
  CASE a.op = "DropTable" -> Exists(a.t) => ~TableHasView(a.t)
    [] a.op = "RenameTable" -> Exists(a.t) => (~TableHasView(a.t) /\ ~TableHasTrig(a.t))
    [] a.op = "AddColumn" -> Exists(a.t) => Len(Cols(a.t)) < MaxCols
    [] a.op = "DropColumn" -> (Exists(a.t) /\ a.c \in ColNamesOf(a.t)) =>
                                (~UsedByFK(a.t, a.c) /\ ~UsedByCheck(a.t, a.c) /\ ~UsedByView(a.t, a.c))
    [] a.op = "ModifyColumn" -> (Exists(a.t) /\ a.c \in ColNamesOf(a.t)) =>
                                  /\ ~UsedByFK(a.t, a.c) /\ ~UsedByCheck(a.t, a.c) /\ ~UsedByView(a.t, a.c)
                                  /\ (a.c \in Range(tbl[a.t].pk) => a.nn)
    [] a.op = "RenameColumn" -> (Exists(a.t) /\ a.c \in ColNamesOf(a.t)) =>
                                  (~UsedByFK(a.t, a.c) /\ ~UsedByCheck(a.t, a.c) /\ ~UsedByView(a.t, a.c))
    [] a.op = "DropIndex" -> Exists(a.t) => ~InAnyFK(a.t)
    [] a.op = "AddPrimaryKey" -> (Exists(a.t) /\ Range(a.cols) \subseteq ColNamesOf(a.t)) => \A c \in Range(a.cols) : ColOf(a.t, c).nn
    [] a.op = "DropPrimaryKey" -> Exists(a.t) => ~InAnyFK(a.t)      \* the key may be the index a foreign key needs
    [] a.op = "AddForeignKey" ->
         (Exists(a.t) /\ Exists(a.rt) /\ a.c \in ColNamesOf(a.t) /\ a.rc \in ColNamesOf(a.rt)) =>
           /\ a.t # a.rt
           /\ ColOf(a.t, a.c).ty = ColOf(a.rt, a.rc).ty
           /\ HasLeadingIndex(a.rt, a.rc)
           /\ (a.ondel = "SET NULL" => ~ColOf(a.t, a.c).nn)
    [] a.op = "AddCheck" -> (Exists(a.t) /\ a.c \in ColNamesOf(a.t)) => IntLike(ColOf(a.t, a.c).ty)
    [] OTHER -> TRUE

\* ---------------------------------------------------------------- effects
WithTable(t, r) == [tbl EXCEPT ![t] = r]
DropKey(f, k) == [x \in (DOMAIN f) \ {k} |-> f[x]]
AddKey(f, k, v) == [x \in (DOMAIN f) \cup {k} |-> IF x = k THEN v ELSE f[x]]

IdxDropCol(ix, c) == {i2 \in {[i EXCEPT !.cols = SeqFilter(i.cols, Range(i.cols) \ {c})] : i \in ix} : i2.cols # <<>>}
IdxRenameCol(ix, c, c2) == {[i EXCEPT !.cols = SeqMap(i.cols, c, c2)] : i \in ix}

Eff(a) ==        \* <<tbl', views', trigs', procs'>>
  CASE a.op = "CreateTable" -> <<AddKey(tbl, a.t, NewTable(a.k)), views, trigs, procs>>
    [] a.op = "DropTable" -> <<DropKey(tbl, a.t), views, {g \in trigs : g.t # a.t}, procs>>
    [] a.op = "RenameTable" ->
         LET moved == AddKey(DropKey(tbl, a.t), a.t2, tbl[a.t])
         IN <<[x \in DOMAIN moved |-> [moved[x] EXCEPT !.fks = {IF f.rt = a.t THEN [f EXCEPT !.rt = a.t2] ELSE f : f \in moved[x].fks}]],
              views, trigs, procs>>
    [] a.op = "AddColumn" ->
         LET c == C(a.c, a.ty, FALSE)
             at == CASE a.pos = "first" -> 1 [] a.pos = "after" -> ColPos(a.t, a.after) + 1 [] OTHER -> Len(Cols(a.t)) + 1
         IN <<WithTable(a.t, [tbl[a.t] EXCEPT !.cols = InsertAt(@, at, c)]), views, trigs, procs>>
    [] a.op = "DropColumn" ->
         <<WithTable(a.t, [tbl[a.t] EXCEPT !.cols = ColsWithout(@, a.c),
                                           !.pk = SeqFilter(@, Range(@) \ {a.c}),
                                           !.idx = IdxDropCol(@, a.c)]), views, trigs, procs>>
    [] a.op = "ModifyColumn" ->
         <<WithTable(a.t, [tbl[a.t] EXCEPT !.cols[ColPos(a.t, a.c)] = C(a.c, a.ty, a.nn)]), views, trigs, procs>>
    [] a.op = "RenameColumn" ->
         <<WithTable(a.t, [tbl[a.t] EXCEPT !.cols[ColPos(a.t, a.c)].name = a.c2,
                                           !.pk = SeqMap(@, a.c, a.c2),
                                           !.idx = IdxRenameCol(@, a.c, a.c2)]), views, trigs, procs>>
    [] a.op = "AddIndex" ->
         <<WithTable(a.t, [tbl[a.t] EXCEPT !.idx = @ \cup {[name |-> a.name, cols |-> a.cols, uniq |-> a.uniq]}]), views, trigs, procs>>
    [] a.op = "DropIndex" -> <<WithTable(a.t, [tbl[a.t] EXCEPT !.idx = {i \in @ : i.name # a.name}]), views, trigs, procs>>
    [] a.op = "AddPrimaryKey" -> <<WithTable(a.t, [tbl[a.t] EXCEPT !.pk = a.cols]), views, trigs, procs>>
    [] a.op = "DropPrimaryKey" -> <<WithTable(a.t, [tbl[a.t] EXCEPT !.pk = <<>>]), views, trigs, procs>>
    [] a.op = "AddForeignKey" ->
         \* MySQL creates an index named after the constraint when the child column has no leading index
         LET ix == IF HasLeadingIndex(a.t, a.c) THEN tbl[a.t].idx
                   ELSE tbl[a.t].idx \cup {[name |-> a.name, cols |-> <<a.c>>, uniq |-> FALSE]}
         IN <<WithTable(a.t, [tbl[a.t] EXCEPT !.fks = @ \cup {[name |-> a.name, col |-> a.c, rt |-> a.rt, rcol |-> a.rc, ondel |-> a.ondel]},
                                              !.idx = ix]), views, trigs, procs>>
    [] a.op = "DropForeignKey" -> <<WithTable(a.t, [tbl[a.t] EXCEPT !.fks = {f \in @ : f.name # a.name}]), views, trigs, procs>>
    [] a.op = "AddCheck" -> <<WithTable(a.t, [tbl[a.t] EXCEPT !.chk = @ \cup {[name |-> a.name, col |-> a.c]}]), views, trigs, procs>>
    [] a.op = "DropCheck" -> <<WithTable(a.t, [tbl[a.t] EXCEPT !.chk = {k \in @ : k.name # a.name}]), views, trigs, procs>>
    [] a.op = "CreateView" -> <<tbl, views \cup {[name |-> a.name, t |-> a.t, col |-> a.c]}, trigs, procs>>
    [] a.op = "DropView" -> <<tbl, {v \in views : v.name # a.name}, trigs, procs>>
    [] a.op = "CreateTrigger" -> <<tbl, views, trigs \cup {[name |-> a.name, t |-> a.t, timing |-> a.timing, event |-> a.event]}, procs>>
    [] a.op = "DropTrigger" -> <<tbl, views, {g \in trigs : g.name # a.name}, procs>>
    [] a.op = "CreateProcedure" -> <<tbl, views, trigs, procs \cup {a.name}>>
    [] OTHER -> <<tbl, views, trigs, procs \ {a.name}>>

\* ---------------------------------------------------------------- candidate statements
Distinct2(S) == {p \in S \X S : p[1] # p[2]}
Pairs(S) == {<<x>> : x \in S} \cup Distinct2(S)
CandOf(op) ==
  LET T == TableNames
      E == DOMAIN tbl
  IN CASE op = "CreateTable" ->
         {[op |-> "CreateTable", t |-> t, k |-> k] : t \in T, k \in 1..3}
      [] op = "DropTable" ->
         {[op |-> "DropTable", t |-> t] : t \in T}
      [] op = "RenameTable" ->
         {[op |-> "RenameTable", t |-> p[1], t2 |-> p[2]] : p \in Distinct2(T)}
      [] op = "AddColumn" ->
         {[op |-> "AddColumn", t |-> t, c |-> c, ty |-> ty, pos |-> p, after |-> IF p = "after" THEN x ELSE ""] :
          t \in E, c \in ColNames, ty \in Types, p \in {"last", "first", "after"}, x \in {"a", "b"}}
      [] op = "DropColumn" ->
         {[op |-> "DropColumn", t |-> t, c |-> c] : t \in T, c \in ColNames}
      [] op = "ModifyColumn" ->
         {[op |-> "ModifyColumn", t |-> t, c |-> c, ty |-> ty, nn |-> nn] : t \in E, c \in ColNames, ty \in Types, nn \in BOOLEAN}
      [] op = "RenameColumn" ->
         {[op |-> "RenameColumn", t |-> t, c |-> p[1], c2 |-> p[2]] : t \in E, p \in Distinct2(ColNames)}
      [] op = "AddIndex" ->
         {[op |-> "AddIndex", t |-> t, name |-> n, cols |-> cs, uniq |-> u] : t \in E, n \in IdxNames, cs \in Pairs(ColNames), u \in BOOLEAN}
      [] op = "DropIndex" ->
         {[op |-> "DropIndex", t |-> t, name |-> n] : t \in T, n \in IdxNames \cup FkNames}
      [] op = "AddPrimaryKey" ->
         {[op |-> "AddPrimaryKey", t |-> t, cols |-> cs] : t \in E, cs \in Pairs(ColNames)}
      [] op = "DropPrimaryKey" ->
         {[op |-> "DropPrimaryKey", t |-> t] : t \in T}
      [] op = "AddForeignKey" ->
         {[op |-> "AddForeignKey", t |-> t, name |-> n, c |-> c, rt |-> rt, rc |-> rc, ondel |-> od] :
          t \in E, n \in FkNames, c \in ColNames, rt \in E, rc \in ColNames, od \in {"", "CASCADE", "SET NULL"}}
      [] op = "DropForeignKey" ->
         {[op |-> "DropForeignKey", t |-> t, name |-> n] : t \in E, n \in FkNames}
      [] op = "AddCheck" ->
         {[op |-> "AddCheck", t |-> t, name |-> n, c |-> c] : t \in E, n \in CkNames, c \in ColNames}
      [] op = "DropCheck" ->
         {[op |-> "DropCheck", t |-> t, name |-> n] : t \in E, n \in CkNames}
      [] op = "CreateView" ->
         {[op |-> "CreateView", name |-> n, t |-> t, c |-> c] : n \in ViewNames, t \in T, c \in {"a", "b"}}
      [] op = "DropView" ->
         {[op |-> "DropView", name |-> n] : n \in ViewNames}
      [] op = "CreateTrigger" ->
         {[op |-> "CreateTrigger", name |-> n, t |-> t, timing |-> tm, event |-> ev] :
          n \in TrigNames, t \in T, tm \in {"BEFORE", "AFTER"}, ev \in {"INSERT", "UPDATE", "DELETE"}}
      [] op = "DropTrigger" ->
         {[op |-> "DropTrigger", name |-> n] : n \in TrigNames}
      [] op = "CreateProcedure" ->
         {[op |-> "CreateProcedure", name |-> n] : n \in ProcNames}
      [] op = "DropProcedure" ->
         {[op |-> "DropProcedure", name |-> n] : n \in ProcNames}

Ops == {"CreateTable", "DropTable", "RenameTable", "AddColumn", "DropColumn", "ModifyColumn", "RenameColumn", "AddIndex", "DropIndex",
        "AddPrimaryKey", "DropPrimaryKey", "AddForeignKey", "DropForeignKey", "AddCheck", "DropCheck", "CreateView", "DropView",
        "CreateTrigger", "DropTrigger", "CreateProcedure", "DropProcedure"}
Cand == UNION {CandOf(op) : op \in Ops}

CrispCand == {a \in Cand : Crisp(a)}

Init == tbl = <<>> /\ views = {} /\ trigs = {} /\ procs = {} /\ act = [op |-> "init"] /\ ret = "none" /\ step = 0

Apply(a) ==
  /\ act' = a /\ step' = step + 1
  /\ IF Pre(a)
     THEN ret' = "ok" /\ tbl' = Eff(a)[1] /\ views' = Eff(a)[2] /\ trigs' = Eff(a)[3] /\ procs' = Eff(a)[4]
     ELSE ret' = "fail" /\ UNCHANGED <<tbl, views, trigs, procs>>

Next == step < MaxSteps /\ \E a \in CrispCand : Apply(a)

\* one random behaviour per simulation run (a single successor, so that the Emit'd records ARE the
\* behaviour): successful statements are preferred 3 : 1 over failing ones
\* (every random draw is bound by \E over a singleton so that it is evaluated exactly once)
Pool(op, k) ==
  LET c1 == {a \in CandOf(op) : Crisp(a)}
      c == IF c1 = {} THEN CrispCand ELSE c1
      okc == {a \in c : Pre(a)}
  IN IF k = 1 \/ okc = {} THEN c ELSE okc
NextRandom ==
  /\ step < MaxSteps
  /\ \E op \in {RandomElement(Ops)} : \E k \in {RandomElement(1..4)} :    \* the statement kind first, then its parameters
       \E a \in {RandomElement(Pool(op, k))} : Apply(a)

Spec == Init /\ [][Next]_vars
View == cat

\* ---------------------------------------------------------------- catalog invariants (model-checked)
TypeOK == \A t \in DOMAIN tbl : Len(Cols(t)) >= 1 /\ Len(Cols(t)) <= MaxCols + 1
ColumnNamesUnique == \A t \in DOMAIN tbl : \A i, j \in DOMAIN Cols(t) : Cols(t)[i].name = Cols(t)[j].name => i = j
\* an index / primary key never references a dropped column and never is empty
IndexColsExist == \A t \in DOMAIN tbl :
                    /\ Range(tbl[t].pk) \subseteq ColNamesOf(t)
                    /\ \A i \in tbl[t].idx : i.cols # <<>> /\ Range(i.cols) \subseteq ColNamesOf(t)
PKNotNull == \A t \in DOMAIN tbl : \A c \in Range(tbl[t].pk) : ColOf(t, c).nn
\* foreign keys reference existing objects of equal type
FKRefsExist == \A x \in AllFKs :
                 /\ x.fk.col \in ColNamesOf(x.t) /\ Exists(x.fk.rt) /\ x.fk.rcol \in ColNamesOf(x.fk.rt)
                 /\ ColOf(x.t, x.fk.col).ty = ColOf(x.fk.rt, x.fk.rcol).ty
                 /\ HasLeadingIndex(x.t, x.fk.col) /\ HasLeadingIndex(x.fk.rt, x.fk.rcol)
ConstraintNamesUnique == /\ \A x, y \in AllFKs : x.fk.name = y.fk.name => x = y
                         /\ \A t1, t2 \in DOMAIN tbl : \A k1 \in tbl[t1].chk, k2 \in tbl[t2].chk : k1.name = k2.name => (t1 = t2 /\ k1 = k2)
ChecksOnExistingCols == \A t \in DOMAIN tbl : \A k \in tbl[t].chk : k.col \in ColNamesOf(t)
DependentsExist == /\ \A v \in views : Exists(v.t) /\ v.col \in ColNamesOf(v.t)
                   /\ \A g \in trigs : Exists(g.t)
FailedHasNoEffect == [][ret' = "fail" => UNCHANGED cat]_vars

\* ---------------------------------------------------------------- what information_schema / SHOW must list
S(i) == ToString(i)
YN(b) == IF b THEN "YES" ELSE "NO"
\* the PRIMARY/UNIQUE/MUL class of a column (MySQL SHOW COLUMNS rules); "*" where MySQL promotes a
\* NOT NULL unique index of a table without primary key to PRI (left unjudged)
ColKey(t, c) ==
  LET r == tbl[t]
      promoted == r.pk = <<>> /\ \E i \in r.idx : i.uniq /\ \A x \in Range(i.cols) : ColOf(t, x).nn
  IN IF promoted THEN "*"
     ELSE IF c \in Range(r.pk) THEN "PRI"
     ELSE IF \E i \in r.idx : i.uniq /\ i.cols = <<c>> THEN "UNI"
     ELSE IF \E i \in r.idx : i.cols[1] = c THEN "MUL"
     ELSE ""
Rule(od) == IF od = "" THEN "NO ACTION" ELSE od

InfoRows(which) ==
  LET E == DOMAIN tbl IN
  CASE which = "TABLES" -> {<<t, "BASE TABLE">> : t \in E} \cup {<<v.name, "VIEW">> : v \in views}
    [] which = "COLUMNS" ->
         UNION {{<<t, Cols(t)[i].name, S(i), YN(~Cols(t)[i].nn), Cols(t)[i].ty, ColKey(t, Cols(t)[i].name)>> : i \in DOMAIN Cols(t)} : t \in E}
    [] which = "STATISTICS" ->
         UNION {{<<t, "PRIMARY", S(i), tbl[t].pk[i], "0">> : i \in DOMAIN tbl[t].pk}
                \cup UNION {{<<t, ix.name, S(i), ix.cols[i], IF ix.uniq THEN "0" ELSE "1">> : i \in DOMAIN ix.cols} : ix \in tbl[t].idx} : t \in E}
    [] which = "KEY_COLUMN_USAGE" ->
         UNION {{<<"PRIMARY", t, tbl[t].pk[i], S(i), "", "">> : i \in DOMAIN tbl[t].pk}
                \cup UNION {{<<ix.name, t, ix.cols[i], S(i), "", "">> : i \in DOMAIN ix.cols} : ix \in {x \in tbl[t].idx : x.uniq}}
                \cup {<<f.name, t, f.col, "1", f.rt, f.rcol>> : f \in tbl[t].fks} : t \in E}
    [] which = "TABLE_CONSTRAINTS" ->
         UNION {(IF tbl[t].pk = <<>> THEN {} ELSE {<<"PRIMARY", t, "PRIMARY KEY">>})
                \cup {<<ix.name, t, "UNIQUE">> : ix \in {x \in tbl[t].idx : x.uniq}}
                \cup {<<f.name, t, "FOREIGN KEY">> : f \in tbl[t].fks}
                \cup {<<k.name, t, "CHECK">> : k \in tbl[t].chk} : t \in E}
    [] which = "REFERENTIAL_CONSTRAINTS" -> UNION {{<<f.name, t, f.rt, "NO ACTION", Rule(f.ondel)>> : f \in tbl[t].fks} : t \in E}
    [] which = "CHECK_CONSTRAINTS" -> UNION {{<<k.name, k.col \o ">0">> : k \in tbl[t].chk} : t \in E}
    [] which = "TRIGGERS" -> {<<g.name, g.event, g.t, g.timing>> : g \in trigs}
    [] which = "ROUTINES" -> {<<p, "PROCEDURE">> : p \in procs}
    [] which = "VIEWS" -> {<<v.name>> : v \in views}
    [] which = "SHOW_TABLES" -> {<<t>> : t \in E} \cup {<<v.name>> : v \in views}
    [] which = "SHOW_FULL_TABLES" -> {<<t, "BASE TABLE">> : t \in E} \cup {<<v.name, "VIEW">> : v \in views}
    [] which = "SHOW_COLUMNS" ->       \* SHOW COLUMNS FROM t for every base table: table, position, Field, Type, Null, Key
         UNION {{<<t, S(i), Cols(t)[i].name, Cols(t)[i].ty, YN(~Cols(t)[i].nn), ColKey(t, Cols(t)[i].name)>> : i \in DOMAIN Cols(t)} : t \in E}
    [] which = "SHOW_INDEX" ->         \* SHOW INDEX FROM t: Table, Non_unique, Key_name, Seq_in_index, Column_name
         UNION {{<<t, "0", "PRIMARY", S(i), tbl[t].pk[i]>> : i \in DOMAIN tbl[t].pk}
                \cup UNION {{<<t, IF ix.uniq THEN "0" ELSE "1", ix.name, S(i), ix.cols[i]>> : i \in DOMAIN ix.cols} : ix \in tbl[t].idx} : t \in E}
    [] OTHER -> {<<g.name, g.event, g.t, g.timing>> : g \in trigs}      \* SHOW_TRIGGERS

Whiches == {"TABLES", "COLUMNS", "STATISTICS", "KEY_COLUMN_USAGE", "TABLE_CONSTRAINTS", "REFERENTIAL_CONSTRAINTS",
            "CHECK_CONSTRAINTS", "TRIGGERS", "ROUTINES", "VIEWS", "SHOW_TABLES", "SHOW_FULL_TABLES", "SHOW_COLUMNS",
            "SHOW_INDEX", "SHOW_TRIGGERS"}

\* ---------------------------------------------------------------- behaviour dump (binding A); primes: post-state
Emit == PrintT("TR " \o ToJson([step |-> step', op |-> act'.op, sql |-> Sql(act'), ret |-> ret',
                                  exp |-> [w \in Whiches |-> InfoRows(w)']]))
=============================================================================
