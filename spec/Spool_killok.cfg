\* C35: external cancel at any step, the strict property: a successful return delivered everything.
CONSTANTS
  BatchSize = 2
  RowCap = 2
  ResCap = 1
  MaxRows = 5
  Kills = TRUE
  Timeouts = FALSE
  CtxAwareIter = FALSE
  Faults = FALSE
INIT Init
NEXT Next
INVARIANTS OkComplete
CHECK_DEADLOCK TRUE
