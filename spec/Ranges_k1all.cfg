\* quick + thorough: one column, every pair of cuts (also degenerate ones), all lists of <= 2
CONSTANTS
  NV = 3
  K = 1
  MaxLen = 2
  Class = "all"
  MaxTree = 0
  MinRem = 1
INIT InitEnum
NEXT NextEnum
VIEW ViewEnum
INVARIANTS TypeEnum DenseAgree FastAgree
ACTION_CONSTRAINT EmitEnum
CHECK_DEADLOCK FALSE
