INIT Init
NEXT Next
CONSTANTS
  Preset = "auto"
  K = {0, 1}
  MaxRows = 4
  MaxVal = 7
  Modes2 = {"plain", "ignore", "replace", "odku"}
  MaxId = 7
VIEW View
CONSTRAINT Bounded
INVARIANTS InvPKUnique InvUniqueIdx InvNotNull InvChecks InvGenerated InvAutoCovers
PROPERTIES AutoIncMonotone FailedStmtNoEffect
CHECK_DEADLOCK FALSE
