INIT Init
NEXT Next
CONSTANTS
  Preset = "auto"
  K = {0, 1}
  MaxRows = 3
  MaxVal = 6
  Modes2 = {"plain", "ignore", "replace", "odku"}
  MaxId = 6
VIEW View
CONSTRAINT Bounded
INVARIANTS InvPKUnique InvUniqueIdx InvNotNull InvChecks InvGenerated InvAutoCovers
PROPERTIES AutoIncMonotone FailedStmtNoEffect
CHECK_DEADLOCK FALSE
