------------------------------ MODULE FullText ------------------------------
(* C51.  Natural-language full-text search, as the default parser defines words.

   Documents, queries and words are sequences of code points (ASCII in everything generated).
   Character classes: letters, digits and '_' are WORD characters, the apostrophe is its own class,
   everything else separates.  The tokenizer is the three-state machine of
   sql/fulltext/default_parser.go (and of MySQL's built-in parser: true_word_char + misc_word_char):
     Sep   : a word character starts a word; anything else is skipped
     Word  : a word character extends the word; an apostrophe is kept provisionally (-> Apos);
             anything else ends the word
     Apos  : a word character confirms the apostrophe (-> Word); anything else (a second apostrophe
             too) ends the word, whose trailing apostrophe is dropped
   A finished word is kept when it has at least MinLen (3) and at most MaxWordLen (84) characters
   (= bytes, ASCII): shorter words are dropped by the parser, longer words are not stored in the index
   (innodb_ft_min_token_size / innodb_ft_max_token_size; a word of exactly 84 characters IS indexed),
   so neither can ever match.
   Several columns are one document: the non-NULL column values joined by a space.

   Collation: "ci" folds ASCII letters (utf8mb4_0900_ai_ci restricted to ASCII letters, digits,
   '_' and apostrophe, which all have distinct primary weights), "bin" compares code points.

   Match(doc, query) == the document and the query share a word.  This is what natural-language
   mode documents for InnoDB (no 50 % threshold); stopwords are outside the model: nothing
   generated is on MySQL's stopword list and the engine has none.  The full-text index has NO
   abstract state: MATCH over a table is the filter Match over its current rows. *)
EXTENDS Integers, Sequences, FiniteSets, TLC, SequencesExt

MinLen == 3
MaxWordLen == 84
Apo == 39
Space == 32

IsWordChar(c) == (c >= 48 /\ c <= 57) \/ (c >= 65 /\ c <= 90) \/ (c >= 97 /\ c <= 122) \/ c = 95

RECURSIVE TrimRight(_)
TrimRight(w) == IF w # <<>> /\ w[Len(w)] = Apo THEN TrimRight(SubSeq(w, 1, Len(w) - 1)) ELSE w
RECURSIVE TrimLeft(_)
TrimLeft(w) == IF w # <<>> /\ w[1] = Apo THEN TrimLeft(Tail(w)) ELSE w

\* finish the word under construction
Finish(cur, out) == LET w == TrimRight(TrimLeft(cur)) IN IF Len(w) >= MinLen /\ Len(w) <= MaxWordLen THEN Append(out, w) ELSE out

\* st: "sep" | "word" | "apos"
RECURSIVE Tok(_, _, _, _, _)
Tok(d, i, st, cur, out) ==
    IF i > Len(d) THEN Finish(cur, out)
    ELSE LET c == d[i] IN
         CASE st = "sep" ->
                (IF IsWordChar(c) THEN Tok(d, i + 1, "word", <<c>>, out) ELSE Tok(d, i + 1, "sep", <<>>, out))
           [] st = "word" ->
                (IF IsWordChar(c) THEN Tok(d, i + 1, "word", Append(cur, c), out)
                 ELSE IF c = Apo THEN Tok(d, i + 1, "apos", Append(cur, c), out)
                 ELSE Tok(d, i + 1, "sep", <<>>, Finish(cur, out)))
           [] OTHER ->
                (IF IsWordChar(c) THEN Tok(d, i + 1, "word", Append(cur, c), out)
                 ELSE Tok(d, i + 1, "sep", <<>>, Finish(cur, out)))

TokenizeSM(d) == Tok(d, 1, "sep", <<>>, <<>>)

\* The same tokenizer written without recursion (TLC spends ~0.1 ms per recursion level, far too much
\* for documents of several hundred characters): position k belongs to a word iff it holds a word
\* character or a CONFIRMED apostrophe (a word character on both sides); a word is a maximal run of such
\* positions.  MC_FullText checks Tokenize = TokenizeSM on every string of <= 6 characters (the rules
\* look at most one character to either side) and on the long boundary documents.
ConfirmedApo(d, k) == d[k] = Apo /\ k > 1 /\ k < Len(d) /\ IsWordChar(d[k - 1]) /\ IsWordChar(d[k + 1])
InWord(d) == {k \in 1..Len(d) : IsWordChar(d[k]) \/ ConfirmedApo(d, k)}
Tokenize(d) ==
    LET T == InWord(d)
        starts == SetToSortSeq({k \in T : (k - 1) \notin T}, <)
        ends == SetToSortSeq({k \in T : (k + 1) \notin T}, <)
        runs == [j \in DOMAIN starts |-> SubSeq(d, starts[j], ends[j])]
    IN SelectSeq(runs, LAMBDA w : Len(w) >= MinLen /\ Len(w) <= MaxWordLen)

FoldChar(c, coll) == IF coll = "ci" /\ c >= 65 /\ c <= 90 THEN c + 32 ELSE c
Fold(w, coll) == [k \in DOMAIN w |-> FoldChar(w[k], coll)]

Words(d, coll) == LET t == Tokenize(d) IN {Fold(t[k], coll) : k \in DOMAIN t}

\* two word sets match when they share a word
MatchW(dw, qw) == dw \cap qw # {}
Match(d, q, coll) == MatchW(Words(d, coll), Words(q, coll))

\* a document of several columns; a column is [n |-> is NULL, v |-> code points]
RECURSIVE JoinCols(_, _)
JoinCols(cols, i) ==
    IF i > Len(cols) THEN <<>>
    ELSE IF cols[i].n THEN JoinCols(cols, i + 1)
    ELSE (IF i > 1 THEN <<Space>> ELSE <<>>) \o cols[i].v \o JoinCols(cols, i + 1)
Doc(cols) == JoinCols(cols, 1)

\* rows: sequence of [id, cols]; the ids of the rows matching q
MatchIds(rows, q, coll) == {rows[k].id : k \in {k \in DOMAIN rows : Match(Doc(rows[k].cols), q, coll)}}
\* the same over word sets computed once per row (dw[k] = Words(Doc(rows[k].cols), coll)) and once per query
\* (this is only sharing of sub-results: MatchIdsW(rows, [k |-> Words(..)], Words(q)) = MatchIds(rows, q))
MatchIdsW(rows, dw, qw) == {rows[k].id : k \in {k \in DOMAIN rows : MatchW(dw[k], qw)}}

\* a word of n copies of character c (length-boundary vocabulary)
Rep(n, c) == [i \in 1..n |-> c]

\* ---- facts about the tokenizer (checked by TLC on MC_FullText) -----------------------------------
RECURSIVE JoinWords(_, _)
JoinWords(ws, i) == IF i > Len(ws) THEN <<>> ELSE (IF i > 1 THEN <<Space>> ELSE <<>>) \o ws[i] \o JoinWords(ws, i + 1)

WellFormedWord(w) ==
    /\ Len(w) >= MinLen /\ Len(w) <= MaxWordLen
    /\ w[1] # Apo /\ w[Len(w)] # Apo
    /\ \A k \in DOMAIN w : IsWordChar(w[k]) \/ w[k] = Apo
    /\ \A k \in 1..(Len(w) - 1) : ~(w[k] = Apo /\ w[k + 1] = Apo)

TokenizerSane(d) ==
    LET t == Tokenize(d) IN
    /\ t = TokenizeSM(d)                                                 \* both formulations agree
    /\ \A k \in DOMAIN t : WellFormedWord(t[k])
    /\ \A k \in DOMAIN t : Tokenize(t[k]) = <<t[k]>>                    \* idempotence
    /\ Tokenize(JoinWords(t, 1)) = t                                    \* words joined by spaces are the same words
    /\ \A k \in DOMAIN t : \E i \in 1..Len(d) : i + Len(t[k]) - 1 <= Len(d) /\ SubSeq(d, i, i + Len(t[k]) - 1) = t[k]   \* every word is a substring
    /\ (Match(d, d, "bin") <=> t # <<>>)
    /\ (Match(d, d, "bin") => Match(d, d, "ci"))
=============================================================================
