------------------------------ MODULE FullText ------------------------------
(* C51.  Natural-language full-text search, as the default parser defines words.

   Documents, queries and words are sequences of code points (ASCII in everything generated).
   Character classes: letters, digits and '_' are WORD characters, the apostrophe is its own class,
   everything else separates.  The tokenizer is the three-state machine of
   sql/fulltext/default_parser.go (and of MySQL's built-in parser: true_word_char + misc_word_char):
     Sep   : a word character starts a word; anything else is skipped
     Word  : a word character extends the word; an apostrophe is kept provisionally (-> Apos);
             anything else ends the word
     Apos  : a word character confirms the apostrophe (-> Word); anything else (a second apostrophe
             too) ends the word, whose trailing apostrophe is dropped
   A finished word is kept when it has at least MinLen (3) characters (= bytes, ASCII).
   Several columns are one document: the non-NULL column values joined by a space.

   Collation: "ci" folds ASCII letters (utf8mb4_0900_ai_ci restricted to ASCII letters, digits,
   '_' and apostrophe, which all have distinct primary weights), "bin" compares code points.

   Match(doc, query) == the document and the query share a word.  This is what natural-language
   mode documents for InnoDB (no 50 % threshold); stopwords are outside the model: nothing
   generated is on MySQL's stopword list and the engine has none.  The full-text index has NO
   abstract state: MATCH over a table is the filter Match over its current rows. *)
EXTENDS Integers, Sequences, FiniteSets, TLC

MinLen == 3
Apo == 39
Space == 32

IsWordChar(c) == (c >= 48 /\ c <= 57) \/ (c >= 65 /\ c <= 90) \/ (c >= 97 /\ c <= 122) \/ c = 95

RECURSIVE TrimRight(_)
TrimRight(w) == IF w # <<>> /\ w[Len(w)] = Apo THEN TrimRight(SubSeq(w, 1, Len(w) - 1)) ELSE w
RECURSIVE TrimLeft(_)
TrimLeft(w) == IF w # <<>> /\ w[1] = Apo THEN TrimLeft(Tail(w)) ELSE w

\* finish the word under construction
Finish(cur, out) == LET w == TrimRight(TrimLeft(cur)) IN IF Len(w) >= MinLen THEN Append(out, w) ELSE out

\* st: "sep" | "word" | "apos"
RECURSIVE Tok(_, _, _, _, _)
Tok(d, i, st, cur, out) ==
    IF i > Len(d) THEN Finish(cur, out)
    ELSE LET c == d[i] IN
         CASE st = "sep" ->
                (IF IsWordChar(c) THEN Tok(d, i + 1, "word", <<c>>, out) ELSE Tok(d, i + 1, "sep", <<>>, out))
           [] st = "word" ->
                (IF IsWordChar(c) THEN Tok(d, i + 1, "word", Append(cur, c), out)
                 ELSE IF c = Apo THEN Tok(d, i + 1, "apos", Append(cur, c), out)
                 ELSE Tok(d, i + 1, "sep", <<>>, Finish(cur, out)))
           [] OTHER ->
                (IF IsWordChar(c) THEN Tok(d, i + 1, "word", Append(cur, c), out)
                 ELSE Tok(d, i + 1, "sep", <<>>, Finish(cur, out)))

Tokenize(d) == Tok(d, 1, "sep", <<>>, <<>>)

FoldChar(c, coll) == IF coll = "ci" /\ c >= 65 /\ c <= 90 THEN c + 32 ELSE c
Fold(w, coll) == [k \in DOMAIN w |-> FoldChar(w[k], coll)]

Words(d, coll) == LET t == Tokenize(d) IN {Fold(t[k], coll) : k \in DOMAIN t}

Match(d, q, coll) == Words(d, coll) \cap Words(q, coll) # {}

\* a document of several columns; a column is [n |-> is NULL, v |-> code points]
RECURSIVE JoinCols(_, _)
JoinCols(cols, i) ==
    IF i > Len(cols) THEN <<>>
    ELSE IF cols[i].n THEN JoinCols(cols, i + 1)
    ELSE (IF i > 1 THEN <<Space>> ELSE <<>>) \o cols[i].v \o JoinCols(cols, i + 1)
Doc(cols) == JoinCols(cols, 1)

\* rows: sequence of [id, cols]; the ids of the rows matching q
MatchIds(rows, q, coll) == {rows[k].id : k \in {k \in DOMAIN rows : Match(Doc(rows[k].cols), q, coll)}}

\* ---- facts about the tokenizer (checked by TLC on MC_FullText) -----------------------------------
RECURSIVE JoinWords(_, _)
JoinWords(ws, i) == IF i > Len(ws) THEN <<>> ELSE (IF i > 1 THEN <<Space>> ELSE <<>>) \o ws[i] \o JoinWords(ws, i + 1)

WellFormedWord(w) ==
    /\ Len(w) >= MinLen
    /\ w[1] # Apo /\ w[Len(w)] # Apo
    /\ \A k \in DOMAIN w : IsWordChar(w[k]) \/ w[k] = Apo
    /\ \A k \in 1..(Len(w) - 1) : ~(w[k] = Apo /\ w[k + 1] = Apo)

TokenizerSane(d) ==
    LET t == Tokenize(d) IN
    /\ \A k \in DOMAIN t : WellFormedWord(t[k])
    /\ \A k \in DOMAIN t : Tokenize(t[k]) = <<t[k]>>                    \* idempotence
    /\ Tokenize(JoinWords(t, 1)) = t                                    \* words joined by spaces are the same words
    /\ \A k \in DOMAIN t : \E i \in 1..Len(d) : i + Len(t[k]) - 1 <= Len(d) /\ SubSeq(d, i, i + Len(t[k]) - 1) = t[k]   \* every word is a substring
    /\ (Match(d, d, "bin") <=> t # <<>>)
    /\ (Match(d, d, "bin") => Match(d, d, "ci"))
=============================================================================
