CONSTANTS
  LoopBound = 3
  StepFuel = 600
  XDepth = 1
  XSize = 1
  SDepth = 3
  SSize = 6
  EmitOneIn = 1
INIT SInit
NEXT SNext
INVARIANT Agree
ACTION_CONSTRAINT Emit
CHECK_DEADLOCK FALSE
