------------------------------ MODULE TotalOrder ------------------------------
(* C26.  Laws of a LOGGED comparison matrix.  M is an n x n matrix (a sequence of n sequences of
   length n) with M[i][j] = the logged result of compare(v_i, v_j): -1, 0, 1 (2 = the comparison
   reported an error).  The values themselves are opaque; only the relation is reasoned about --
   except for the families the specification interprets:
     numbers   as DecArith decimals (sign + digits + scale): the order is DCmp,
     strings   as code-point sequences: `bin` = lexicographic by code point, `aici` = the same after
               folding case and accents (interpreted alphabet: 0-9 A-Z a-z and U+00C9/U+00E9),
   for which the ORDER BY matrix of the converted values must EQUAL the specification's own order. *)
EXTENDS DecArith

Idx(M) == 1..Len(M)
WellFormed(M) == \A i \in Idx(M) : Len(M[i]) = Len(M) /\ \A j \in Idx(M) : M[i][j] \in {-1, 0, 1}
Errors(M) == {<<i, j>> \in Idx(M) \X Idx(M) : M[i][j] = 2}

Reflexive(M) == \A i \in Idx(M) : M[i][i] = 0
Antisymmetric(M) == \A i \in Idx(M), j \in Idx(M) : M[i][j] = 0 - M[j][i]
\* transitivity of <= together with its strict and equality refinements
TransBad(M) == {t \in Idx(M) \X Idx(M) \X Idx(M) :
                  /\ M[t[1]][t[2]] <= 0 /\ M[t[2]][t[3]] <= 0
                  /\ \/ M[t[1]][t[3]] > 0
                     \/ (M[t[1]][t[2]] < 0 \/ M[t[2]][t[3]] < 0) /\ M[t[1]][t[3]] = 0
                     \/ (M[t[1]][t[2]] = 0 /\ M[t[2]][t[3]] = 0) /\ M[t[1]][t[3]] # 0}
Transitive(M) == TransBad(M) = {}
\* NULL sorts before every non-NULL value, NULLs are equal to each other (what ORDER BY shows)
NullFirst(M, nulls) == \A i \in Idx(M), j \in Idx(M) :
                          /\ (i \in nulls /\ j \notin nulls) => M[i][j] = -1
                          /\ (i \in nulls /\ j \in nulls) => M[i][j] = 0
\* The engine's Type.Compare itself answers "NULL is greater" (types.CompareNulls; it is what the
\* sorter falls back to for NULLS LAST); the sorter places NULL first before it asks the type.
NullLast(M, nulls) == \A i \in Idx(M), j \in Idx(M) :
                         /\ (i \in nulls /\ j \notin nulls) => M[i][j] = 1
                         /\ (i \in nulls /\ j \in nulls) => M[i][j] = 0
\* comparing raw values = comparing the values converted to the type
Disagree(M, MC) == {<<i, j>> \in Idx(M) \X Idx(M) : M[i][j] # MC[i][j]}
AgreesWithConverted(M, MC) == Disagree(M, MC) = {}

\* ---- interpreted families ---------------------------------------------------------------------
\* an interpretation is [k |-> "null"] | [k |-> "num", n, d (digits, most significant first), s] | [k |-> "str", cps]
Sign(i) == IF i < 0 THEN -1 ELSE IF i > 0 THEN 1 ELSE 0
NumOf(x) == Dec(x.n, x.d, x.s)
RECURSIVE LexCmp(_, _)
LexCmp(p, q) == IF p = <<>> /\ q = <<>> THEN 0
                ELSE IF p = <<>> THEN -1
                ELSE IF q = <<>> THEN 1
                ELSE IF p[1] < q[1] THEN -1
                ELSE IF p[1] > q[1] THEN 1
                ELSE LexCmp(Tail(p), Tail(q))
Fold(c) == IF c \in 65..90 THEN c + 32 ELSE IF c \in {201, 233} THEN 101 ELSE c       \* A-Z -> a-z, E-acute -> e
FoldSeq(p) == [i \in DOMAIN p |-> Fold(p[i])]
Interpretable(mode, x) == x.k # "str" \/ mode = "bin" \/
                          \A i \in DOMAIN x.cps : x.cps[i] \in (48..57) \cup (65..90) \cup (97..122) \cup {201, 233}
SpecCmp(mode, x, y) ==
  IF x.k = "null" /\ y.k = "null" THEN 0
  ELSE IF x.k = "null" THEN -1
  ELSE IF y.k = "null" THEN 1
  ELSE IF x.k = "num" THEN DCmp(NumOf(x), NumOf(y))
  ELSE IF mode = "bin" THEN LexCmp(x.cps, y.cps)
  ELSE LexCmp(FoldSeq(x.cps), FoldSeq(y.cps))
\* MS: the ORDER BY comparison of the converted values (NULL first), which must be the specification's order
SpecDisagree(mode, MS, interp) ==
  {<<i, j>> \in Idx(MS) \X Idx(MS) : /\ Interpretable(mode, interp[i]) /\ Interpretable(mode, interp[j])
                                     /\ MS[i][j] # SpecCmp(mode, interp[i], interp[j])}

\* the laws a logged triple of matrices breaks (names), for the trace validator:
\*   M  = Type.Compare on raw values, MC = Type.Compare on converted values,
\*   MS = the ORDER BY comparison (sorter, ascending, default NULL placement) on converted values
Order3(M) == Reflexive(M) /\ Antisymmetric(M) /\ Transitive(M)
SorterDisagree(MC, MS, nulls) == {<<i, j>> \in Idx(MC) \X Idx(MC) : i \notin nulls /\ j \notin nulls /\ MC[i][j] # MS[i][j]}
Broken(M, MC, MS, nulls) ==
  (IF Errors(M) # {} \/ Errors(MC) # {} \/ Errors(MS) # {} THEN {"compare-error"} ELSE {})
  \cup (IF ~Reflexive(M) \/ ~Reflexive(MC) \/ ~Reflexive(MS) THEN {"reflexive"} ELSE {})
  \cup (IF ~Antisymmetric(M) \/ ~Antisymmetric(MC) \/ ~Antisymmetric(MS) THEN {"antisymmetric"} ELSE {})
  \cup (IF ~Transitive(M) \/ ~Transitive(MC) \/ ~Transitive(MS) THEN {"transitive"} ELSE {})
  \cup (IF ~NullFirst(MS, nulls) THEN {"null-first"} ELSE {})
  \cup (IF ~NullLast(M, nulls) \/ ~NullLast(MC, nulls) THEN {"null-convention"} ELSE {})
  \cup (IF ~AgreesWithConverted(M, MC) THEN {"agrees-with-converted"} ELSE {})
  \cup (IF SorterDisagree(MC, MS, nulls) # {} THEN {"sorter-agrees"} ELSE {})
=============================================================================
