CONSTANT Family = "dec"
INIT CInit
NEXT CNext
INVARIANT CasesOK
ACTION_CONSTRAINT Emit
CHECK_DEADLOCK FALSE
