INIT InitF
NEXT NextF
CONSTANTS
  Preset = "keys"
  K = {0, 1}
  MaxRows = 3
  MaxVal = 1
  Modes2 = {"plain", "ignore", "replace", "odku"}
  MaxId = 6
  Mech = "snapshot"
VIEW ViewF
CONSTRAINT Bounded
ACTION_CONSTRAINT CountKinds
INVARIANTS InvPKUnique InvUniqueIdx InvNotNull InvChecks InvGenerated
PROPERTIES FailedStmtNoEffectF StepsRefineStatement
POSTCONDITION Counts
CHECK_DEADLOCK FALSE
