CONSTANT Years = {}
CONSTANT Ops = {"unary", "add", "time", "invalid"}
INIT EInit
NEXT ENext
INVARIANT CaseOK
ACTION_CONSTRAINT Emit
CHECK_DEADLOCK FALSE
