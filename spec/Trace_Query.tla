---------------------------- MODULE Trace_Query ----------------------------
(* Binding B for the query-semantics properties: validates recorded engine executions against
   SQLSem.  trace.ndjson lines:
     {"ev":"db",  "db": {<table>: {"w": n, "rows": [[v..]..]}}}     -- the database of the following cases
     {"ev":"q",   "id": n, "q": <query AST>, "res": {"kind":"rows","rows":[..]} | {"kind":"err","msg":..}}
     {"ev":"same","id": n, "qs": [<query AST>..], "ress": [<res>..]}  -- several formulations of one
            meaning: every result must be an acceptable result of qs[i] (C06)
     {"ev":"multi","id": n, "q": <query AST>, "ress": [<res>..]}       -- one query under several physical
            plans: every result must be an acceptable result of q (C01)
   Every line is consumed; a disagreement prints `MM <json>` and validation continues. *)
EXTENDS SQLSem, Json

TraceLog == ndJsonDeserialize("trace.ndjson")

VARIABLES l, db
vars == <<l, db>>

Init == l = 1 /\ db = <<>>

OkRes(q, res) == res.kind = "rows" /\ ResultOK(q, db, res.rows)

Judge(e) ==
  CASE e.ev = "q" ->
         (IF OkRes(e.q, e.res) THEN TRUE
          ELSE PrintT("MM " \o ToJson([l |-> l, id |-> e.id, what |-> "result", exp |-> Rows(e.q, <<>>, db)])))
    [] e.ev = "same" ->
         (LET bad == {i \in DOMAIN e.qs : ~OkRes(e.qs[i], e.ress[i])} IN
          IF bad = {} THEN TRUE
          ELSE PrintT("MM " \o ToJson([l |-> l, id |-> e.id, what |-> "variant", bad |-> bad,
                                        exp |-> Rows(e.qs[CHOOSE i \in bad : TRUE], <<>>, db)])))
    [] e.ev = "multi" ->      \* one query executed under several plans / steerings (C01)
         (LET bad == {i \in DOMAIN e.ress : ~OkRes(e.q, e.ress[i])} IN
          IF bad = {} THEN TRUE
          ELSE PrintT("MM " \o ToJson([l |-> l, id |-> e.id, what |-> "plan-variant", bad |-> bad,
                                        exp |-> Rows(e.q, <<>>, db)])))
    [] OTHER -> TRUE

Next ==
  /\ l <= Len(TraceLog)
  /\ l' = l + 1
  /\ LET e == TraceLog[l] IN
     IF e.ev = "db" THEN db' = e.db
     ELSE db' = db /\ Judge(e)

HW == TLCSet(1, l)
Accepted == TLCGet(1) = Len(TraceLog) + 1
=============================================================================
