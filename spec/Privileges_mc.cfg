\* exhaustive: every history of <= MaxStep steps over a small vocabulary (with probes as actions)
CONSTANTS
  Users = {"u1", "u2"}
  Roles = {"r1"}
  Dbs = {"d1"}
  Tbls = {"t1"}
  Privs = {"SELECT", "INSERT", "GRANT OPTION", "SUPER"}
  DynPrivs = {"REPLICATION_SLAVE_ADMIN"}
  MaxSet = 1
  WithAll = FALSE
  MaxStep = 3
  InitAll = TRUE
INIT Init
NEXT Next
VIEW View
CONSTRAINT Bound
INVARIANTS TypeOK NoOrphans RevokeInvertsGrant DynRevokeInvertsGrant DynGrantOptionIsGlobal HierarchyMonotone StrictWithinDeviation
PROPERTIES DeniedNoEffect ReloadIdentity DropForgets
CHECK_DEADLOCK FALSE
