------------------------------ MODULE MC_Geometry ------------------------------
(* C52, model side.
   (1) Exhaustive (Init/Next): every point and every pair of axis-parallel rectangles over the
       coordinates {0, 1, 2, 5}: the predicate laws PredLaws (Within => Intersects, symmetry,
       a rectangle's bounding rectangle is itself, WKT of a rectangle is a closed 5-point ring).
   (2) The cases for the engine are sampled by MC_GeometryCases. *)
EXTENDS Geometry, Json

Cs == <<0, 1, 2, 5>>
CoordSet == {Cs[i] : i \in DOMAIN Cs}
Rects == {r \in [x1 : CoordSet, y1 : CoordSet, x2 : CoordSet, y2 : CoordSet] : r.x1 < r.x2 /\ r.y1 < r.y2}
Points == {<<x, y>> : x \in CoordSet, y \in CoordSet}

VARIABLES a, b, c, phase
vars == <<a, b, c, phase>>

Init == phase = 0 /\ a \in Rects /\ b = a /\ c = <<0, 0>>
Next == phase = 0 /\ phase' = 1 /\ a' = a /\ b' \in Rects /\ c' \in Points

P(x) == [k |-> "p", c |-> x]
R(x) == [k |-> "r", r |-> x]
PredLaws ==
    /\ (Within(P(c), R(a)) => Intersects(P(c), R(a)))
    /\ (Intersects(R(a), R(b)) <=> Intersects(R(b), R(a)))
    /\ (Intersects(P(c), R(a)) <=> Intersects(R(a), P(c)))
    /\ (Intersects(P(c), R(a)) /\ Intersects(P(c), R(b)) => Intersects(R(a), R(b)))
    /\ MBR(RectPg(a)) = a
    /\ Valid(RectPg(a)) /\ Len(RectPg(a).rs[1]) = 5
    /\ (Within(P(c), R(a)) <=> (Intersects(P(c), R(a)) /\ c[1] \notin {a.x1, a.x2} /\ c[2] \notin {a.y1, a.y2}))
    /\ Intersects(P(c), P(c)) /\ Within(P(c), P(c))
    /\ (CrossOnly(a, b) => (Intersects(R(a), R(b)) /\ a # b /\ CrossOnly(b, a)))
TextFacts ==
    /\ WKT(Pt(<<1, 2>>)) = "POINT(1 2)"
    /\ WKT(Ls(<< <<0, 0>>, <<1, 1>> >>)) = "LINESTRING(0 0,1 1)"
    /\ WKT(Pg(<< << <<0, 0>>, <<0, 1>>, <<1, 1>>, <<0, 0>> >> >>)) = "POLYGON((0 0,0 1,1 1,0 0))"
    /\ WKT(MPt(<< <<1, 2>>, <<3, 4>> >>)) = "MULTIPOINT((1 2),(3 4))"
    /\ WKT(MLs(<< << <<0, 0>>, <<1, 1>> >>, << <<2, 2>>, <<3, 3>> >> >>)) = "MULTILINESTRING((0 0,1 1),(2 2,3 3))"
    /\ WKT(MPg(<< << << <<0, 0>>, <<0, 1>>, <<1, 1>>, <<0, 0>> >> >> >>)) = "MULTIPOLYGON(((0 0,0 1,1 1,0 0)))"
    /\ WKT(GC(<< Pt(<<1, 2>>), GC(<<>>), Ls(<< <<0, 0>>, <<-1, 1000>> >>) >>)) = "GEOMETRYCOLLECTION(POINT(1 2),GEOMETRYCOLLECTION EMPTY,LINESTRING(0 0,-1 1000))"
    /\ WKT(GC(<<>>)) = "GEOMETRYCOLLECTION EMPTY"
    /\ Dim(GC(<< Pt(<<1, 2>>), Pg(<< << <<0, 0>>, <<0, 1>>, <<1, 1>>, <<0, 0>> >> >>) >>)) = 2
    /\ Dim(GC(<< Pt(<<1, 2>>), GC(<<>>) >>)) = -1
ModelOK == PredLaws /\ TextFacts

=============================================================================
