// Reconstruction of the file that is empty at the pinned commit (see /root/.vp/EMPTIED_FILES.txt).
// Supplied to the Go tool with -overlay by /verif/run; never written into /repo.
// Only the symbols the rest of the tree reads are provided.

package types

// SpatialRef is one row of information_schema.ST_SPATIAL_REFERENCE_SYSTEMS.
type SpatialRef struct {
	Name          string
	ID            uint32
	Organization  interface{}
	OrgCoordsysId interface{}
	Definition    string
	Description   interface{}
}

// SupportedSRIDs lists the spatial reference systems the engine accepts.
var SupportedSRIDs = map[uint32]SpatialRef{
	0:    {Name: "", ID: 0, Organization: nil, OrgCoordsysId: nil, Definition: "", Description: nil},
	3857: {Name: "WGS 84 / Pseudo-Mercator", ID: 3857, Organization: "EPSG", OrgCoordsysId: uint32(3857), Definition: "PROJCS[\"WGS 84 / Pseudo-Mercator\"]", Description: nil},
	4326: {Name: "WGS 84", ID: 4326, Organization: "EPSG", OrgCoordsysId: uint32(4326), Definition: "GEOGCS[\"WGS 84\"]", Description: nil},
}
